#!/usr/bin/env python3
"""Regenerates the generated tables of DESIGN.md (between <!-- BEGIN:x --> / <!-- END:x --> markers)
from known_findings.jsonl, seeded/*/meta.json and seeded/RESULTS.json."""
import json, os, re, glob
root = os.path.dirname(os.path.dirname(os.path.abspath(__file__)))
os.chdir(root)

def esc(s):
    return str(s).replace('|', '\\|').replace('\n', ' ')

rows = [json.loads(l) for l in open('known_findings.jsonl') if l.strip()]
fixed = [r for r in rows if r['status'] == 'fixed']
opened = [r for r in rows if r['status'] == 'open']
out = ["| property | fix commit in /repo | what failed |", "|---|---|---|"]
for r in sorted(fixed, key=lambda r: r['property']):
    out.append(f"| {r['property']} | `{r.get('commit','')}` | {esc(r['what'])} |")
fixed_md = "\n".join(out)
out = ["| property | signature (exact match) | what fails |", "|---|---|---|"]
for r in sorted(opened, key=lambda r: (r['property'], r['signature'])):
    out.append(f"| {r['property']} | `{esc(r['signature'])}` | {esc(r.get('what', r.get('text','')))} |")
open_md = "\n".join(out)

res = {}
if os.path.exists('seeded/RESULTS.json'):
    res = json.load(open('seeded/RESULTS.json'))
out = ["| seeded change | what it does | needs | caught by `./check <prop> --tier quick` | first signature |", "|---|---|---|---|---|"]
for d in sorted(os.listdir('seeded')):
    mp = os.path.join('seeded', d, 'meta.json')
    if not os.path.exists(mp):
        continue
    m = json.load(open(mp))
    r = res.get(d, {})
    caught = "yes (%d violation signatures)" % r['violations'] if r.get('violations', 0) > 0 else (("no violation raised" if r.get('note') else "NO") if r else "not run")
    note = r.get('note', '')
    out.append(f"| `{d}` | {esc(m.get('summary',''))[:400]} | {esc(m.get('needs',''))[:300]} | {caught}{(' — ' + esc(note)) if note else ''} | `{esc(r.get('first',''))[:160]}` |")
seeds_md = "\n".join(out)

s = open('DESIGN.md').read()
for name, md in [('fixed', fixed_md), ('open', open_md), ('seeds', seeds_md)]:
    pat = re.compile(r'(<!-- BEGIN:%s -->\n).*?(<!-- END:%s -->)' % (name, name), re.S)
    if pat.search(s):
        s = pat.sub(lambda m: m.group(1) + md + "\n" + m.group(2), s)
open('DESIGN.md', 'w').write(s)
print("fixed", len(fixed), "open", len(opened), "seeds", len([d for d in os.listdir('seeded') if os.path.isdir(os.path.join('seeded', d))]))
