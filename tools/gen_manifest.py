#!/usr/bin/env python3
"""Generates /verif/MANIFEST.json from the table below (single source of truth for the interface)."""
import json, subprocess, os
ROOT = os.path.dirname(os.path.dirname(os.path.abspath(__file__)))

# id -> (level category, technique, level text, level note, design ref)
CHECKS = {}
NOT_YET = {}

def claim(pid, cat, technique, text, note, ref):
    CHECKS[pid] = (cat, technique, text, note, ref)

exec(open(os.path.join(ROOT, "tools", "claims.py")).read())

hooks_commits = subprocess.run(["git", "-C", "/repo", "log", "--format=%h %s", "3d55777..HEAD"],
                               capture_output=True, text=True).stdout.strip().splitlines()
hook_shas = [l.split()[0] for l in hooks_commits if "verif hooks" in l]

props = [json.loads(l)["id"] for l in open(os.path.join(ROOT, "properties.jsonl"))]
manifest = {
    "version": 1,
    "setup_cmd": "./check --build",
    "hooks": {
        "guard": "rzmq_verif",
        "enable": "RUSTFLAGS=\"--cfg rzmq_verif --cfg tokio_unstable\" (set in /verif/harness/.cargo/config.toml; rzmq is a path dependency on /repo/core, so every check rebuilds from the working tree)",
        "baseline_off_cmd": "cd /repo && cargo nextest run --workspace --no-fail-fast --tool-config-file pb:/w/lib/nextest.toml --profile pb --test-threads 8 --offline",
        "source_commits": hook_shas,
        "add_only": True,
    },
    "engines": [
        {"name": "E1", "path": "harness/mc-core/src/bfs.rs, harness/mc-core/src/par.rs", "kind_free_text": "explicit-state BFS by re-execution of the real objects / exhaustive enumeration of indexed finite spaces on 16 cores"},
        {"name": "E2", "path": "harness/mc-core/src/e2.rs", "kind_free_text": "iterative preemption-bounded DFS scheduler (CHESS style) over shuttle 0.9.3 continuations; switch points = verif::sched hooks between atomic steps + every Pending"},
        {"name": "E3", "path": "harness/mc-core/src/world.rs", "kind_free_text": "deterministic world: paused-clock current-thread tokio runtime, whole rzmq stack over inproc / duplex streams behind a harness-owned byte link; exhaustive script enumeration"},
        {"name": "E4", "path": "harness/mc-checks/src", "kind_free_text": "real tcp/ipc/io_uring configuration x workload matrix (scheduler not controlled; level exploration)"},
    ],
    "checks": [],
    "not_applicable": [],
    "notes": "Entry point ./check <Cxx> [--tier quick|thorough]; exit 2 = machinery failure (never a verdict). known_findings.jsonl lists open and fixed genuine defects.",
}
for e in manifest["engines"]:
    e["serves_properties"] = sorted(p for p, c in CHECKS.items() if e["name"] in c[1])
for p in props:
    if p in CHECKS:
        cat, tech, text, note, ref = CHECKS[p]
        manifest["checks"].append({
            "property_id": p,
            "quick_cmd": f"./check {p} --tier quick",
            "thorough_cmd": f"./check {p} --tier thorough",
            "evidence_file": f"/verif/evidence/{p}.json",
            "replay_cmd_template": "./check --replay {path}",
            "engine": tech.split(":")[0],
            "level_claimed": {"category": cat, "text": text, "design_ref": ref},
            "level_note": note,
            "technique": tech,
        })
    else:
        manifest["not_applicable"].append({"property_id": p, "reason": NOT_YET.get(p, "check not built yet in this round (model checking applies; see DESIGN.md section 5) — not claimed until its explorer runs clean")})
json.dump(manifest, open(os.path.join(ROOT, "MANIFEST.json"), "w"), indent=1)
print("claimed:", sorted(CHECKS), "not claimed:", [x["property_id"] for x in manifest["not_applicable"]])
