#!/bin/bash
# usage: tools/run_seeds.sh [seed-dir-name ...]   — applies each stored seeded change to /repo, runs the
# quick check of the property it targets, reverts, and prints whether the check raised a VIOLATION.
cd /verif
for d in ${@:-$(ls seeded)}; do
  prop=$(echo "$d" | cut -c1-3)
  [ -n "$(git -C /repo status --porcelain)" ] && { echo "REPO DIRTY, abort"; exit 2; }
  if git -C /repo apply --3way "/verif/seeded/$d/patch.diff" 2>/tmp/seed_apply.err; then
    out=$(./check "$prop" --tier quick 2>&1); rc=$?
    n=$(echo "$out" | grep -c "^VIOLATION")
    echo "seed $d -> check $prop exit=$rc violations=$n $(echo "$out" | grep -m1 'signature' | cut -c1-140)"
  else
    echo "seed $d -> PATCH DOES NOT APPLY ($(head -1 /tmp/seed_apply.err))"
  fi
  git -C /repo reset -q --hard HEAD; git -C /repo checkout -q -- . 
done
./check --build >/dev/null 2>&1
