#!/bin/bash
# usage: tools/run_seeds.sh [seed-dir-name ...]   — applies each stored seeded change to /repo, runs the
# quick check of the property it targets, reverts, prints whether the check raised a VIOLATION and
# records the outcome in seeded/RESULTS.json (read by tools/gen_design_tables.py).
cd /verif
[ -f seeded/RESULTS.json ] || echo '{}' > seeded/RESULTS.json
for d in ${@:-$(ls -d seeded/*/ | xargs -n1 basename)}; do
  prop=$(echo "$d" | cut -c1-3)
  # a seed may name the checks that are expected to see it (file `checks`, e.g. "C13 C01"): a change aimed
  # at one property can break the clause of another one instead
  props="$prop"; [ -f "/verif/seeded/$d/checks" ] && props=$(cat "/verif/seeded/$d/checks")
  [ -n "$(git -C /repo status --porcelain)" ] && { echo "REPO DIRTY, abort"; exit 2; }
  if git -C /repo apply --3way "/verif/seeded/$d/patch.diff" 2>/tmp/seed_apply.err; then
    out=""; rc=0
    for pp in $props; do o1=$(./check "$pp" --tier quick 2>&1); r1=$?; out="$out
$o1"; [ $r1 -ne 0 ] && rc=$r1; done
    n=$(echo "$out" | grep -c "^VIOLATION")
    first=$(echo "$out" | grep -m1 'signature:' | sed 's/^ *signature: //')
    echo "seed $d -> check $props exit=$rc violations=$n $first"
    python3 - "$d" "$rc" "$n" "$first" <<'PY'
import json,sys
p='/verif/seeded/RESULTS.json'
r=json.load(open(p))
old=r.get(sys.argv[1],{})
r[sys.argv[1]]={"exit":int(sys.argv[2]),"violations":int(sys.argv[3]),"first":sys.argv[4],"note":old.get("note","")}
json.dump(r,open(p,'w'),indent=1,sort_keys=True)
PY
  else
    echo "seed $d -> PATCH DOES NOT APPLY ($(head -1 /tmp/seed_apply.err))"
  fi
  git -C /repo reset -q --hard HEAD; git -C /repo checkout -q -- .
done
./check --build >/dev/null 2>&1
