# claim(id, level category, technique, level text, level note, DESIGN ref)
claim("C03", "model_checking",
      "E1: exhaustive enumeration of frame sequences x encoder entry points x decoder entry points x segmentations on the real encoders/decoders, against a spec-derived reference encoder",
      "Every frame sequence of 1..3 frames over the boundary lengths {0,1,254,255,256,257,65535,65536,65537} and all MORE/COMMAND combinations is pushed through every encoder entry point (bytes must equal the ZMTP spec bytes) and every decoder entry point under every segmentation in the stated cut family; finite space, fully enumerated.",
      "payload bytes are a fixed pattern; cut family for streams > 16 bytes is the boundary set (singles + pairs), all 2^(n-1) segmentations below that; lengths between the boundary values are assumed to behave like their neighbours",
      "5/C03")
claim("C05", "model_checking",
      "E1: explicit-state BFS by re-execution over the delivery lattice of two real ZmtpEngine instances (confluence + no-stuck-state + agreement oracles), exhaustive configuration matrix under 4 endpoint schedules, verdict-table comparison",
      "The engine pair plus bytes in flight is a finite transition system; every lattice point (bytes delivered each way) is visited for the representative configurations, the full 11x11 type x 4x4 mechanism x credential x identity matrix is run to quiescence under four delivery schedules, and the ZMTP/3, ZMTP/2 and inproc verdict tables are compared with the ZeroMQ pairing table.",
      "engine output is a function of received bytes (confluence oracle checks it); crypto byte contents excluded from state keys; v2 peers are scripted; a state with a PeerError is terminal; the tcp/ipc transports feed the same engine (their read loop is covered under C04)",
      "5/C05")
claim("C06", "model_checking",
      "E1: exhaustive enumeration of an attacker grammar (greeting variants x all token sequences up to depth k x 2 delivery modes) against the real ZmtpEngine in every local security configuration",
      "Every attacker stream of the grammar up to depth 2 (quick) / 3 (thorough) is run against the real engine configured with PLAIN, CURVE or NOISE_XX in both roles, with ALLOW_ZMTP2 on and off; the engine must never report HandshakeComplete nor deliver a message except on the one stream family that is a genuine completion (PLAIN connector accepting a PLAIN server).",
      "attacker has no credentials/keys (tokens drawn from the stated alphabet, crypto tokens are well-formed-but-unkeyed); session actor wiring above the engine is covered by C04/C07; CURVE/NOISE listeners accepting any well-formed client key is by design and out of scope",
      "5/C06")
claim("C07", "model_checking",
      "E1: exhaustive enumeration of every single mutation (thorough: pairs) of every valid handshake+data transcript at every byte position x delivery modes x MAXMSGSIZE values against the real ZmtpEngine (CURVE/NOISE/PLAIN against a live partner engine), all 256 values at each greeting offset, all 65536 two-byte data-phase headers, parser header extremes",
      "Every mutated stream in the stated operator family is executed on the real engine/decoders with panics caught: the engine must not panic, must pair every PeerError with Closed, must reject limit+1 at the header and deliver exactly-limit, and must never deliver more than the honest partner sent under CURVE/NOISE.",
      "mutation operators are a fixed family (byte := 00|FF|7F, ^01, ^80, truncate, length-field extremes, unit dup/drop/swap), not all byte strings; handshake-interval pacing, slot release and locality need the session actor and are checked by the E3 sub-checks (added with the world explorer); io_uring handler is covered under C20",
      "5/C07")
claim("C18", "model_checking",
      "E1: exhaustive enumeration on freshly handshaken real engine pairs: size/batch alphabet through the real record layer, heartbeat placement cases, every single bit flip (quick: bits 0 and 7) / truncation / record drop-dup-swap-inject of the captured ciphertext stream (thorough: all pairs of flips), session-to-session ciphertext comparison",
      "For CURVE and NOISE_XX in both directions, every case of the stated finite alphabets is executed on two real engines sharing a live session; the receiver must deliver exactly what the sender accepted (or the sender must have refused), heartbeats must be decodable, any tampered stream must yield only a prefix of the sent messages, and two sessions must not produce identical ciphertext.",
      "sizes from the boundary alphabet only; secrecy checked as absence of a payload marker on the wire (not a cryptographic proof); sans-IO engine level — egress ordering of encrypted records in the session actor is exercised by the E3 stack checks",
      "5/C18")
claim("C19", "model_checking",
      "E1: explicit-state BFS by re-execution of event timelines (advance/tick/inbound data,PING,PONG,malformed/outbound write) on the real ZmtpEngine under a scripted clock against a heartbeat monitor, for ZMTP/3 NULL, ZMTP/2 and CURVE/NOISE (live partner engine); exhaustive history enumeration on the real EgressBuffer",
      "All timelines over the event alphabet reach a fixpoint of the canonical state space (waiting, idle time, time since PING, traffic since PING, closed) for three (IVL, TIMEOUT) pairs; in every state the engine's PING/PONG/close decisions must match the monitor. All push/push_priority/advance(k) histories up to depth 5 (6) on the real EgressBuffer must produce a byte stream that is a concatenation of whole chunks with control chunks ahead of unstarted data.",
      "engine clock stamps are overwritten with the scripted clock after each call; the actor's interval timer wiring and io_uring's tick wiring are outside the engine timelines (see C20); data-but-no-PONG at the deadline is accepted either way",
      "5/C19")
claim("C08", "model_checking",
      "E2: iterative preemption-bounded DFS (CHESS style, own scheduler over shuttle continuations) of small harnesses on the real ReadyPipeQueue / ingress engines, switch points between every individual queue and counter step and at every Pending; deadlock = lost wake-up",
      "Every schedule with at most 2 (thorough: 3) preemptions of 30 harnesses (1-2 producers on async / non-blocking / batched enqueue paths, 1-2 consumers on blocking / non-blocking dequeue, cancellation of a blocked dequeue at each Pending, deregister/re-register/close races, the filtered SUB batch path) is executed on fresh real objects; a schedule in which every task is blocked while an item is committed is a lost wake-up; popped items must be exactly-once and per-pipe FIFO and the counters consistent at quiescence.",
      "atomicity granularity = individual channel op / atomic RMW / lock section (hooks between all of them in ready_pipe_queue.rs); sequentially consistent memory (weak-memory effects of the chosen Orderings not modelled: fibre/parking_lot cannot be switched to loom); component preconditions respected (ready capacity >= pipes, one producer per pipe); 2-3 items, 1-2 pipes",
      "5/C08")
claim("C13", "model_checking",
      "E1: explicit-state BFS of add/remove/next histories on the real LoadBalancer against a rotation reference; E2: preemption-bounded DFS of route_message / wait_for_connection harnesses on the real OutgoingMessageOrchestrator with real ScaConnectionIface objects over real bounded fibre pipes",
      "All add/remove/next histories up to depth 7 (8) over three peers are checked for round-robin fairness on the real balancer; every schedule with at most 2 (3) preemptions of seven routing harnesses (wait-for-first-peer vs add / deactivate, full-peer skipping, all-full-then-one-drains, peer churn) must deliver each message to exactly one pipe and never leave the sender blocked while a peer has room.",
      "harnesses use 2 peers of capacity 1-4 and 1-3 messages, SNDTIMEO=-1; atomicity granularity as in C08; the PUSH/DEALER socket wrappers are exercised by the E3 stack scenarios",
      "5/C13")
claim("C12", "model_checking",
      "E1: explicit-state BFS of subscribe/unsubscribe histories on the real SubscriptionTrie against a multiset reference (matches probed on 9 topics after every step); E2: preemption-bounded DFS of matches() racing subscribe/unsubscribe sequences",
      "All subscribe/unsubscribe histories up to depth 6 (7) over six topics (empty, nested prefixes, binary) are replayed on the real trie and compared with 'some active subscription is a byte-prefix'; every schedule with at most 2 (3) preemptions of seven reader/writer races must return an answer that is right for some subscription set current during the call.",
      "trie level only so far plus the filtered ingress batch path under C08; end-to-end PUB/SUB ordering and slow-subscriber isolation are E3 scenarios (added with the world explorer); concurrent subscribe through a node held by an unsubscribe is excluded from E2 (real lock on the exploring thread)",
      "5/C12")
claim("C16", "model_checking",
      "E2: preemption-bounded DFS (bound 3, thorough 4) of done()/wait()/add() tasks on the real WaitGroup that Context::term() waits on; E3 close/term injection scripts on the whole stack",
      "Every schedule with at most 3 (4) preemptions of five WaitGroup harnesses must let every waiter return (a blocked waiter = lost wake-up that term() only survives through its hidden 10 s timeout).",
      "WaitGroup component level (atomic ops and Notify calls as atomic steps); stack-level close()/term() injection at every prefix of API histories is the E3 part",
      "5/C16")
claim("C04", "model_checking",
      "E1: exhaustive enumeration of all single and pair (thorough: border triples) cut sets at every byte position of static transcripts and of live CURVE/NOISE partner streams on the real engine; E3: deterministic paused-clock worlds with a real socket and a raw scripted peer attached through the tcp/ipc post-accept code path, every single cut and every border pair, quiescence after each chunk",
      "For v3 NULL, v3 PLAIN, v2 (static) and CURVE/NOISE (live partner) transcripts of handshake + 3 messages (single, multipart with an empty frame, 300-byte frame), every segmentation in the stated family must deliver exactly the transcript's messages, at the engine and through Socket::recv() of a real socket whose session actor performs one read per chunk.",
      "E3 replaces only the kernel socket (in-memory duplex stream through verif::attach_stream, same steps as tcp.rs after accept/connect); real kernel coalescing, ipc and the io_uring handler are not reached here (C20 covers the io_uring handler differential)",
      "5/C04")
claim("C01", "model_checking",
      "E3: exhaustive enumeration of scenario scripts (all size tuples up to length 5 over boundary alphabets x batching options x HWM x SNDTIMEO x receiver pacing x first-send moment x link buffer size x socket pair x transport) executed on the whole real stack in deterministic paused-clock worlds; reference = list of accepted sends",
      "Each world builds a context and two real sockets connected over the ZMTP session path (in-memory duplex streams attached through the tcp/ipc post-accept/connect code, behind a harness-owned link that can hold the handshake half-way and force partial writes) or over inproc, issues all sends back-to-back and receives per the pacing; the received sequence must equal the accepted sequence byte for byte, blocking sends must never fail or stay blocked, refused sends must be absent.",
      "single-threaded deterministic runtime: interleavings are those the script dimensions expose (first-send moment, pacing, held handshake, 64-byte link buffer), not multi-thread schedules inside actors; kernel tcp/ipc sockets and TCP_CORK are not involved (C20's matrix binds the duplex path to real tcp); sizes from boundary alphabets (0..5000 for scaled-down limits, 100 KiB..1 MiB for default limits)",
      "5/C01")
claim("C02", "model_checking",
      "E3: exhaustive enumeration of multipart shapes (frame counts incl. 253..257 and 300, empty frames in every position, sizes across 255/256) x 5 socket pairs x 2 transports x every cyclic recv()/recv_multipart() pattern up to length 3 (4); and of every event script up to depth 5 (6) over {peer sends 3-frame message, second peer attaches / detaches / sends, recv, recv_multipart} in deterministic whole-stack worlds",
      "Every world runs the real sockets end to end; the frames handed to the application, cut at frames without MORE, must be exactly the sent messages (whole, contiguous, in order, correctly flagged), over-long messages must be refused with an error or close the connection, and no task may panic — including when another peer attaches or detaches while a message is half read.",
      "deterministic single-thread worlds (attach/detach land between API calls, at quiescence points); ZMTP path over in-memory duplex streams; frames are 0..256 bytes",
      "5/C02")
claim("C14", "model_checking",
      "E3: exhaustive enumeration of (socket pair x transport x HWM x SNDTIMEO) and (socket type x RCVTIMEO x call x connected) cells in deterministic virtual-time worlds on the whole real stack; differential HWM bound across cells",
      "For each cell the real sender sends 1000-byte messages to a peer that does not read until a send is refused or is still pending after one virtual hour; the refusal kind and exact virtual elapsed time must match SNDTIMEO (0: immediate would-block; t>0: timeout/would-block within [t, t+100 ms]; -1: waits, and completes once the peer reads), the peer must then receive exactly the accepted messages in order, and the number accepted before the first refusal may exceed 2*SNDHWM+RCVHWM only by the same constant at every HWM. RCVTIMEO likewise on an empty socket.",
      "virtual tokio clock (exact); HWM in {1,2,8,64(,1000)}, timeouts in {-1,0,1,50,500 ms}; 'peer never reads' = idle peer application or stalled in-memory network; REQ/REP/PUB senders are covered by C10/C12 scenarios rather than here",
      "5/C14")
claim("C10", "model_checking",
      "E3 + gates: explicit-state BFS by re-execution over decision histories (release a caller parked at a verif::sched gate between state check and state update / peer replies or sends / peer disconnects) for 1-2 caller tasks on clones of one real REQ or REP socket in deterministic worlds",
      "For every pair of caller plans (up to 2 calls each over send/recv/recv_multipart/send_multipart), 1-2 peers and every order in which the racing callers and the peers act (depth 7, thorough 9), the completion-ordered log of successful calls must alternate send/recv (REQ) or recv/send (REP), and each REP reply must arrive at the peer whose request the preceding recv returned.",
      "races are exposed at the gates (the check-then-act windows) and at natural await points; other multi-thread interleavings inside a call are not enumerated; recv time-outs are not counted as successes; ROUTER/DEALER peers stand in for REP/REQ peers so that the harness controls replies",
      "5/C10")
