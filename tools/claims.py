# claim(id, level category, technique, level text, level note, DESIGN ref)
claim("C03", "model_checking",
      "E1: exhaustive enumeration of frame sequences x encoder entry points x decoder entry points x segmentations on the real encoders/decoders, against a spec-derived reference encoder",
      "Every frame sequence of 1..3 frames over the boundary lengths {0,1,254,255,256,257,65535,65536,65537} and all MORE/COMMAND combinations is pushed through every encoder entry point (bytes must equal the ZMTP spec bytes) and every decoder entry point under every segmentation in the stated cut family; finite space, fully enumerated.",
      "payload bytes are a fixed pattern; cut family for streams > 16 bytes is the boundary set (singles + pairs), all 2^(n-1) segmentations below that; lengths between the boundary values are assumed to behave like their neighbours",
      "5/C03")
