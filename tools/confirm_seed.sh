#!/bin/bash
# usage: confirm_seed.sh <name> [features]   (worktree /scratch/seed-<name>, output /scratch/seed-<name>-out)
# Independently confirms a seeded change: patch == worktree diff, builds, pinned suite passes
# (isolated namespace), demo fails WITH the change and passes WITHOUT it. Writes confirm.json.
set -u
N="$1"; FEAT="${2:-}"
W=/scratch/seed-$N; O=/scratch/seed-$N-out; L=$O/confirm.log
exec >> "$L" 2>&1
cd "$W" || exit 2
if [ -z "${EVAL_ONLY:-}" ]; then
git checkout -q -- . ; git clean -fdq core/tests/seed_demo.rs 2>/dev/null
git apply "$O/patch.diff" || { echo "PATCH DOES NOT APPLY"; exit 2; }
echo "== touched files"; git diff --stat
TESTS_TOUCHED=$(git diff --name-only | grep -cE '(^|/)tests/|_test' || true)
echo "== build"; cargo build -p rzmq --offline $FEAT 2>&1 | tail -2
echo "== suite with change"; /root/tools/run_suite.sh "$W" | tee "$O/suite_with.txt"
cp "$O/demo/seed_demo.rs" core/tests/seed_demo.rs
echo "== demo WITH change"; cargo test -p rzmq --offline $FEAT --test seed_demo 2>&1 | grep -E "^test |test result" | tee "$O/demo_with.txt"
git apply -R "$O/patch.diff"   # (not git stash: the stash is shared between worktrees)
echo "== demo WITHOUT change"; cargo test -p rzmq --offline $FEAT --test seed_demo 2>&1 | grep -E "^test |test result" | tee "$O/demo_without.txt"
git apply "$O/patch.diff"; rm -f core/tests/seed_demo.rs
else TESTS_TOUCHED=$(git diff --name-only | grep -cE '(^|/)tests/|_test' || true); fi
SEED_W="$W" python3 - "$O" "$TESTS_TOUCHED" <<'PY'
import sys,json,re
o=sys.argv[1]
sw=open(o+'/suite_with.txt').read()
bad=[l.strip() for l in sw.splitlines() if l.startswith('   ')]
# known to fail intermittently at the pinned commit itself when the machine is loaded (5-15 ms timing margins)
flaky=('connection_churn','statistical_fairness','test_concurrent_term_and_op','pyzmq','manual_framing','test_waitgroup_add_done_wait','shutdown_race','test_router_router_tcp_forwarding','test_regulator_over_lifespan_bypass')
real_bad=[b for b in bad if not any(f in b for f in flaky)]
# a stable test that fails in the loaded full run but passes 3/3 on its own is a load flake
import subprocess, os
still=[]
for b in real_bad:
    name=b.split()[-1].split('::')[-1]
    ok=0
    for _ in range(3):
        r=subprocess.run(["unshare","-nm","bash","-c",f"mount -t tmpfs tmpfs /tmp; ip link set lo up; cd {os.environ.get('SEED_W','.')} && cargo nextest run --workspace --offline -E 'test({name})' 2>&1 | tail -3"],capture_output=True,text=True)
        if ' passed' in r.stdout and ' failed' not in r.stdout: ok+=1
    if ok<3: still.append(b+f" (alone: {ok}/3)")
rerun_note={b:"passed 3/3 alone" for b in real_bad if not any(x.startswith(b) for x in still)}
real_bad=still
dw=open(o+'/demo_with.txt').read(); dn=open(o+'/demo_without.txt').read()
res={"load_flakes_rerun":rerun_note,"suite_summary":sw.splitlines()[0] if sw else "", "stable_failures_excluding_known_flaky":real_bad,
     "demo_fails_with_change":"FAILED" in dw or "failed" in dw and "0 failed" not in dw, "demo_passes_without_change":("test result: ok" in dn) and ("FAILED" not in dn),
     "tests_touched_by_patch":int(sys.argv[2])}
res["confirmed"]= (not real_bad) and res["demo_fails_with_change"] and res["demo_passes_without_change"] and res["tests_touched_by_patch"]==0
json.dump(res,open(o+'/confirm.json','w'),indent=1); print(json.dumps(res,indent=1))
PY
