#!/usr/bin/env python3-vt
import json, jsonschema, glob, sys
ok=True
m=json.load(open('/verif/MANIFEST.json')); s=json.load(open('/root/.vp/MANIFEST.schema.json'))
jsonschema.validate(m,s); print("manifest valid;", len(m["checks"]), "claimed")
es=json.load(open('/root/.vp/EVIDENCE.schema.json'))
for f in sorted(glob.glob('/verif/evidence/*.json')):
    try:
        jsonschema.validate(json.load(open(f)), es); print("ok", f)
    except Exception as e:
        ok=False; print("INVALID", f, str(e)[:300])
sys.exit(0 if ok else 1)
