//! `mc check <Cxx> --tier quick|thorough` / `mc replay <file>` — one binary, one module per property.

use mc_core::{Report, Tier};
use std::time::Duration;

mod common;
mod engines;
mod stack;
mod c01;
mod c02;
mod c03;
mod c04;
mod c04_real;
mod c05;
mod c06;
mod c07;
mod c07_world;
mod c08;
mod c09;
mod c10;
mod c11;
mod c12;
mod c12_world;
mod c13;
mod c14;
mod c15;
mod c15_real;
mod c16;
mod c16_real;
mod c17;
mod c17_real;
mod c16_world;
mod c18;
mod c19;
mod c19_real;
mod c20;

static HOOKS: rzmq::verif::sched::Hooks = rzmq::verif::sched::Hooks {
  point: mc_core::e2::hook_point,
  spin: mc_core::e2::hook_spin,
  gate: mc_core::world::hook_gate,
};

fn usage() -> ! {
  eprintln!("usage: mc check <C01..C20> [--tier quick|thorough]\n       mc replay <replay-file.json>");
  std::process::exit(2);
}

fn main() {
  let args: Vec<String> = std::env::args().collect();
  if args.len() < 3 {
    usage();
  }
  if std::env::var_os("MC_TRACE").is_some() {
    let _ = tracing_subscriber::fmt().with_env_filter(tracing_subscriber::EnvFilter::from_env("MC_TRACE")).with_writer(std::io::stderr).without_time().try_init();
  }
  rzmq::verif::sched::install(&HOOKS);
  // let shuttle install its (chaining, noisy) panic hook once, then replace it with the quiet one
  shuttle::check_dfs(|| {}, Some(1));
  mc_core::install_quiet_panic_hook();

  match args[1].as_str() {
    "check" => {
      let prop = args[2].to_uppercase();
      let mut tier = match std::env::var("VERIF_TIER").ok().as_deref() {
        Some("thorough") => Tier::Thorough,
        _ => Tier::Quick,
      };
      let mut i = 3;
      while i < args.len() {
        match args[i].as_str() {
          "--tier" => {
            i += 1;
            tier = match args.get(i).map(|s| s.as_str()) {
              Some("quick") => Tier::Quick,
              Some("thorough") => Tier::Thorough,
              _ => usage(),
            };
          }
          _ => usage(),
        }
        i += 1;
      }
      let total = tier.pick(Duration::from_secs(600), Duration::from_secs(4 * 3600));
      mc_core::world::start_watchdog(total, format!("{} {}", prop, tier.name()));
      let report: Report = match prop.as_str() {
        "C01" => c01::run(tier),
        "C02" => c02::run(tier),
        "C03" => c03::run(tier),
        "C04" => c04::run(tier),
        "C05" => c05::run(tier),
        "C06" => c06::run(tier),
        "C07" => c07::run(tier),
        "C08" => c08::run(tier),
        "C09" => c09::run(tier),
        "C10" => c10::run(tier),
        "C11" => c11::run(tier),
        "C12" => c12::run(tier),
        "C13" => c13::run(tier),
        "C14" => c14::run(tier),
        "C15" => c15::run(tier),
        "C16" => c16::run(tier),
        "C17" => c17::run(tier),
        "C18" => c18::run(tier),
        "C19" => c19::run(tier),
        "C20" => c20::run(tier),
        _ => {
          eprintln!("no check registered for {}", prop);
          std::process::exit(2);
        }
      };
      let code = report.finish();
      if mc_core::world::machinery_error() {
        eprintln!("MACHINERY: an explorer reported an internal error (nondeterministic replay / divergence); no verdict");
        std::process::exit(2);
      }
      std::process::exit(code);
    }
    "replay" => {
      let body = std::fs::read_to_string(&args[2]).expect("read replay file");
      let v: serde_json::Value = serde_json::from_str(&body).expect("replay json");
      let prop = v["property"].as_str().unwrap_or("").to_string();
      let sub = v["sub"].as_str().unwrap_or("").to_string();
      let res = match prop.as_str() {
        "C01" => c01::replay(&sub, &v["witness"]),
        "C02" => c02::replay(&sub, &v["witness"]),
        "C03" => c03::replay(&sub, &v["witness"]),
        "C04" => c04::replay(&sub, &v["witness"]),
        "C05" => c05::replay(&sub, &v["witness"]),
        "C06" => c06::replay(&sub, &v["witness"]),
        "C07" => c07::replay(&sub, &v["witness"]),
        "C08" => c08::replay(&sub, &v["witness"]),
        "C09" => c09::replay(&sub, &v["witness"]),
        "C10" => c10::replay(&sub, &v["witness"]),
        "C11" => c11::replay(&sub, &v["witness"]),
        "C12" => c12::replay(&sub, &v["witness"]),
        "C13" => c13::replay(&sub, &v["witness"]),
        "C14" => c14::replay(&sub, &v["witness"]),
        "C15" => c15::replay(&sub, &v["witness"]),
        "C16" => c16::replay(&sub, &v["witness"]),
        "C17" => c17::replay(&sub, &v["witness"]),
        "C18" => c18::replay(&sub, &v["witness"]),
        "C19" => c19::replay(&sub, &v["witness"]),
        "C20" => c20::replay(&sub, &v["witness"]),
        _ => Err(format!("no replay registered for {}", prop)),
      };
      match res {
        Ok(msg) => {
          println!("REPLAY {} {}: property holds on this witness now ({})", prop, v["signature"], msg);
          std::process::exit(0);
        }
        Err(msg) => {
          println!("REPLAY {} {}: reproduced: {}", prop, v["signature"], msg);
          std::process::exit(1);
        }
      }
    }
    _ => usage(),
  }
}
