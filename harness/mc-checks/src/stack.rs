//! E3 helpers: building sockets in a deterministic world, attaching in-memory streams exactly the
//! way the tcp/ipc transports attach accepted / connected streams, raw scripted peers.
#![allow(dead_code)]

use mc_core::world::{settle, Link};
use rzmq::socket::options as o;
use rzmq::verif::session::attach_stream;
use rzmq::{Context, Msg, MsgFlags, Socket, SocketType, ZmqError};
use std::sync::atomic::{AtomicUsize, Ordering};
use tokio::io::{AsyncReadExt, AsyncWriteExt, DuplexStream};

static NEXT_URI: AtomicUsize = AtomicUsize::new(1);

pub fn fresh_uri() -> String {
  // unique, tcp-looking (some code paths parse the scheme); never dialled: RECONNECT_IVL is 0 on harness sockets
  let n = NEXT_URI.fetch_add(1, Ordering::Relaxed);
  format!("tcp://10.{}.{}.{}:{}", (n >> 16) & 255, (n >> 8) & 255, n & 255, 10000 + (n % 50000))
}

/// A socket with the given integer options; reconnection disabled (attached streams have no address
/// to dial) unless the caller overrides it.
pub async fn mk(ctx: &Context, ty: SocketType, opts: &[(i32, i32)]) -> Socket {
  let s = ctx.socket(ty).expect("socket");
  s.set_option(o::RECONNECT_IVL, 0i32).await.expect("reconnect ivl");
  for (k, v) in opts {
    s.set_option(*k, *v).await.unwrap_or_else(|e| panic!("set_option({}, {}): {}", k, v, e));
  }
  s
}

/// Connect `a` (connector role) to `b` (listener role) through a harness-owned byte link over two
/// in-memory duplex streams of `buf` bytes each. This is the tcp/ipc code path minus the kernel.
pub async fn link_pair(a: &Socket, b: &Socket, buf: usize) -> Link {
  let (a_end, link_a) = tokio::io::duplex(buf);
  let (link_b, b_end) = tokio::io::duplex(buf);
  let l = Link::spawn(link_a, link_b);
  let ua = fresh_uri();
  let ub = fresh_uri();
  attach_stream(a, a_end, false, &ua, &ua).await;
  attach_stream(b, b_end, true, &ub, &ub).await;
  l
}

/// Attach a raw scripted peer to `sock`; returns the peer's end of the stream.
pub async fn raw_peer(sock: &Socket, sock_is_server: bool, buf: usize) -> DuplexStream {
  let (sock_end, peer_end) = tokio::io::duplex(buf);
  let u = fresh_uri();
  attach_stream(sock, sock_end, sock_is_server, &u, &u).await;
  peer_end
}

/// Write a chunk to the peer stream and let the stack process it completely.
pub async fn write_settle(peer: &mut DuplexStream, chunk: &[u8]) -> bool {
  if peer.write_all(chunk).await.is_err() {
    return false;
  }
  let _ = peer.flush().await;
  settle().await;
  true
}

/// Read whatever the socket has written so far (non-blocking after a settle).
pub async fn drain_peer(peer: &mut DuplexStream) -> Vec<u8> {
  let mut out = vec![];
  let mut buf = [0u8; 4096];
  loop {
    match tokio::time::timeout(std::time::Duration::from_micros(10), peer.read(&mut buf)).await {
      Ok(Ok(0)) | Ok(Err(_)) | Err(_) => break,
      Ok(Ok(n)) => out.extend_from_slice(&buf[..n]),
    }
  }
  out
}

/// Receive until `recv` would block (RCVTIMEO must be small and positive or 0 on the socket).
pub async fn recv_all(sock: &Socket, max: usize) -> Vec<(Vec<u8>, bool)> {
  let mut out = vec![];
  while out.len() < max {
    match sock.recv().await {
      Ok(m) => out.push((m.data().unwrap_or(&[]).to_vec(), m.is_more())),
      Err(_) => break,
    }
  }
  out
}

pub fn msg(data: &[u8], more: bool) -> Msg {
  let mut m = Msg::from_vec(data.to_vec());
  if more {
    m.set_flags(MsgFlags::MORE);
  }
  m
}

pub fn is_would_block(e: &ZmqError) -> bool {
  matches!(e, ZmqError::ResourceLimitReached | ZmqError::Timeout)
}

// ---- wire helpers for scripted peers --------------------------------------------------------------

pub fn frame(flags: u8, body: &[u8]) -> Vec<u8> {
  let mut out = vec![];
  if body.len() <= 255 {
    out.push(flags);
    out.push(body.len() as u8);
  } else {
    out.push(flags | 0x02);
    out.extend_from_slice(&(body.len() as u64).to_be_bytes());
  }
  out.extend_from_slice(body);
  out
}

pub fn v3_greeting(mech: &str, as_server: bool) -> Vec<u8> {
  let mut b = vec![0xFF, 0, 0, 0, 0, 0, 0, 0, 0, 0x7F, 3, 0];
  let mut m = [0u8; 20];
  m[..mech.len()].copy_from_slice(mech.as_bytes());
  b.extend_from_slice(&m);
  b.push(as_server as u8);
  b.extend_from_slice(&[0u8; 31]);
  b
}

pub fn ready(socket_type: &str, identity: Option<&[u8]>) -> Vec<u8> {
  let mut b = b"\x05READY".to_vec();
  b.push(11);
  b.extend_from_slice(b"Socket-Type");
  b.extend_from_slice(&(socket_type.len() as u32).to_be_bytes());
  b.extend_from_slice(socket_type.as_bytes());
  if let Some(id) = identity {
    b.push(8);
    b.extend_from_slice(b"Identity");
    b.extend_from_slice(&(id.len() as u32).to_be_bytes());
    b.extend_from_slice(id);
  }
  frame(0x04, &b)
}

pub fn v2_greeting(type_code: u8, identity: &[u8]) -> Vec<u8> {
  let mut b = vec![0xFF, 0, 0, 0, 0, 0, 0, 0, 0, 0x7F, 0x01, type_code];
  b.extend_from_slice(&frame(0, identity));
  b
}
