//! C07 stack-level parts.
//!
//! E3 (virtual time): handshake pacing — a raw peer feeds a *valid* handshake (or nothing, or the
//! start of one) at every pacing in a grid; whatever the pacing, a connection that has not finished
//! its handshake when HANDSHAKE_IVL has elapsed must be closed by the socket; a healthy connection
//! of the same socket keeps working throughout.
//! E4 (real tcp): connection-slot release — with MAX_CONNECTIONS=1 a peer that never completes its
//! handshake (silent, dripping, malformed) must lose its slot, so that a healthy peer gets served.

use crate::stack::{self, msg, ready, v3_greeting};
use mc_core::par::{self, Case};
use mc_core::world::{self, settle_n};
use mc_core::{Report, Sub, Tier};
use rzmq::socket::options as o;
use rzmq::{Context, SocketType};
use serde_json::{json, Value};
use std::time::Duration;
use tokio::io::{AsyncReadExt, AsyncWriteExt};
use tokio::time::Instant;

#[derive(Clone, Copy, Debug, PartialEq, Eq)]
enum Feed {
  /// nothing at all
  Silent,
  /// `chunk` bytes of the valid handshake every `every_ms`
  Drip { chunk: usize, every_ms: u64 },
  /// the whole greeting at once, then the READY command dripped
  GreetingThenDrip { chunk: usize, every_ms: u64 },
  /// garbage bytes dripped (never a valid greeting)
  GarbageDrip { every_ms: u64 },
}

#[derive(Clone, Copy, Debug)]
struct Cell {
  feed: Feed,
  ivl_ms: u64,
  x_is_server: bool,
}

#[derive(Debug, Default, Clone)]
struct Out {
  /// virtual ms after attach at which the raw peer saw the connection closed (None = still open at the end)
  closed_at_ms: Option<u64>,
  handshake_bytes_fed: usize,
  handshake_complete_fed_at_ms: Option<u64>,
  healthy_errors: Vec<String>,
  x_closed: bool,
}

fn pacing_world(c: Cell) -> world::WorldResult<Out> {
  world::run(1, move || async move {
    let ctx = Context::new().expect("context");
    let hctx = Context::new().expect("hctx");
    let x = stack::mk(&ctx, SocketType::Pull, &[(o::RCVTIMEO, 20), (o::LINGER, 0), (o::HANDSHAKE_IVL, c.ivl_ms as i32)]).await;
    let h = stack::mk(&hctx, SocketType::Push, &[(o::SNDTIMEO, 100), (o::LINGER, 0)]).await;
    let l = stack::link_pair(&h, &x, 1 << 16).await;
    settle_n(6).await;
    let mut out = Out::default();
    let mut raw = stack::raw_peer(&x, c.x_is_server, 1 << 16).await;
    let t0 = Instant::now();
    let mut hs = v3_greeting("NULL", !c.x_is_server);
    hs.extend_from_slice(&ready("PUSH", None));
    let horizon = Duration::from_millis(4 * c.ivl_ms + 2000);
    let mut fed = 0usize;
    let mut next_feed = Duration::ZERO;
    let mut garbage_i = 0u8;
    let mut healthy_seq = 0u32;
    // advance virtual time in 10 ms steps: feed when due, watch for EOF, exercise the healthy connection
    let mut buf = [0u8; 4096];
    loop {
      let now = t0.elapsed();
      if now >= horizon {
        break;
      }
      // feed
      let mut chunk: Option<Vec<u8>> = None;
      if now >= next_feed {
        match c.feed {
          Feed::Silent => {}
          Feed::Drip { chunk: n, every_ms } => {
            if fed < hs.len() {
              let e = (fed + n).min(hs.len());
              chunk = Some(hs[fed..e].to_vec());
              fed = e;
            }
            next_feed = now + Duration::from_millis(every_ms);
          }
          Feed::GreetingThenDrip { chunk: n, every_ms } => {
            if fed == 0 {
              chunk = Some(hs[..64].to_vec());
              fed = 64;
            } else if fed < hs.len() {
              let e = (fed + n).min(hs.len());
              chunk = Some(hs[fed..e].to_vec());
              fed = e;
            }
            next_feed = now + Duration::from_millis(every_ms);
          }
          Feed::GarbageDrip { every_ms } => {
            garbage_i = garbage_i.wrapping_add(1);
            // 0xFF then zeros looks like the start of a greeting signature for a while
            chunk = Some(vec![if garbage_i == 1 { 0xFF } else { 0x00 }]);
            next_feed = now + Duration::from_millis(every_ms);
          }
        }
      }
      if let Some(ch) = chunk {
        if raw.write_all(&ch).await.is_err() {
          out.closed_at_ms = Some(t0.elapsed().as_millis() as u64);
          break;
        }
        if fed == hs.len() && out.handshake_complete_fed_at_ms.is_none() && !matches!(c.feed, Feed::GarbageDrip { .. } | Feed::Silent) {
          out.handshake_complete_fed_at_ms = Some(t0.elapsed().as_millis() as u64);
        }
      }
      settle_n(2).await;
      // EOF?
      match tokio::time::timeout(Duration::from_micros(10), raw.read(&mut buf)).await {
        Ok(Ok(0)) | Ok(Err(_)) => {
          out.closed_at_ms = Some(t0.elapsed().as_millis() as u64);
          break;
        }
        _ => {}
      }
      // healthy traffic every 100 ms of virtual time
      if (t0.elapsed().as_millis() / 100) as u32 >= healthy_seq {
        healthy_seq += 1;
        let body = format!("h{}", healthy_seq).into_bytes();
        match h.send(msg(&body, false)).await {
          Ok(()) => {
            settle_n(2).await;
            match x.recv().await {
              Ok(m) if m.data() == Some(&body[..]) => {}
              Ok(m) if out.handshake_complete_fed_at_ms.is_some() => {
                // the dripping peer finished its handshake in time and is a legitimate PUSH peer now; nothing it sends though
                let _ = m;
              }
              other => out.healthy_errors.push(format!("at {} ms: healthy message {:?} -> {:?}", t0.elapsed().as_millis(), String::from_utf8_lossy(&body), other.map(|m| String::from_utf8_lossy(m.data().unwrap_or(&[])).to_string()))),
            }
          }
          Err(e) => out.healthy_errors.push(format!("at {} ms: healthy send: {}", t0.elapsed().as_millis(), e)),
        }
      }
      tokio::time::sleep(Duration::from_millis(10)).await;
    }
    out.handshake_bytes_fed = fed;
    out.x_closed = tokio::time::timeout(Duration::from_secs(2), x.set_option(o::SNDHWM, 5i32)).await.map(|r| r.is_err()).unwrap_or(true);
    l.destroy();
    drop(raw);
    let _ = tokio::time::timeout(Duration::from_secs(30), ctx.term()).await;
    let _ = tokio::time::timeout(Duration::from_secs(30), hctx.term()).await;
    out
  })
}

fn pacing_cells(tier: Tier) -> Vec<Cell> {
  let mut v = vec![];
  for ivl_ms in tier.pick(vec![500u64], vec![200, 500, 3000]) {
    let mut feeds = vec![Feed::Silent];
    for every in [ivl_ms / 10, ivl_ms / 2, ivl_ms * 3 / 5, ivl_ms - 1, ivl_ms, ivl_ms + 1, ivl_ms * 2] {
      for chunk in [1usize, 7, 40] {
        feeds.push(Feed::Drip { chunk, every_ms: every.max(1) });
      }
      feeds.push(Feed::GreetingThenDrip { chunk: 1, every_ms: every.max(1) });
      feeds.push(Feed::GarbageDrip { every_ms: every.max(1) });
    }
    for feed in feeds {
      for x_is_server in [true, false] {
        v.push(Cell { feed, ivl_ms, x_is_server });
      }
    }
  }
  v
}

fn pacing_sub(tier: Tier) -> Sub {
  let mut sub = Sub::new("handshake-pacing", "E3");
  sub.rule = "case = one world per (feed pattern x pacing x HANDSHAKE_IVL x role): a raw peer feeds a valid handshake / part of one / garbage at the given pace while a healthy PUSH peer sends a message every 100 ms virtual; non-trivial = the handshake cannot complete within HANDSHAKE_IVL at that pace; oracle: unless all handshake bytes were fed before HANDSHAKE_IVL, the socket closes the connection no later than HANDSHAKE_IVL + one pacing step + 100 ms (virtual), never panics, stays open, and every healthy message arrives".into();
  let list = pacing_cells(tier);
  sub.bounds = json!({"cells": list.len(), "handshake_ivl_ms": tier.pick(vec![500], vec![200, 500, 3000])});
  par::enumerate(&mut sub, list.len(), |i| {
    let c = list[i];
    let r = pacing_world(c);
    let wit = json!({"explorer": "e3", "sub": "handshake-pacing", "cell": format!("{:?}", c)});
    let kind = match c.feed {
      Feed::Silent => "Silent",
      Feed::Drip { .. } => "Drip",
      Feed::GreetingThenDrip { .. } => "GreetingThenDrip",
      Feed::GarbageDrip { .. } => "GarbageDrip",
    };
    let class = format!("{}:{}", kind, if c.x_is_server { "accepted" } else { "dialled" });
    let mut case = Case { steps: 10, ..Default::default() };
    for p in &r.panics {
      case.violations.push(("panic".into(), p.rsplit(" @ ").next().map(mc_core::short_loc).unwrap_or_default(), p.clone(), wit.clone()));
    }
    if let Some(o) = r.result {
      let step = match c.feed {
        Feed::Drip { every_ms, .. } | Feed::GreetingThenDrip { every_ms, .. } | Feed::GarbageDrip { every_ms } => every_ms,
        Feed::Silent => 0,
      };
      let in_time = matches!(o.handshake_complete_fed_at_ms, Some(t) if t <= c.ivl_ms);
      case.nontrivial = !in_time;
      case.outcome = mc_core::digest(&(o.closed_at_ms.is_some(), in_time, o.healthy_errors.len()));
      case.state = mc_core::digest(&(i, o.closed_at_ms));
      if !in_time {
        let limit = c.ivl_ms + step + 100;
        match o.closed_at_ms {
          None => case.violations.push(("handshake-never-timed-out".into(), class.clone(), format!("HANDSHAKE_IVL={} ms, {:?}: connection still open after {} ms virtual ({} handshake bytes fed)", c.ivl_ms, c.feed, 4 * c.ivl_ms + 2000, o.handshake_bytes_fed), wit.clone())),
          Some(t) if t > limit => case.violations.push(("handshake-timed-out-late".into(), class.clone(), format!("HANDSHAKE_IVL={} ms, {:?}: closed only after {} ms virtual (limit {})", c.ivl_ms, c.feed, t, limit), wit.clone())),
          _ => {}
        }
      }
      if let Some(e) = o.healthy_errors.first() {
        case.violations.push(("healthy-connection-disturbed".into(), class.clone(), e.clone(), wit.clone()));
      }
      if o.x_closed {
        case.violations.push(("socket-shut-down".into(), class.clone(), "the owning socket no longer answers set_option".into(), wit.clone()));
      }
      if i % 23 == 0 {
        case.sample = Some(json!({"cell": format!("{:?}", c), "closed_at_ms_virtual": o.closed_at_ms, "handshake_fed_completely_at_ms": o.handshake_complete_fed_at_ms}));
      }
    }
    case
  });
  sub
}

// ------------------------------------------------------------------------------------------------
// E4: slot release with MAX_CONNECTIONS = 1 on real tcp
// ------------------------------------------------------------------------------------------------

#[derive(Clone, Copy, Debug, PartialEq, Eq)]
enum Squatter {
  Silent,
  Drip,
  BadGreeting,
  HandshakeThenOversize,
  HandshakeThenClose,
}

async fn slot_cell(sq: Squatter, ivl_ms: u64) -> Result<(bool, u64, String), String> {
  let ctx = Context::new().map_err(|e| e.to_string())?;
  let pctx = Context::new().map_err(|e| e.to_string())?;
  let x = ctx.socket(SocketType::Pull).map_err(|e| e.to_string())?;
  for (k, v) in [(o::RCVTIMEO, 200), (o::LINGER, 0), (o::HANDSHAKE_IVL, ivl_ms as i32), (o::MAX_CONNECTIONS, 1)] {
    x.set_option(k, v).await.map_err(|e| format!("option {}: {}", k, e))?;
  }
  x.set_option(o::MAXMSGSIZE, &1000i64.to_ne_bytes()[..]).await.map_err(|e| e.to_string())?;
  x.bind("tcp://127.0.0.1:0").await.map_err(|e| e.to_string())?;
  let ep = String::from_utf8(x.get_option(o::LAST_ENDPOINT).await.map_err(|e| e.to_string())?).unwrap();
  let addr = ep.trim_start_matches("tcp://").to_string();
  let stop = std::sync::Arc::new(std::sync::atomic::AtomicBool::new(false));
  let stop2 = stop.clone();
  let th = std::thread::spawn(move || {
    use std::io::Write;
    let Ok(mut s) = std::net::TcpStream::connect(&addr) else { return };
    s.set_nodelay(true).ok();
    let mut hs = v3_greeting("NULL", false);
    hs.extend_from_slice(&ready("PUSH", None));
    match sq {
      Squatter::Silent => {}
      Squatter::Drip => {
        for b in hs.iter() {
          if stop2.load(std::sync::atomic::Ordering::SeqCst) || s.write_all(&[*b]).is_err() {
            return;
          }
          std::thread::sleep(std::time::Duration::from_millis(ivl_ms * 3 / 5));
        }
      }
      Squatter::BadGreeting => {
        let _ = s.write_all(&[0u8; 64]);
      }
      Squatter::HandshakeThenOversize => {
        let _ = s.write_all(&hs);
        let mut big = vec![0x02u8];
        big.extend_from_slice(&(5000u64).to_be_bytes());
        big.extend_from_slice(&[7u8; 5000]);
        let _ = s.write_all(&big);
      }
      Squatter::HandshakeThenClose => {
        let _ = s.write_all(&hs);
        std::thread::sleep(std::time::Duration::from_millis(50));
        return;
      }
    }
    while !stop2.load(std::sync::atomic::Ordering::SeqCst) {
      std::thread::sleep(std::time::Duration::from_millis(5));
    }
  });
  // let the squatter take the only slot
  tokio::time::sleep(Duration::from_millis(150)).await;
  let t0 = std::time::Instant::now();
  let h = pctx.socket(SocketType::Push).map_err(|e| e.to_string())?;
  for (k, v) in [(o::SNDTIMEO, 200), (o::LINGER, 0), (o::RECONNECT_IVL, 50)] {
    h.set_option(k, v).await.map_err(|e| e.to_string())?;
  }
  h.connect(&ep).await.map_err(|e| e.to_string())?;
  // the healthy peer must be served once the squatter's slot is released: HANDSHAKE_IVL (+ margin)
  let limit = Duration::from_millis(ivl_ms + 6000);
  let mut served = false;
  let mut i = 0;
  while t0.elapsed() < limit {
    i += 1;
    let _ = h.send(msg(format!("healthy{}", i).as_bytes(), false)).await;
    if let Ok(m) = x.recv().await {
      if m.data().unwrap_or(&[]).starts_with(b"healthy") {
        served = true;
        break;
      }
    }
  }
  let took = t0.elapsed().as_millis() as u64;
  stop.store(true, std::sync::atomic::Ordering::SeqCst);
  let _ = th.join();
  let open = tokio::time::timeout(Duration::from_secs(2), x.set_option(o::SNDHWM, 7i32)).await.map(|r| r.is_ok()).unwrap_or(false);
  let _ = tokio::time::timeout(Duration::from_secs(12), ctx.term()).await;
  let _ = tokio::time::timeout(Duration::from_secs(12), pctx.term()).await;
  Ok((served, took, if open { String::new() } else { "socket no longer answers".into() }))
}

fn slot_sub(tier: Tier) -> Sub {
  let mut sub = Sub::new("slot-release", "E4");
  sub.rule = "case = one real-time execution per squatter kind: a PULL socket with MAX_CONNECTIONS=1 and HANDSHAKE_IVL=400 ms on loopback tcp; a raw peer takes the slot and stays silent / drips a valid handshake slower than the interval / sends a bad greeting / completes the handshake and sends an over-limit frame / completes and closes; then a healthy PUSH connects (retrying every 50 ms); oracle: the healthy peer's message is received within HANDSHAKE_IVL + 6 s and the socket stays open".into();
  let kinds = [Squatter::Silent, Squatter::Drip, Squatter::BadGreeting, Squatter::HandshakeThenOversize, Squatter::HandshakeThenClose];
  let ivls: Vec<u64> = tier.pick(vec![400], vec![400, 1500]);
  let mut list = vec![];
  for k in kinds {
    for i in &ivls {
      list.push((k, *i));
    }
  }
  sub.bounds = json!({"cells": list.len()});
  sub.notes.push("a violation in a real-clock cell is reported only if it shows again when the cell is executed a second time; E4 cells are real-clock executions: the matrix is enumerated completely, the schedules inside a cell are not".into());
  par::enumerate(&mut sub, list.len(), |i| par::confirmed(|| {
    let (k, ivl) = list[i];
    let rt = tokio::runtime::Builder::new_multi_thread().worker_threads(2).enable_all().build().expect("runtime");
    let r = rt.block_on(async move { tokio::time::timeout(Duration::from_secs(60), slot_cell(k, ivl)).await });
    rt.shutdown_timeout(Duration::from_secs(2));
    let wit = json!({"explorer": "e4", "sub": "slot-release", "cell": format!("{:?} ivl={}", k, ivl)});
    let class = format!("{:?}", k);
    let mut case = Case { steps: 3, nontrivial: true, ..Default::default() };
    match r {
      Err(_) => case.violations.push(("scenario-hangs".into(), class, "did not finish within 60 s".into(), wit)),
      Ok(Err(e)) => {
        case.nontrivial = false;
        case.sample = Some(json!({"skipped": e}));
      }
      Ok(Ok((served, took, err))) => {
        case.outcome = mc_core::digest(&served);
        case.state = mc_core::digest(&(i, served));
        if !served {
          case.violations.push(("connection-slot-not-released".into(), class.clone(), format!("MAX_CONNECTIONS=1, HANDSHAKE_IVL={} ms: the healthy peer was not served within {} ms after a {:?} peer took the slot", ivl, took, k), wit.clone()));
        }
        if !err.is_empty() {
          case.violations.push(("socket-shut-down".into(), class.clone(), err, wit.clone()));
        }
        case.sample = Some(json!({"squatter": format!("{:?}", k), "handshake_ivl_ms": ivl, "healthy_served_after_ms": took, "served": served}));
      }
    }
    case
  }));
  sub
}


// ------------------------------------------------------------------------------------------------
// E3: frame-count boundary through every receiving socket type
// ------------------------------------------------------------------------------------------------

fn frame_count_world(ty: SocketType, more_frames: usize) -> world::WorldResult<(usize, Vec<usize>, bool)> {
  world::run(1, move || async move {
    let ctx = Context::new().expect("context");
    let x = stack::mk(&ctx, ty, &[(o::RCVTIMEO, 20), (o::LINGER, 0)]).await;
    if ty == SocketType::Sub {
      x.set_option(o::SUBSCRIBE, &b""[..]).await.unwrap();
    }
    let peer_name = match ty {
      SocketType::Pull => "PUSH",
      SocketType::Router | SocketType::Dealer => "DEALER",
      SocketType::Rep => "REQ",
      SocketType::Sub => "PUB",
      _ => "DEALER",
    };
    let mut raw = stack::raw_peer(&x, true, 1 << 20).await;
    let mut bytes = v3_greeting("NULL", false);
    bytes.extend_from_slice(&ready(peer_name, None));
    let mut sent_frames = 0usize;
    if ty == SocketType::Rep || ty == SocketType::Dealer {
      // request envelope delimiter (rzmq's DEALER expects and strips one too: AUTO_DELIMITER)
      bytes.extend_from_slice(&crate::stack::frame(0x01, b""));
    }
    for _ in 0..more_frames {
      bytes.extend_from_slice(&crate::stack::frame(0x01, b"x"));
      sent_frames += 1;
    }
    bytes.extend_from_slice(&crate::stack::frame(0x00, b"end"));
    sent_frames += 1;
    let _ = stack::write_settle(&mut raw, &bytes).await;
    settle_n(6).await;
    let mut shapes = vec![];
    while let Ok(fr) = x.recv_multipart().await {
      shapes.push(fr.len());
    }
    let open = tokio::time::timeout(Duration::from_secs(2), x.set_option(o::SNDHWM, 5i32)).await.map(|r| r.is_ok()).unwrap_or(false);
    drop(raw);
    let _ = tokio::time::timeout(Duration::from_secs(30), ctx.term()).await;
    (sent_frames, shapes, open)
  })
}

fn frame_count_sub(_tier: Tier) -> Sub {
  let mut sub = Sub::new("frame-count-boundary", "E3");
  sub.rule = "case = one world per (receiving socket type x number of MORE frames in {250..257, 300}): a raw peer completes the handshake and sends one message of that many MORE frames plus a final frame; oracle: no task panics, the application sees either that message whole (plus the identity frame on ROUTER) or nothing, the socket stays open".into();
  let mut list = vec![];
  for ty in [SocketType::Pull, SocketType::Router, SocketType::Rep, SocketType::Sub, SocketType::Dealer] {
    for k in [1usize, 250, 251, 252, 253, 254, 255, 256, 257, 300] {
      list.push((ty, k));
    }
  }
  sub.bounds = json!({"worlds": list.len()});
  par::enumerate(&mut sub, list.len(), |i| {
    let (ty, k) = list[i];
    let r = frame_count_world(ty, k);
    let wit = json!({"explorer": "e3", "sub": "frame-count-boundary", "cell": format!("{:?} {}", ty, k)});
    let class = format!("{:?}", ty);
    let mut case = Case { steps: 2, nontrivial: k >= 250, ..Default::default() };
    for p in &r.panics {
      case.violations.push(("panic".into(), format!("{}:{}", p.rsplit(" @ ").next().map(mc_core::short_loc).unwrap_or_default(), class), format!("{} MORE frames + final to a {:?} socket: {}", k, ty, p), wit.clone()));
    }
    if let Some((sent, shapes, open)) = r.result {
      case.outcome = mc_core::digest(&(shapes.clone(), open));
      case.state = mc_core::digest(&(i, shapes.len()));
      let extra = (ty == SocketType::Router) as usize;
      let ok = shapes.is_empty() || shapes == vec![sent + extra];
      if !ok {
        case.violations.push(("partial-or-split-message-delivered".into(), class.clone(), format!("peer sent one message of {} frames; application saw messages with frame counts {:?}", sent, shapes), wit.clone()));
      }
      if !open {
        case.violations.push(("socket-shut-down".into(), class.clone(), format!("after {} MORE frames + final the socket no longer answers set_option", k), wit.clone()));
      }
    }
    case
  });
  sub
}

pub fn add_world_subs(rep: &mut Report, tier: Tier) {
  rep.assume("E3 handshake pacing runs on the paused tokio clock (exact virtual milliseconds); slot release needs the tcp listener's connection semaphore and runs on the real clock (E4) with a one-sided 6 s margin");
  rep.add(pacing_sub(tier));
  rep.add(frame_count_sub(tier));
  rep.add(slot_sub(tier));
}

pub fn replay(w: &Value) -> Result<String, String> {
  if w["sub"] == "handshake-pacing" {
    let c = pacing_cells(Tier::Thorough).into_iter().find(|c| w["cell"] == format!("{:?}", c)).ok_or("cell not found")?;
    let r = pacing_world(c);
    if !r.panics.is_empty() {
      return Err(format!("panics: {:?}", r.panics));
    }
    return Ok(format!("{:?}", r.result));
  }
  Err("re-run ./check C07".into())
}
