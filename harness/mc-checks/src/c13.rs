//! C13 — PUSH/DEALER give each message to exactly one ready peer, fairly.
//!
//! E1 on the real `LoadBalancer`: all add/remove/next histories against a rotation reference.
//! E2 on the real `OutgoingMessageOrchestrator` + real `ScaConnectionIface`s over real bounded fibre
//! pipes: `route_message` against full / draining peers, and `wait_for_connection` racing
//! `add_connection` / `deactivate`.

use crate::common::*;
use mc_core::bfs::{bfs, Visit};
use mc_core::e2::{self, E2Cfg, Harness};
use mc_core::{Report, Sub, Tier};
use rzmq::verif::patterns::{sca_conn, Balancer, Orchestrator};
use rzmq::FrameBatch;
use serde_json::{json, Value};
use shuttle::future::{block_on, spawn};
use std::sync::Arc;
use std::time::Duration;

// ---------------------------------------------------------------------------------------------
// E1: rotation
// ---------------------------------------------------------------------------------------------

#[derive(Clone, Copy, Debug, PartialEq, Eq, Hash)]
enum Op {
  Add(u8),
  Remove(u8),
  Next,
}

fn rotation_sub(depth: usize) -> Sub {
  let mut sub = Sub::new("rotation", "E1");
  sub.rule = "state = history of add/remove/next on the real LoadBalancer (3 peers); key = (peer list, position of the next pick, picks since each peer's last selection); non-trivial = a removal happened between two selections; oracle: between two selections of the same peer (itself present throughout) every other peer present throughout is selected exactly once (round-robin), next() returns None iff empty, never a removed peer".into();
  let alpha: Vec<Op> = vec![Op::Add(0), Op::Add(1), Op::Add(2), Op::Remove(0), Op::Remove(1), Op::Remove(2), Op::Next];
  sub.bounds = json!({"depth": depth, "peers": 3, "alphabet": format!("{:?}", alpha)});
  let alpha2 = alpha.clone();
  bfs(&mut sub, depth, 5_000_000, move |hist: &[Op]| {
    let lb = Balancer::new();
    let conns: Vec<_> = (0..3).map(|i| sca_conn(1, None, i)).collect();
    let name = |i: u8| format!("p{}", i);
    // reference: the set of present peers; for the fairness oracle, for each peer the list of peers
    // selected since it was last selected (cleared for peers that were absent at some point)
    let mut present: Vec<u8> = vec![];
    // (peer, membership epoch when selected)
    let mut picks: Vec<u8> = vec![];
    let mut continuous_since: [usize; 3] = [0; 3]; // index into picks since which the peer has been present
    let mut violations = vec![];
    let mut removed_between = false;
    for (step, op) in hist.iter().enumerate() {
      match *op {
        Op::Add(i) => {
          lb.add(&name(i), &conns[i as usize].conn);
          if !present.contains(&i) {
            present.push(i);
            continuous_since[i as usize] = picks.len();
          }
        }
        Op::Remove(i) => {
          lb.remove(&name(i));
          if present.contains(&i) {
            removed_between = true;
          }
          present.retain(|x| *x != i);
        }
        Op::Next => {
          let got = lb.next();
          let last = step + 1 == hist.len();
          match got {
            None => {
              if !present.is_empty() && last {
                violations.push(("next-none-with-peers".into(), "rotation".into(), format!("peers {:?} present but next() = None", present)));
              }
            }
            Some(uri) => {
              let id: u8 = uri[1..].parse().unwrap();
              if !present.contains(&id) {
                if last {
                  violations.push(("selected-absent-peer".into(), "rotation".into(), format!("selected {} but present = {:?}", uri, present)));
                }
              } else {
                // fairness: since `id` was last selected, every peer present throughout that span
                // must have been selected exactly once
                // (a peer that was removed and added again since its previous selection is a new
                // connection: its earlier turn says nothing about whose turn it is now)
                if let Some(prev) = picks.iter().rposition(|p| *p == id).filter(|prev| continuous_since[id as usize] <= *prev) {
                  let span = &picks[prev + 1..];
                  for &q in &present {
                    if q == id {
                      continue;
                    }
                    let throughout = continuous_since[q as usize] <= prev;
                    if throughout {
                      let cnt = span.iter().filter(|p| **p == q).count();
                      if cnt != 1 && last {
                        violations.push((
                          if cnt == 0 { "peer-starved".into() } else { "peer-selected-twice".into() },
                          "rotation".into(),
                          format!("between two selections of p{} peer p{} (present throughout) was selected {} times; picks so far {:?} then p{}", id, q, cnt, picks, id),
                        ));
                      }
                    }
                  }
                }
                picks.push(id);
              }
            }
          }
        }
      }
      if lb.count() != present.len() && step + 1 == hist.len() {
        violations.push(("count-wrong".into(), "rotation".into(), format!("count {} vs reference {}", lb.count(), present.len())));
      }
    }
    // canonical key: everything the future behaviour and the oracle depend on —
    //   present peers in insertion order, the real object's next two picks (probed on a replayed
    //   copy so the explored object is not disturbed), and per present peer the picks made since its
    //   own last selection together with which peers have been present throughout that span.
    let probe: Vec<Option<String>> = {
      let lb2 = Balancer::new();
      for op in hist {
        match *op {
          Op::Add(i) => lb2.add(&name(i), &conns[i as usize].conn),
          Op::Remove(i) => lb2.remove(&name(i)),
          Op::Next => {
            let _ = lb2.next();
          }
        }
      }
      vec![lb2.next(), lb2.next()]
    };
    let mut spans: Vec<(u8, Vec<u8>, Vec<bool>)> = vec![];
    for &p in &present {
      let (span, prev): (Vec<u8>, usize) = match picks.iter().rposition(|x| *x == p) {
        Some(prev) => (picks[prev + 1..].iter().rev().take(6).copied().collect(), prev),
        None => (vec![255], usize::MAX),
      };
      let thr: Vec<bool> = (0..3).map(|q| present.contains(&(q as u8)) && prev != usize::MAX && continuous_since[q] <= prev).collect();
      spans.push((p, span, thr));
    }
    let key = (present.clone(), probe, spans);
    Visit { key, enabled: alpha2.clone(), nontrivial: removed_between && !picks.is_empty(), outcome: mc_core::digest(&picks), violations }
  });
  sub
}

// ---------------------------------------------------------------------------------------------
// E2: routing against real pipes
// ---------------------------------------------------------------------------------------------

fn one(tag: u8) -> FrameBatch {
  batch_of(&[(vec![tag], false, false)])
}

/// wait_for_connection racing add_connection: the waiter must proceed once a peer is added.
fn h_wait_add() -> impl Fn() + Send + Sync + 'static {
  || {
    let o = Arc::new(Orchestrator::new());
    let ends = sca_conn(1, None, 1);
    let conn = ends.conn.clone();
    let o2 = o.clone();
    let waiter = spawn(async move {
      e2::at("waiter:route_message(wait_for_peer)");
      o2.route_message(one(1), true).await.map_err(|e| e.1.to_string())
    });
    let o3 = o.clone();
    let adder = spawn(async move {
      o3.add("p1", &conn);
    });
    block_on(adder).unwrap();
    let r = block_on(waiter).unwrap();
    e2::check(r.is_ok(), "send-failed-after-peer-added", "wait", || format!("{:?}", r));
    let got = ends.pipe_rx.try_recv();
    e2::check(got.is_ok(), "message-not-delivered", "wait", || "pipe empty after route_message returned Ok".into());
    e2::nontrivial();
    e2::outcome(1);
  }
}

/// Several senders are parked waiting for a first peer; one peer is added: every one of them must
/// proceed (the peer has room for all their messages).
fn h_multi_wait_add(waiters: usize) -> impl Fn() + Send + Sync + 'static {
  move || {
    let o = Arc::new(Orchestrator::new());
    let ends = sca_conn(8, None, 1);
    let mut hs = vec![];
    for w in 0..waiters {
      let o2 = o.clone();
      hs.push(spawn(async move {
        e2::at(&format!("waiter{}:route_message(wait_for_peer)", w));
        o2.route_message(one(w as u8), true).await.is_ok()
      }));
    }
    let (o3, conn) = (o.clone(), ends.conn.clone());
    let adder = spawn(async move {
      o3.add("p1", &conn);
    });
    block_on(adder).unwrap();
    for h in hs {
      let ok = block_on(h).unwrap();
      e2::check(ok, "send-failed-after-peer-added", "multi-wait", || "a waiting sender failed".into());
    }
    let mut got = vec![];
    while let Ok(m) = ends.pipe_rx.try_recv() {
      got.push(m[0].data().unwrap()[0]);
    }
    got.sort_unstable();
    e2::check(got == (0..waiters as u8).collect::<Vec<_>>(), "message-not-delivered", "multi-wait", || format!("pipe holds {:?}", got));
    e2::nontrivial();
    e2::outcome(mc_core::digest(&got));
  }
}

/// wait_for_connection racing deactivate: the waiter must return an error (not hang).
fn h_wait_deactivate() -> impl Fn() + Send + Sync + 'static {
  || {
    let o = Arc::new(Orchestrator::new());
    let o2 = o.clone();
    let waiter = spawn(async move {
      e2::at("waiter:route_message(wait_for_peer)");
      o2.route_message(one(1), true).await.is_ok()
    });
    let o3 = o.clone();
    let closer = spawn(async move {
      o3.deactivate();
    });
    block_on(closer).unwrap();
    let ok = block_on(waiter).unwrap();
    e2::check(!ok, "send-succeeded-without-peer", "deactivate", || "route_message returned Ok with no peer".into());
    e2::nontrivial();
    e2::outcome(2);
  }
}

/// Two peers with capacity 1; one is full and never drains, the other drains: every message must
/// reach exactly one peer and a full peer must be skipped while the other has room.
fn h_skip_full(n: usize) -> impl Fn() + Send + Sync + 'static {
  move || {
    let o = Arc::new(Orchestrator::new());
    let a = sca_conn(1, None, 1);
    let b = sca_conn(1, None, 2);
    o.add("a", &a.conn);
    o.add("b", &b.conn);
    // fill peer a
    a.conn.try_send_multipart_owned_sync(one(100)).ok().expect("fill a");
    let o2 = o.clone();
    let sender = spawn(async move {
      for i in 0..n {
        e2::at(&format!("sender:route_message#{}", i));
        o2.route_message(one(i as u8), true).await.map_err(|e| e.1.to_string()).expect("route");
      }
    });
    let brx = b.pipe_rx;
    let drainer = spawn(async move {
      let mut got = vec![];
      for k in 0..n {
        e2::at(&format!("drainer-b:recv#{}", k));
        let m = brx.recv().await.expect("pipe b open");
        got.push(m[0].data().unwrap()[0]);
      }
      got
    });
    let got = block_on(drainer).unwrap();
    block_on(sender).unwrap();
    e2::check(got == (0..n as u8).collect::<Vec<_>>(), "wrong-delivery", "skip-full", || format!("peer b received {:?}", got));
    e2::check(a.pipe_rx.len() == 1, "duplicate-or-lost", "skip-full", || format!("peer a holds {} messages", a.pipe_rx.len()));
    e2::nontrivial();
    e2::outcome(mc_core::digest(&got));
  }
}

/// All peers full, then only ONE of them drains: the blocked sender must complete through the
/// peer that has room (it must not stay parked on the peer that never drains).
fn h_all_full_one_drains(drain_a: bool) -> impl Fn() + Send + Sync + 'static {
  move || {
    let o = Arc::new(Orchestrator::new());
    let a = sca_conn(1, None, 1);
    let b = sca_conn(1, None, 2);
    o.add("a", &a.conn);
    o.add("b", &b.conn);
    a.conn.try_send_multipart_owned_sync(one(100)).ok().expect("fill a");
    b.conn.try_send_multipart_owned_sync(one(101)).ok().expect("fill b");
    let o2 = o.clone();
    let sender = spawn(async move {
      e2::at("sender:route_message(all-full)");
      o2.route_message(one(7), true).await.is_ok()
    });
    let (drx, other) = if drain_a { (a.pipe_rx, b.pipe_rx) } else { (b.pipe_rx, a.pipe_rx) };
    let drainer = spawn(async move {
      // take the filler; then the routed message must show up here
      e2::at("drainer:recv-filler");
      let first = drx.recv().await.expect("open")[0].data().unwrap()[0];
      e2::at("drainer:recv-routed");
      let second = drx.recv().await.expect("open")[0].data().unwrap()[0];
      (first, second)
    });
    let (f, s) = block_on(drainer).unwrap();
    let ok = block_on(sender).unwrap();
    e2::check(ok && s == 7 && f >= 100, "message-not-routed-to-ready-peer", "all-full", || format!("drained ({}, {}), send ok {}", f, s, ok));
    e2::check(other.len() == 1, "duplicate-or-lost", "all-full", || format!("other peer holds {}", other.len()));
    e2::nontrivial();
    e2::outcome(3);
  }
}

/// A peer is removed / added while a sender is routing: no message twice, none lost.
fn h_churn() -> impl Fn() + Send + Sync + 'static {
  || {
    let o = Arc::new(Orchestrator::new());
    let a = sca_conn(4, None, 1);
    let b = sca_conn(4, None, 2);
    o.add("a", &a.conn);
    let o2 = o.clone();
    let sender = spawn(async move {
      let mut ok = 0;
      for i in 0..3u8 {
        if o2.route_message(one(i), true).await.is_ok() {
          ok += 1;
        }
      }
      ok
    });
    let (o3, bc) = (o.clone(), b.conn.clone());
    let churn = spawn(async move {
      o3.add("b", &bc);
      o3.remove("a");
    });
    block_on(churn).unwrap();
    let ok = block_on(sender).unwrap();
    let mut all = vec![];
    while let Ok(m) = a.pipe_rx.try_recv() {
      all.push(m[0].data().unwrap()[0]);
    }
    while let Ok(m) = b.pipe_rx.try_recv() {
      all.push(m[0].data().unwrap()[0]);
    }
    all.sort_unstable();
    let before = all.len();
    all.dedup();
    e2::check(all.len() == before, "message-sent-twice", "churn", || format!("{:?}", all));
    e2::check(all.len() == ok, "accepted-message-lost", "churn", || format!("{} accepted, {} in pipes", ok, all.len()));
    e2::nontrivial();
    e2::outcome(mc_core::digest(&all));
  }
}

pub fn harnesses(tier: Tier) -> Vec<Harness> {
  let cfg = E2Cfg { max_preemptions: tier.pick(2, 3), max_schedules: 2_000_000, max_steps: 3_000, time_cap: tier.pick(Duration::from_secs(30), Duration::from_secs(600)) };
  vec![
    Harness::new("wait-vs-add", cfg.clone(), h_wait_add()),
    Harness::new("wait-vs-deactivate", cfg.clone(), h_wait_deactivate()),
    Harness::new("2waiters-vs-add", cfg.clone(), h_multi_wait_add(2)),
    Harness::new("3waiters-vs-add", E2Cfg { max_preemptions: cfg.max_preemptions.saturating_sub(1).max(1), ..cfg.clone() }, h_multi_wait_add(3)),
    Harness::new("skip-full-2msgs", cfg.clone(), h_skip_full(2)),
    Harness::new("skip-full-3msgs", cfg.clone(), h_skip_full(3)),
    Harness::new("all-full-a-drains", cfg.clone(), h_all_full_one_drains(true)),
    Harness::new("all-full-b-drains", cfg.clone(), h_all_full_one_drains(false)),
    Harness::new("churn", cfg.clone(), h_churn()),
  ]
}

pub fn run(tier: Tier) -> Report {
  let mut rep = Report::new("C13", tier, "model_checking");
  rep.assume("E2 harnesses drive the real OutgoingMessageOrchestrator/LoadBalancer with real ScaConnectionIface objects over real bounded fibre pipes; the PUSH/DEALER socket wrappers around them are covered by the E3 stack scenarios");
  rep.assume("SNDTIMEO = -1 (block) in the routing harnesses; timed variants are C14's");
  rep.add(rotation_sub(tier.pick(7, 10)));
  let mut sub = Sub::new("routing", "E2");
  sub.rule = "evaluation = one complete schedule; oracle = each message in exactly one pipe, a full peer skipped while another has room, a sender blocked on all-full completes through whichever peer drains, a sender waiting for a first peer proceeds once one is added (deadlock = lost wake-up)".into();
  let hs = harnesses(tier);
  sub.bounds = json!({"preemption_bound": tier.pick(2, 3), "harnesses": hs.iter().map(|h| h.name.clone()).collect::<Vec<_>>()});
  e2::explore_all(&mut sub, hs);
  rep.add(sub);
  rep
}

pub fn replay(_sub: &str, w: &Value) -> Result<String, String> {
  let name = w["harness"].as_str().ok_or("no harness in witness")?;
  let choices: Vec<usize> = w["choices"].as_array().ok_or("no choices")?.iter().map(|x| x.as_u64().unwrap_or(0) as usize).collect();
  let h = harnesses(Tier::Thorough).into_iter().find(|h| h.name == name).ok_or("unknown harness")?;
  let rt = tokio::runtime::Builder::new_current_thread().enable_time().start_paused(true).build().unwrap();
  let _g = rt.enter();
  let (fail, trace, div) = e2::replay(h.body.clone(), &choices, 3000);
  if let Some(d) = div {
    return Err(format!("replay diverged: {}", d));
  }
  match fail {
    Some((clause, class, detail)) => Err(format!("{}/{}: {} (schedule {:?})", clause, class, detail, trace)),
    None => Ok("schedule completes without violation".into()),
  }
}
