//! Driving the real sans-IO `ZmtpEngine`: the harness *is* the transport.
#![allow(dead_code)]

use crate::common::*;
use bytes::Bytes;
use rzmq::protocol::zmtp::actions::{AppAction, EngineOutput, NetAction};
use rzmq::protocol::zmtp::engine::{ZmtpEngine, ZmtpPhase};
use rzmq::verif::engine::{config, new_engine, EngineConfig, EngineSpec, Mech};
use x25519_dalek::{PublicKey, StaticSecret};

pub fn keypair(seed: u8) -> ([u8; 32], [u8; 32]) {
  let mut sk = [seed; 32];
  sk[0] = seed.wrapping_mul(7).wrapping_add(3);
  let s = StaticSecret::from(sk);
  let p = PublicKey::from(&s);
  (s.to_bytes(), p.to_bytes())
}

#[derive(Clone, Copy, Debug, PartialEq, Eq, Hash)]
pub enum MechKind {
  Null,
  Plain,
  Curve,
  Noise,
}

pub const ALL_MECHS: [MechKind; 4] = [MechKind::Null, MechKind::Plain, MechKind::Curve, MechKind::Noise];

/// Credentials/keys variant for a (client, server) pair.
#[derive(Clone, Copy, Debug, PartialEq, Eq, Hash)]
pub enum Creds {
  /// matching username/password; client knows the server's real public key
  Good,
  /// wrong password / client pins a different server key
  Bad,
  /// no credentials / no pinned key configured
  Absent,
}

/// Mechanism configuration for one side. `is_server` = listener role.
pub fn mech_for(kind: MechKind, is_server: bool, creds: Creds) -> Mech {
  let (ssk, spk) = keypair(11);
  let (csk, _cpk) = keypair(22);
  let (_osk, opk) = keypair(33);
  match kind {
    MechKind::Null => Mech::Null,
    MechKind::Plain => {
      if is_server {
        Mech::Plain { username: Some("user".into()), password: Some("secret".into()) }
      } else {
        match creds {
          Creds::Good => Mech::Plain { username: Some("user".into()), password: Some("secret".into()) },
          Creds::Bad => Mech::Plain { username: Some("user".into()), password: Some("wrong".into()) },
          Creds::Absent => Mech::Plain { username: None, password: None },
        }
      }
    }
    MechKind::Curve => {
      if is_server {
        Mech::Curve { secret_key: ssk, server_public_key: None }
      } else {
        match creds {
          Creds::Good => Mech::Curve { secret_key: csk, server_public_key: Some(spk) },
          Creds::Bad => Mech::Curve { secret_key: csk, server_public_key: Some(opk) },
          Creds::Absent => Mech::Curve { secret_key: csk, server_public_key: None },
        }
      }
    }
    MechKind::Noise => {
      if is_server {
        Mech::Noise { secret_key: ssk, remote_public_key: None }
      } else {
        match creds {
          Creds::Good => Mech::Noise { secret_key: csk, remote_public_key: Some(spk) },
          Creds::Bad => Mech::Noise { secret_key: csk, remote_public_key: Some(opk) },
          Creds::Absent => Mech::Noise { secret_key: csk, remote_public_key: None },
        }
      }
    }
  }
}

pub fn spec(socket_type: &str, mech: Mech) -> EngineSpec {
  EngineSpec { socket_type: socket_type.into(), mechanism: mech, ..Default::default() }
}

#[derive(Clone, Debug, PartialEq, Eq)]
pub enum Ev {
  Complete { identity: Option<Vec<u8>>, socket_type: Option<String> },
  Deliver(Vec<FrameSpec>),
  Error(String),
}

pub struct Side {
  pub eng: ZmtpEngine,
  /// everything this engine asked to send, in order
  pub sent: Vec<u8>,
  pub events: Vec<Ev>,
  pub close_requested: bool,
  pub cork: Vec<bool>,
}

impl Side {
  pub fn new(is_server: bool, cfg: &EngineConfig) -> Side {
    let mut s = Side { eng: new_engine(is_server, cfg), sent: vec![], events: vec![], close_requested: false, cork: vec![] };
    let out = s.eng.start();
    s.absorb(out);
    s
  }
  pub fn from_spec(is_server: bool, sp: &EngineSpec) -> Side {
    Side::new(is_server, &config(sp))
  }

  pub fn absorb(&mut self, out: EngineOutput) {
    for a in out.net_actions {
      match a {
        NetAction::Send { data, .. } => self.sent.extend_from_slice(&data),
        NetAction::SetCork(b) => self.cork.push(b),
        NetAction::ScheduleClose(_) => self.close_requested = true,
      }
    }
    for a in out.app_actions {
      match a {
        AppAction::HandshakeComplete { peer_identity, peer_socket_type } => {
          self.events.push(Ev::Complete { identity: peer_identity.map(|b| b.as_ref().to_vec()), socket_type: peer_socket_type })
        }
        AppAction::DeliverMessage(b) => self.events.push(Ev::Deliver(b.iter().map(spec_of).collect())),
        AppAction::PeerError(e) => self.events.push(Ev::Error(e.to_string())),
      }
    }
  }

  pub fn feed(&mut self, bytes: &[u8]) {
    let out = self.eng.on_network_bytes(Bytes::copy_from_slice(bytes));
    self.absorb(out);
  }

  pub fn phase(&self) -> ZmtpPhase {
    self.eng.phase
  }
  pub fn completed(&self) -> Option<&Ev> {
    self.events.iter().find(|e| matches!(e, Ev::Complete { .. }))
  }
  pub fn errored(&self) -> bool {
    self.events.iter().any(|e| matches!(e, Ev::Error(_)))
  }
  pub fn delivered(&self) -> Vec<Vec<FrameSpec>> {
    self.events.iter().filter_map(|e| if let Ev::Deliver(d) = e { Some(d.clone()) } else { None }).collect()
  }
  pub fn first_error(&self) -> Option<String> {
    self.events.iter().find_map(|e| if let Ev::Error(s) = e { Some(s.clone()) } else { None })
  }
}

/// Two engines and the bytes in flight between them.
pub struct Pair {
  pub c: Side,
  pub s: Side,
  /// bytes of c.sent already delivered to s, and vice versa
  pub c2s: usize,
  pub s2c: usize,
}

impl Pair {
  pub fn new(client: &EngineSpec, server: &EngineSpec) -> Pair {
    Pair { c: Side::from_spec(false, client), s: Side::from_spec(true, server), c2s: 0, s2c: 0 }
  }
  pub fn in_flight_c2s(&self) -> usize {
    self.c.sent.len() - self.c2s
  }
  pub fn in_flight_s2c(&self) -> usize {
    self.s.sent.len() - self.s2c
  }
  pub fn deliver_c2s(&mut self, n: usize) {
    let n = n.min(self.in_flight_c2s());
    let chunk = self.c.sent[self.c2s..self.c2s + n].to_vec();
    self.c2s += n;
    self.s.feed(&chunk);
  }
  pub fn deliver_s2c(&mut self, n: usize) {
    let n = n.min(self.in_flight_s2c());
    let chunk = self.s.sent[self.s2c..self.s2c + n].to_vec();
    self.s2c += n;
    self.c.feed(&chunk);
  }
  /// Deliver everything in both directions until nothing is in flight.
  pub fn run_to_quiescence(&mut self) {
    for _ in 0..10_000 {
      if self.in_flight_c2s() == 0 && self.in_flight_s2c() == 0 {
        return;
      }
      let n = self.in_flight_c2s();
      self.deliver_c2s(n);
      let n = self.in_flight_s2c();
      self.deliver_s2c(n);
    }
    panic!("engine pair does not quiesce");
  }
  pub fn both_data(&self) -> bool {
    self.c.phase() == ZmtpPhase::Data && self.s.phase() == ZmtpPhase::Data
  }
}
