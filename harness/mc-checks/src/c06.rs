//! C06 — a configured security mechanism cannot be bypassed or downgraded.
//!
//! E1: an attacker grammar (greeting variants, then every token sequence up to depth k) is
//! enumerated exhaustively against the real engine configured with PLAIN / CURVE / NOISE_XX, in both
//! roles, delivered all-at-once and token-by-token. The attacker knows no credentials or secret keys.

use crate::common::*;
use crate::engines::*;
use mc_core::par::{self, Case};
use mc_core::{Report, Sub, Tier};
use serde_json::{json, Value};

#[derive(Clone, Debug)]
pub struct Greeting {
  pub rev: u8,
  pub mech: &'static str,
  pub as_server: bool,
}

impl Greeting {
  pub fn bytes(&self, v2_type: u8) -> Vec<u8> {
    let mut b = vec![0xFF, 0, 0, 0, 0, 0, 0, 0, 0, 0x7F, self.rev];
    if self.rev >= 3 {
      b.push(0x00); // minor
      let mut m = [0u8; 20];
      m[..self.mech.len()].copy_from_slice(self.mech.as_bytes());
      b.extend_from_slice(&m);
      b.push(self.as_server as u8);
      b.extend_from_slice(&[0u8; 31]);
    } else {
      // ZMTP/2.0 (and unsupported older revisions use the same 12-byte shape): socket-type byte
      b.push(v2_type);
    }
    b
  }
}

#[derive(Clone, Debug)]
pub struct Tok {
  pub name: &'static str,
  pub bytes: Vec<u8>,
}

fn frame(flags: u8, body: &[u8]) -> Vec<u8> {
  let mut out = vec![];
  if body.len() <= 255 {
    out.push(flags);
    out.push(body.len() as u8);
  } else {
    out.push(flags | 0x02);
    out.extend_from_slice(&(body.len() as u64).to_be_bytes());
  }
  out.extend_from_slice(body);
  out
}

fn ready_body(socket_type: &str) -> Vec<u8> {
  let mut b = b"\x05READY".to_vec();
  b.push(11);
  b.extend_from_slice(b"Socket-Type");
  b.extend_from_slice(&(socket_type.len() as u32).to_be_bytes());
  b.extend_from_slice(socket_type.as_bytes());
  b
}

fn plain_hello(user: &[u8], pass: &[u8]) -> Vec<u8> {
  let mut b = b"\x05HELLO".to_vec();
  b.push(user.len() as u8);
  b.extend_from_slice(user);
  b.push(pass.len() as u8);
  b.extend_from_slice(pass);
  b
}

fn curve_hello() -> Vec<u8> {
  // well-formed: metadata Public-Key-Client = attacker's own ephemeral key, padded to 198 bytes
  let (_sk, pk) = keypair(99);
  let mut b = b"\x05HELLO".to_vec();
  b.push(17);
  b.extend_from_slice(b"Public-Key-Client");
  b.extend_from_slice(&32u32.to_be_bytes());
  b.extend_from_slice(&pk);
  b.resize(198, 0);
  b
}

pub fn tokens(peer_type: &str, tier: Tier) -> Vec<Tok> {
  let cmd = 0x04u8;
  let mut t = vec![
    Tok { name: "READY", bytes: frame(cmd, &ready_body(peer_type)) },
    Tok { name: "HELLO(plain,no-creds)", bytes: frame(cmd, &plain_hello(b"", b"")) },
    Tok { name: "HELLO(plain,wrong-user)", bytes: frame(cmd, &plain_hello(b"mallory", b"guess")) },
    Tok { name: "HELLO(plain,right-user,wrong-pass)", bytes: frame(cmd, &plain_hello(b"user", b"wrong")) },
    Tok { name: "HELLO(plain,right-user,no-pass)", bytes: frame(cmd, &plain_hello(b"user", b"")) },
    Tok { name: "HELLO(plain,no-user,right-pass)", bytes: frame(cmd, &plain_hello(b"", b"secret")) },
    Tok { name: "HELLO(curve,own-key)", bytes: frame(cmd, &curve_hello()) },
    Tok { name: "WELCOME", bytes: frame(cmd, b"\x07WELCOME") },
    Tok { name: "WELCOME(curve-shaped)", bytes: frame(cmd, &{ let mut b = b"\x07WELCOME".to_vec(); b.push(6); b.extend_from_slice(b"Cookie"); b.extend_from_slice(&48u32.to_be_bytes()); b.extend_from_slice(&[0x41; 48]); b.resize(136, 0); b }) },
    Tok { name: "INITIATE(garbage)", bytes: frame(cmd, &{ let mut b = b"\x08INITIATE".to_vec(); b.push(10); b.extend_from_slice(b"Ciphertext"); b.extend_from_slice(&64u32.to_be_bytes()); b.extend_from_slice(&[0x42; 64]); b.resize(137, 0); b }) },
    Tok { name: "NOISE-msg(garbage48)", bytes: frame(cmd, &[0x43; 48]) },
    Tok { name: "NOISE-msg(garbage32)", bytes: frame(cmd, &[0x44; 32]) },
    Tok { name: "ERROR", bytes: frame(cmd, b"\x05ERROR\x04nope") },
    Tok { name: "UNKNOWN-CMD", bytes: frame(cmd, b"\x03FOO") },
    Tok { name: "PING", bytes: frame(cmd, b"\x04PING\x00\x00") },
    Tok { name: "DATA", bytes: frame(0, b"attacker-data") },
    Tok { name: "DATA(empty)/v2-identity", bytes: frame(0, b"") },
    Tok { name: "DATA(more)", bytes: frame(1, b"part") },
    Tok { name: "v2-identity(id)", bytes: frame(0, b"evil") },
  ];
  if tier == Tier::Thorough || true {
    // the same handshake tokens without the COMMAND flag
    t.push(Tok { name: "READY(no-command-flag)", bytes: frame(0, &ready_body(peer_type)) });
    t.push(Tok { name: "HELLO(plain,no-creds,no-command-flag)", bytes: frame(0, &plain_hello(b"", b"")) });
    t.push(Tok { name: "WELCOME(no-command-flag)", bytes: frame(0, b"\x07WELCOME") });
  }
  t
}

#[derive(Clone, Debug)]
struct Local {
  mech: MechKind,
  is_server: bool,
  allow_zmtp2: bool,
  socket_type: &'static str,
  /// PLAIN listener only: which of the expected credentials are configured at all (a listener with
  /// an unconfigured credential has no valid credentials and must refuse everybody)
  plain_server_has: (bool, bool),
}

fn peer_type_for(local: &str) -> &'static str {
  match local {
    "PULL" => "PUSH",
    "ROUTER" => "DEALER",
    "SUB" => "PUB",
    "REP" => "REQ",
    _ => "DEALER",
  }
}

fn v2_code(name: &str) -> u8 {
  rzmq::protocol::zmtp::greeting::socket_type_code(name).unwrap_or(5)
}

/// Is this attacker stream a genuine completion of the configured mechanism (expressible in the
/// grammar)? Only PLAIN-client qualifies: PLAIN does not authenticate the server.
fn legit(local: &Local, g: &Greeting, toks: &[&Tok]) -> bool {
  local.mech == MechKind::Plain
    && !local.is_server
    && g.rev == 3
    && g.mech == "PLAIN"
    && toks.len() >= 2
    && toks[0].name.starts_with("WELCOME")
    && toks[1].name == "READY"
}

fn run_one(local: &Local, g: &Greeting, toks: &[&Tok], token_by_token: bool) -> (Side, u64) {
  let mut sp = spec(local.socket_type, mech_for(local.mech, local.is_server, Creds::Good));
  if local.mech == MechKind::Plain && local.is_server && local.plain_server_has != (true, true) {
    sp.mechanism = rzmq::verif::engine::Mech::Plain { username: if local.plain_server_has.0 { Some("user".into()) } else { None }, password: if local.plain_server_has.1 { Some("secret".into()) } else { None } };
  }
  sp.allow_zmtp2 = local.allow_zmtp2;
  let mut s = Side::from_spec(local.is_server, &sp);
  let gb = g.bytes(v2_code(peer_type_for(local.socket_type)));
  let mut steps = 0;
  if token_by_token {
    s.feed(&gb);
    steps += 1;
    for t in toks {
      s.feed(&t.bytes);
      steps += 1;
    }
  } else {
    let mut all = gb;
    for t in toks {
      all.extend_from_slice(&t.bytes);
    }
    s.feed(&all);
    steps += 1;
  }
  (s, steps)
}

fn locals() -> Vec<Local> {
  let mut v = vec![];
  for mech in [MechKind::Plain, MechKind::Curve, MechKind::Noise] {
    for is_server in [true, false] {
      for allow_zmtp2 in [true, false] {
        for socket_type in ["PULL", "ROUTER"] {
          v.push(Local { mech, is_server, allow_zmtp2, socket_type, plain_server_has: (true, true) });
          if mech == MechKind::Plain && is_server && allow_zmtp2 && socket_type == "PULL" {
            for has in [(true, false), (false, true), (false, false)] {
              v.push(Local { mech, is_server, allow_zmtp2, socket_type, plain_server_has: has });
            }
          }
        }
      }
    }
  }
  v
}

fn greetings() -> Vec<Greeting> {
  let mut v = vec![];
  for rev in [3u8, 1, 2, 0, 4] {
    if rev >= 3 {
      for mech in ["NULL", "PLAIN", "CURVE", "NOISE_XX", "BOGUS"] {
        for as_server in [false, true] {
          v.push(Greeting { rev, mech, as_server });
        }
      }
    } else {
      v.push(Greeting { rev, mech: "", as_server: false });
    }
  }
  v
}

fn seq_from_index(mut idx: usize, ntok: usize, depth: usize) -> Vec<usize> {
  // sequences of length 0..=depth, shortest first
  let mut len = 0;
  let mut count = 1usize;
  while idx >= count {
    idx -= count;
    len += 1;
    count *= ntok;
    if len > depth {
      unreachable!()
    }
  }
  let mut out = vec![0; len];
  for i in (0..len).rev() {
    out[i] = idx % ntok;
    idx /= ntok;
  }
  out
}

fn count_seqs(ntok: usize, depth: usize) -> usize {
  (0..=depth).map(|d| ntok.pow(d as u32)).sum()
}

fn grammar_sub(tier: Tier, depth: usize) -> Sub {
  let mut sub = Sub::new("attacker-grammar", "E1");
  let ls = locals();
  let gs = greetings();
  let ntok = tokens("PUSH", tier).len();
  let nseq = count_seqs(ntok, depth);
  sub.rule = "case = (local configuration, attacker greeting, token sequence up to depth k, delivery mode) run against one real engine; non-trivial = the engine got past the greeting or failed on a token (not on the greeting); outcome = (phase, completed, delivered count, error kind)".into();
  sub.bounds = json!({"depth": depth, "tokens": tokens("PUSH", tier).iter().map(|t| t.name).collect::<Vec<_>>(), "greetings": gs.len(), "local_configurations": ls.len(), "delivery": ["all-at-once", "token-by-token"], "token_sequences": nseq});
  let total = ls.len() * gs.len() * nseq * 2;
  par::enumerate(&mut sub, total, |i| {
    let mode = i % 2;
    let i2 = i / 2;
    let si = i2 % nseq;
    let i3 = i2 / nseq;
    let g = &gs[i3 % gs.len()];
    let local = &ls[i3 / gs.len()];
    let alphabet = tokens(peer_type_for(local.socket_type), tier);
    let seq = seq_from_index(si, ntok, depth);
    let toks: Vec<&Tok> = seq.iter().map(|&k| &alphabet[k]).collect();
    let mut c = Case::default();
    let wit = || json!({"local": format!("{:?}", local), "greeting": format!("{:?}", g), "tokens": toks.iter().map(|t| t.name).collect::<Vec<_>>(), "delivery": if mode == 1 { "token-by-token" } else { "all-at-once" }});
    match mc_core::catch(|| run_one(local, g, &toks, mode == 1)) {
      Ok((s, steps)) => {
        c.steps = steps;
        let completed = s.completed().is_some();
        let delivered = s.delivered().len();
        let err = s.first_error();
        c.nontrivial = completed || delivered > 0 || s.sent.len() > 75 || (err.is_some() && !toks.is_empty());
        c.outcome = mc_core::digest(&(format!("{:?}", s.phase()), completed, delivered, err.as_ref().map(|e| e.split(':').next().unwrap_or("").to_string())));
        c.state = mc_core::digest(&(format!("{:?}", s.phase()), completed, delivered, s.sent.len()));
        let ok_legit = legit(local, g, &toks);
        let class = format!("{:?}-{}-rev{}-{}", local.mech, if local.is_server { "listener" } else { "connector" }, g.rev, if g.rev >= 3 { g.mech } else { "v2" });
        if completed && !ok_legit {
          c.violations.push(("handshake-complete-without-mechanism".into(), class.clone(), format!("engine reported HandshakeComplete to an unauthenticated peer (allow_zmtp2={})", local.allow_zmtp2), wit()));
        }
        if delivered > 0 && !ok_legit {
          c.violations.push(("message-delivered-without-mechanism".into(), class, format!("{} application message(s) delivered from an unauthenticated peer (allow_zmtp2={})", delivered, local.allow_zmtp2), wit()));
        }
        if i % 100_003 == 0 {
          c.sample = Some(json!({"case": wit(), "phase": format!("{:?}", s.phase()), "error": err}));
        }
      }
      Err(msg) => {
        let loc = mc_core::loc_of(&msg);
        c.violations.push(("panic".into(), loc, msg, wit()));
      }
    }
    c
  });
  sub
}

/// Positive control: with the right credentials / keys the same engines do complete, so the
/// "never completes" verdicts above are not vacuous.
fn positive_sub() -> Sub {
  let mut sub = Sub::new("positive-control", "E1");
  sub.rule = "the honest peer with valid credentials completes and its data is delivered (so silence in attacker-grammar is not vacuous)".into();
  for mech in [MechKind::Plain, MechKind::Curve, MechKind::Noise] {
    let c = spec("PUSH", mech_for(mech, false, Creds::Good));
    let s = spec("PULL", mech_for(mech, true, Creds::Good));
    let mut p = Pair::new(&c, &s);
    p.run_to_quiescence();
    sub.evaluations += 1;
    sub.transitions += 1;
    sub.states += 1;
    if p.both_data() {
      sub.nontrivial += 1;
      let out = p.c.eng.on_app_message(batch_of(&[(b"hello".to_vec(), false, false)]));
      p.c.absorb(out);
      p.run_to_quiescence();
      if p.s.delivered() != vec![vec![(b"hello".to_vec(), false, false)]] {
        sub.violate("honest-peer-not-delivered", &format!("{:?}", mech), format!("delivered {:?}", p.s.delivered()), json!({"mech": format!("{:?}", mech)}));
      }
    } else {
      sub.violate("honest-peer-rejected", &format!("{:?}", mech), format!("client {:?} server {:?}", p.c.first_error(), p.s.first_error()), json!({"mech": format!("{:?}", mech)}));
    }
    sub.sample(json!({"mech": format!("{:?}", mech), "both_data": p.both_data()}));
  }
  sub.distinct_outcomes = 1;
  sub
}

pub fn run(tier: Tier) -> Report {
  let mut rep = Report::new("C06", tier, "model_checking");
  rep.assume("the attacker knows no password and no secret key: tokens are drawn from the stated grammar; CURVE/NOISE listeners accept any well-formed client key pair by design (no allow-list), which is outside this property");
  rep.assume("PLAIN does not authenticate the server: a peer playing the PLAIN server role towards a PLAIN connector (greeting PLAIN, WELCOME, READY) has completed the mechanism");
  rep.add(positive_sub());
  rep.add(grammar_sub(tier, tier.pick(2, 4)));
  rep
}

pub fn replay(_sub: &str, w: &Value) -> Result<String, String> {
  // witness: local/greeting debug strings + token names; re-run by name lookup
  let ls = locals();
  let gs = greetings();
  let local = ls.iter().find(|l| format!("{:?}", l) == w["local"].as_str().unwrap_or("")).ok_or("unknown local config")?;
  let g = gs.iter().find(|g| format!("{:?}", g) == w["greeting"].as_str().unwrap_or("")).ok_or("unknown greeting")?;
  let alphabet = tokens(peer_type_for(local.socket_type), Tier::Thorough);
  let mut toks = vec![];
  for n in w["tokens"].as_array().ok_or("bad tokens")? {
    toks.push(alphabet.iter().find(|t| t.name == n.as_str().unwrap_or("")).ok_or("unknown token")?);
  }
  let (s, _) = run_one(local, g, &toks, w["delivery"] == "token-by-token");
  if (s.completed().is_some() || !s.delivered().is_empty()) && !legit(local, g, &toks) {
    Err(format!("completed={} delivered={} phase={:?}", s.completed().is_some(), s.delivered().len(), s.phase()))
  } else {
    Ok(format!("phase {:?}, error {:?}", s.phase(), s.first_error()))
  }
}
