//! C16 — close()/term() always finish and leave nothing running or hanging.
//!
//! E2 part: the real `WaitGroup` (what `Context::term()` waits on) under every schedule with a
//! bounded number of preemptions. The stack-level scripts (close/term injected after every prefix
//! of API-call histories) live in the E3 part.

use mc_core::e2::{self, E2Cfg, Harness};
use mc_core::{Report, Sub, Tier};
use rzmq::verif::runtime::WaitGroupH;
use serde_json::{json, Value};
use shuttle::future::{block_on, spawn};
use std::time::Duration;

/// `actors` tasks each call done() once; `waiters` tasks wait(); count starts at `actors`.
fn h_done_vs_wait(actors: usize, waiters: usize) -> impl Fn() + Send + Sync + 'static {
  move || {
    let wg = WaitGroupH::new();
    wg.add(actors);
    let mut hs = vec![];
    for _ in 0..waiters {
      let w = wg.clone();
      hs.push(spawn(async move {
        w.wait().await;
        w.count()
      }));
    }
    let mut ds = vec![];
    for _ in 0..actors {
      let w = wg.clone();
      ds.push(spawn(async move {
        w.done();
      }));
    }
    for d in ds {
      block_on(d).unwrap();
    }
    for h in hs {
      // a waiter that never returns shows up as a deadlock (all tasks blocked)
      let _ = block_on(h).unwrap();
    }
    e2::check(wg.count() == 0, "count-nonzero-after-wait", "wg", || format!("count {}", wg.count()));
    e2::nontrivial();
    e2::outcome(1);
  }
}

/// An actor is registered (add) while the waiter is already waiting: wait must not return before
/// the late actor is done as well — unless the count really touched zero in between.
fn h_add_while_waiting() -> impl Fn() + Send + Sync + 'static {
  || {
    let wg = WaitGroupH::new();
    wg.add(1);
    let w = wg.clone();
    let waiter = spawn(async move {
      w.wait().await;
    });
    let w2 = wg.clone();
    let actor = spawn(async move {
      w2.add(1); // spawns a child actor before finishing (count never reaches zero in between)
      w2.done();
      w2.done();
    });
    block_on(actor).unwrap();
    block_on(waiter).unwrap();
    e2::check(wg.count() == 0, "count-nonzero-after-wait", "wg-add", || format!("count {}", wg.count()));
    e2::nontrivial();
    e2::outcome(2);
  }
}

pub fn harnesses(tier: Tier) -> Vec<Harness> {
  let cfg = E2Cfg { max_preemptions: tier.pick(3, 4), max_schedules: 2_000_000, max_steps: 2_000, time_cap: tier.pick(Duration::from_secs(30), Duration::from_secs(600)) };
  vec![
    Harness::new("wg:1done-1wait", cfg.clone(), h_done_vs_wait(1, 1)),
    Harness::new("wg:2done-1wait", cfg.clone(), h_done_vs_wait(2, 1)),
    Harness::new("wg:3done-1wait", cfg.clone(), h_done_vs_wait(3, 1)),
    Harness::new("wg:2done-2wait", cfg.clone(), h_done_vs_wait(2, 2)),
    Harness::new("wg:add-while-waiting", cfg.clone(), h_add_while_waiting()),
  ]
}

pub fn waitgroup_sub(tier: Tier) -> Sub {
  let mut sub = Sub::new("waitgroup", "E2");
  sub.rule = "evaluation = one complete schedule of done()/wait()/add() tasks on the real WaitGroup; oracle = every waiter returns (deadlock = lost wake-up, which Context::term() would only survive through its hidden 10 s timeout), count is zero afterwards".into();
  let hs = harnesses(tier);
  sub.bounds = json!({"preemption_bound": tier.pick(3, 4), "harnesses": hs.iter().map(|h| h.name.clone()).collect::<Vec<_>>()});
  e2::explore_all(&mut sub, hs);
  sub
}

pub fn replay(_sub: &str, w: &Value) -> Result<String, String> {
  if w["explorer"] == "e3" {
    return crate::c16_world::replay(w);
  }
  if w["explorer"] == "e4" {
    return crate::c16_real::replay(w);
  }
  let name = w["harness"].as_str().ok_or("no harness in witness")?;
  let choices: Vec<usize> = w["choices"].as_array().ok_or("no choices")?.iter().map(|x| x.as_u64().unwrap_or(0) as usize).collect();
  let h = harnesses(Tier::Thorough).into_iter().find(|h| h.name == name).ok_or("unknown harness")?;
  let rt = tokio::runtime::Builder::new_current_thread().enable_time().start_paused(true).build().unwrap();
  let _g = rt.enter();
  let (fail, trace, div) = e2::replay(h.body.clone(), &choices, 3000);
  if let Some(d) = div {
    return Err(format!("replay diverged: {}", d));
  }
  match fail {
    Some((clause, class, detail)) => Err(format!("{}/{}: {} (schedule {:?})", clause, class, detail, trace)),
    None => Ok("schedule completes without violation".into()),
  }
}

pub fn run(tier: Tier) -> Report {
  let mut rep = Report::new("C16", tier, "model_checking");
  rep.assume("E2: atomicity at the granularity of individual atomic operations and Notify calls of WaitGroup (hooks between them)");
  rep.add(waitgroup_sub(tier));
  crate::c16_world::add_world_subs(&mut rep, tier);
  rep.add(crate::c16_real::real_sub(tier));
  rep
}
