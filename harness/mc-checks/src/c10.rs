//! C10 — REQ and REP enforce strict alternation for every call history.
//!
//! E3 + gates: caller tasks on clones of one REQ (resp. REP) socket issue short call sequences; the
//! check-then-act windows inside send()/recv() are `verif::sched::gate`s, so the order in which
//! racing callers proceed past their state check — which a multi-thread runtime decides — becomes an
//! explicit, enumerated choice. Explicit-state BFS over decision histories (release a parked caller,
//! let a peer reply / send / disconnect), each history re-executed in a fresh deterministic world.

use crate::stack::{self, msg};
use mc_core::bfs::{bfs, Visit};
use mc_core::world::{self, settle, settle_n};
use mc_core::{Report, Sub, Tier};
use rzmq::socket::options as o;
use rzmq::{Context, Socket, SocketType, ZmqError};
use serde_json::{json, Value};
use std::sync::Arc;

#[derive(Clone, Copy, Debug, PartialEq, Eq, Hash)]
enum Call {
  Send,
  Recv,
  RecvMp,
  SendMp,
}

#[derive(Clone, Copy, Debug, PartialEq, Eq, Hash)]
enum Dec {
  /// release the k-th caller parked at a gate (arrival order)
  Release(usize),
  /// REQ world: peer p answers the oldest request it holds; REP world: peer p sends a request
  PeerAct(usize),
  PeerDisconnect(usize),
  /// a peer that was not connected at the start attaches now
  PeerAttach(usize),
}

#[derive(Clone, Debug, PartialEq, Eq, Hash)]
struct LogEntry {
  caller: usize,
  call: Call,
  /// "ok:<payload>" / "invalid-state" / "err:<kind>"
  result: String,
}

#[derive(Clone, Debug, Default)]
struct Obs {
  log: Vec<LogEntry>,
  /// labels of callers parked at gates, arrival order
  waiting: Vec<String>,
  /// per peer: what it received (REQ world: requests; REP world: replies)
  peer_rx: Vec<Vec<Vec<u8>>>,
  peers_alive: Vec<bool>,
  peers_attached: Vec<bool>,
  /// REQ world: requests a peer holds unanswered; REP world: unused
  peer_pending: Vec<usize>,
  callers_done: usize,
}

fn classify(r: &Result<Vec<u8>, ZmqError>) -> String {
  match r {
    Ok(p) => format!("ok:{}", String::from_utf8_lossy(p)),
    Err(ZmqError::InvalidState(_)) => "invalid-state".into(),
    Err(ZmqError::Timeout) | Err(ZmqError::ResourceLimitReached) => "err:timeout".into(),
    Err(ZmqError::UnsupportedFeature(_)) => "err:unsupported".into(),
    Err(e) => format!("err:{}", e.to_string().chars().take(40).collect::<String>()),
  }
}

async fn do_call(s: &Socket, caller: usize, seq: usize, call: Call) -> Result<Vec<u8>, ZmqError> {
  let body = format!("c{}-{}", caller, seq).into_bytes();
  match call {
    Call::Send => s.send(msg(&body, false)).await.map(|_| body),
    Call::SendMp => s.send_multipart(vec![msg(&body, false)]).await.map(|_| body),
    Call::Recv => s.recv().await.map(|m| m.data().unwrap_or(&[]).to_vec()),
    Call::RecvMp => s.recv_multipart().await.map(|v| v.first().map(|m| m.data().unwrap_or(&[]).to_vec()).unwrap_or_default()),
  }
}

/// One world for the REQ (is_req) or REP socket under test.
fn run_world(is_req: bool, plans: &[Vec<Call>], npeers: usize, late: usize, script: &[Dec], rcvtimeo: i32) -> world::WorldResult<Obs> {
  let plans: Vec<Vec<Call>> = plans.to_vec();
  let script = script.to_vec();
  world::run(1, move || async move {
    let ctx = Context::new().expect("context");
    let (ty, peer_ty) = if is_req { (SocketType::Req, SocketType::Router) } else { (SocketType::Rep, SocketType::Dealer) };
    let s = Arc::new(stack::mk(&ctx, ty, &[(o::RCVTIMEO, rcvtimeo), (o::SNDTIMEO, if late > 0 { 5000 } else { 200 }), (o::LINGER, 0)]).await);
    let mut peers: Vec<Option<Socket>> = vec![];
    let mut attached = vec![false; npeers];
    for p in 0..npeers {
      let ps = stack::mk(&ctx, peer_ty, &[(o::RCVTIMEO, 20), (o::SNDTIMEO, 100), (o::LINGER, 0)]).await;
      if peer_ty == SocketType::Dealer {
        ps.set_option(o::ROUTING_ID, format!("peer{}", p).as_bytes()).await.unwrap();
      }
      // REQ under test connects to ROUTER peers (they see the request envelope); REP under test is
      // connected to by DEALER peers (which may have several requests outstanding)
      if p + late < npeers {
        attached[p] = true;
        if is_req {
          let l = stack::link_pair(&s, &ps, 1 << 16).await;
          mc_core::world::keep(l);
        } else {
          let l = stack::link_pair(&ps, &s, 1 << 16).await;
          mc_core::world::keep(l);
        }
      }
      peers.push(Some(ps));
    }
    settle_n(4).await;
    world::gates_arm(if is_req { &["req.send.checked", "req.recv.checked"] } else { &["rep.recv.checked", "rep.send.taken"] });
    let log: Arc<parking_lot::Mutex<Vec<LogEntry>>> = Arc::new(parking_lot::Mutex::new(vec![]));
    let done = Arc::new(std::sync::atomic::AtomicUsize::new(0));
    for (ci, plan) in plans.iter().enumerate() {
      let (s, log, plan, done) = (s.clone(), log.clone(), plan.clone(), done.clone());
      tokio::spawn(async move {
        for (k, call) in plan.iter().enumerate() {
          let r = do_call(&s, ci, k, *call).await;
          log.lock().push(LogEntry { caller: ci, call: *call, result: classify(&r) });
        }
        done.fetch_add(1, std::sync::atomic::Ordering::SeqCst);
      });
    }
    settle_n(2).await;
    // per-peer state
    let mut peer_rx: Vec<Vec<Vec<u8>>> = vec![vec![]; npeers];
    let mut held: Vec<Vec<(Vec<u8>, Vec<u8>)>> = vec![vec![]; npeers]; // REQ world: (identity, request)
    let mut sent_by_peer = vec![0usize; npeers];
    // helper: let ROUTER peers collect any requests that arrived
    async fn collect(is_req: bool, peers: &Vec<Option<Socket>>, peer_rx: &mut Vec<Vec<Vec<u8>>>, held: &mut Vec<Vec<(Vec<u8>, Vec<u8>)>>) {
      for (p, ps) in peers.iter().enumerate() {
        let Some(ps) = ps else { continue };
        loop {
          match ps.recv_multipart().await {
            Ok(fr) => {
              let frames: Vec<Vec<u8>> = fr.iter().map(|m| m.data().unwrap_or(&[]).to_vec()).collect();
              if is_req {
                // ROUTER peer: [identity, request]
                if frames.len() >= 2 {
                  held[p].push((frames[0].clone(), frames[frames.len() - 1].clone()));
                  peer_rx[p].push(frames[frames.len() - 1].clone());
                }
              } else {
                peer_rx[p].push(frames.last().cloned().unwrap_or_default());
              }
            }
            Err(_) => break,
          }
        }
      }
    }
    collect(is_req, &peers, &mut peer_rx, &mut held).await;
    for d in &script {
      match *d {
        Dec::Release(k) => {
          let w = world::gates_waiting();
          if let Some((id, _)) = w.get(k) {
            world::gate_release(*id);
          }
        }
        Dec::PeerAct(p) => {
          if let Some(ps) = &peers[p] {
            if is_req {
              if !held[p].is_empty() {
                let (id, req) = held[p].remove(0);
                let mut rep = b"re:".to_vec();
                rep.extend_from_slice(&req);
                let _ = ps.send_multipart(vec![msg(&id, true), msg(&rep, false)]).await;
              }
            } else {
              let body = format!("p{}-{}", p, sent_by_peer[p]).into_bytes();
              sent_by_peer[p] += 1;
              let _ = ps.send(msg(&body, false)).await;
            }
          }
        }
        Dec::PeerDisconnect(p) => {
          if let Some(ps) = peers[p].take() {
            let _ = ps.close().await;
          }
        }
        Dec::PeerAttach(p) => {
          if let (Some(ps), false) = (&peers[p], attached[p]) {
            attached[p] = true;
            let l = if is_req { stack::link_pair(&s, ps, 1 << 16).await } else { stack::link_pair(ps, &s, 1 << 16).await };
            mc_core::world::keep(l);
          }
        }
      }
      settle_n(2).await;
      collect(is_req, &peers, &mut peer_rx, &mut held).await;
    }
    let obs = Obs {
      log: log.lock().clone(),
      waiting: world::gates_waiting().iter().map(|w| w.1.to_string()).collect(),
      peer_rx,
      peers_alive: peers.iter().map(|p| p.is_some()).collect(),
      peers_attached: attached.clone(),
      peer_pending: held.iter().map(|h| h.len()).collect(),
      callers_done: done.load(std::sync::atomic::Ordering::SeqCst),
    };
    world::gates_disarm();
    settle().await;
    let _ = tokio::time::timeout(std::time::Duration::from_secs(30), ctx.term()).await;
    obs
  })
}

/// The alternation oracle over the completion-ordered log.
fn judge(is_req: bool, obs: &Obs) -> Vec<(String, String, String)> {
  let mut v = vec![];
  let class = if is_req { "REQ" } else { "REP" }.to_string();
  // reference FSM: REQ starts expecting send, REP starts expecting recv
  let mut expect_send = is_req;
  let mut last_request: Option<String> = None;
  let mut replies_expected: Vec<(String, String)> = vec![]; // (request payload, reply payload) REP world
  for e in &obs.log {
    let is_send = matches!(e.call, Call::Send | Call::SendMp);
    let ok = e.result.starts_with("ok:");
    if e.result == "err:unsupported" {
      continue; // e.g. REQ.send_multipart is not offered at all
    }
    if ok {
      if is_send != expect_send {
        // what preceded the out-of-turn success: rzmq deliberately lets a REQ send again after a
        // recv() that timed out or after the peer holding the request vanished (both recorded as
        // known findings: the property text makes no such exception); anything else is a race
        let idx = obs.log.iter().position(|l| std::ptr::eq(l, e)).unwrap_or(0);
        let after_timeout = is_req && is_send && obs.log[..idx].iter().rev().take_while(|l| !l.result.starts_with("ok:")).any(|l| !matches!(l.call, Call::Send | Call::SendMp) && l.result == "err:timeout");
        let after_disconnect = is_req && is_send && obs.peers_alive.iter().any(|a| !*a);
        let class = format!("{}{}", class, if after_timeout { ":after-recv-timeout" } else if after_disconnect { ":after-peer-disconnect" } else { "" });
        v.push((
          "alternation-broken".into(),
          class.clone(),
          format!("successful {:?} by caller {} while the socket was expecting {}; completion-ordered log: {:?}", e.call, e.caller, if expect_send { "send" } else { "recv" }, obs.log.iter().map(|l| format!("c{}:{:?}={}", l.caller, l.call, l.result)).collect::<Vec<_>>()),
        ));
        return v;
      }
      expect_send = !expect_send;
      if !is_req {
        if is_send {
          if let Some(rq) = last_request.take() {
            replies_expected.push((rq, e.result[3..].to_string()));
          }
        } else {
          last_request = Some(e.result[3..].to_string());
        }
      }
    } else if !is_req && is_send && e.result.starts_with("err:Host is unreachable") {
      // the requester vanished: the held request is void and the REP goes back to receiving
      expect_send = false;
      last_request = None;
    } else if e.result == "invalid-state" {
      // must correspond to a call that is not allowed right now
      if is_send == expect_send {
        // a permitted call was refused: only a violation if nothing else was in flight; racing
        // callers legitimately see this (another caller's operation is in progress), so not flagged
      }
    }
  }
  if !is_req {
    // each reply must have reached the peer whose request it answers: request "pK-n" -> peer K
    for (rq, reply) in &replies_expected {
      let peer: Option<usize> = rq.strip_prefix('p').and_then(|s| s.split('-').next()).and_then(|s| s.parse().ok());
      let Some(pk) = peer else { continue };
      if !obs.peers_alive.get(pk).copied().unwrap_or(false) {
        continue;
      }
      let got_here = obs.peer_rx[pk].iter().any(|r| r == reply.as_bytes());
      let got_elsewhere = obs.peer_rx.iter().enumerate().any(|(i, rx)| i != pk && rx.iter().any(|r| r == reply.as_bytes()));
      if got_elsewhere || !got_here {
        v.push((
          "reply-misrouted".into(),
          class.clone(),
          format!("reply {:?} to request {:?} (from peer {}) was received by {:?}", reply, rq, pk, obs.peer_rx.iter().map(|rx| rx.iter().map(|r| String::from_utf8_lossy(r).to_string()).collect::<Vec<_>>()).collect::<Vec<_>>()),
        ));
      }
    }
  }
  v
}

fn plans_for(is_req: bool, callers: usize, max_calls: usize) -> Vec<Vec<Vec<Call>>> {
  let alpha: Vec<Call> = if is_req { vec![Call::Send, Call::Recv, Call::RecvMp] } else { vec![Call::Recv, Call::Send, Call::RecvMp, Call::SendMp] };
  let mut seqs: Vec<Vec<Call>> = vec![];
  for a in &alpha {
    seqs.push(vec![*a]);
    if max_calls >= 2 {
      for b in &alpha {
        seqs.push(vec![*a, *b]);
      }
    }
  }
  let mut out = vec![];
  if callers == 1 {
    // a single caller: longer sequential histories
    let mut level: Vec<Vec<Call>> = vec![vec![]];
    for _ in 0..max_calls + 2 {
      let mut next = vec![];
      for s in &level {
        for a in &alpha {
          let mut s2 = s.clone();
          s2.push(*a);
          next.push(s2);
        }
      }
      for s in &next {
        out.push(vec![s.clone()]);
      }
      level = next;
    }
    return out;
  }
  for (i, a) in seqs.iter().enumerate() {
    for b in seqs.iter().skip(i) {
      out.push(vec![a.clone(), b.clone()]);
    }
  }
  out
}

fn explore(sub: &mut Sub, is_req: bool, plans: &[Vec<Call>], npeers: usize, late: usize, depth: usize, rcvtimeo: i32) {
  let plans_v: Vec<Vec<Call>> = plans.to_vec();
  let mut part = Sub::new("part", "E3");
  bfs(&mut part, depth, 200_000, |hist: &[Dec]| {
    let r = run_world(is_req, &plans_v, npeers, late, hist, rcvtimeo);
    let mut violations = vec![];
    for p in &r.panics {
      violations.push(("panic".into(), p.rsplit(" @ ").next().map(mc_core::short_loc).unwrap_or_default(), p.clone()));
    }
    let Some(obs) = r.result else {
      return Visit { key: (vec![], vec![], 0usize, hist.len()), enabled: vec![], nontrivial: false, outcome: 0, violations };
    };
    for (c, k, d) in judge(is_req, &obs) {
      violations.push((c, format!("{}:{}callers:{}peers", k, plans_v.len(), npeers), format!("plans {:?}; decisions {:?}; {}", plans_v, hist, d)));
    }
    let mut enabled = vec![];
    for k in 0..obs.waiting.len() {
      enabled.push(Dec::Release(k));
    }
    for p in 0..npeers {
      if obs.peers_alive[p] && !obs.peers_attached[p] {
        enabled.push(Dec::PeerAttach(p));
      } else if obs.peers_alive[p] {
        if is_req {
          if obs.peer_pending[p] > 0 {
            enabled.push(Dec::PeerAct(p));
          }
        } else if hist.iter().filter(|d| **d == Dec::PeerAct(p)).count() < 2 {
          enabled.push(Dec::PeerAct(p));
        }
        if npeers > 1 && hist.iter().all(|d| !matches!(d, Dec::PeerDisconnect(_))) && p == 0 {
          enabled.push(Dec::PeerDisconnect(p));
        }
      }
    }
    if obs.callers_done == plans_v.len() {
      enabled.clear();
    }
    let key = (
      obs.log.iter().map(|l| format!("{}{:?}{}", l.caller, l.call, l.result)).collect::<Vec<_>>(),
      obs.waiting.clone(),
      mc_core::digest(&(obs.peer_rx.clone(), obs.peers_alive.clone(), obs.peers_attached.clone(), obs.peer_pending.clone())) as usize,
      0usize,
    );
    let nontrivial = obs.log.iter().filter(|l| l.result.starts_with("ok:")).count() >= 2 || obs.waiting.len() >= 2;
    Visit { key, enabled, nontrivial, outcome: mc_core::digest(&obs.log), violations }
  });
  sub.absorb(part);
}

pub fn run(tier: Tier) -> Report {
  let mut rep = Report::new("C10", tier, "model_checking");
  rep.assume("racing callers are serialised at the verif::sched gates placed between the state check and the state update in REQ send/recv and REP recv/send; every order in which parked callers are released, interleaved with peer replies/requests/disconnects, is enumerated; the success log is ordered by call completion");
  rep.assume("a call that fails with a timeout is not counted as a success; REQ.send_multipart is unsupported by design and ignored");
  let depth = tier.pick(7, 11);
  for (is_req, name) in [(true, "req"), (false, "rep")] {
    // one caller: all sequential histories up to length 4 (thorough 4), one peer
    let mut sub = Sub::new(&format!("{}-sequential", name), "E3");
    sub.rule = "state = decision history (release a parked caller / peer acts / peer disconnects) re-executed in a fresh world; key = (completion-ordered call log, parked callers, peer observations); oracle: successful calls alternate (REQ: send recv ...; REP: recv send ...), each REP reply reaches the peer whose request the preceding recv returned".into();
    let plans = plans_for(is_req, 1, tier.pick(2, 2));
    sub.bounds = json!({"caller_plans": plans.len(), "decision_depth": depth, "peers": 1});
    let parts: std::sync::Mutex<Vec<Sub>> = std::sync::Mutex::new(vec![]);
    run_parallel(&plans, |pl| {
      let mut s = Sub::new("p", "E3");
      explore(&mut s, is_req, pl, 1, 0, depth, 60);
      parts.lock().unwrap().push(s);
    });
    for p in parts.into_inner().unwrap() {
      sub.absorb(p);
    }
    rep.add(sub);
    // two callers racing, one and two peers
    let mut sub = Sub::new(&format!("{}-racing", name), "E3");
    sub.rule = "as above with two caller tasks on clones of the socket, each issuing up to 2 calls; all gate-release orders".into();
    let plans = plans_for(is_req, 2, 2);
    sub.bounds = json!({"caller_plan_pairs": plans.len(), "decision_depth": depth, "peers": [1, 2]});
    let parts: std::sync::Mutex<Vec<Sub>> = std::sync::Mutex::new(vec![]);
    let plans2: Vec<(Vec<Vec<Call>>, usize)> = plans.iter().flat_map(|p| [(p.clone(), 1usize), (p.clone(), 2usize)]).filter(|(_, n)| *n == 1 || tier == Tier::Thorough || !is_req).collect();
    run_parallel(&plans2, |(pl, np)| {
      let mut s = Sub::new("p", "E3");
      explore(&mut s, is_req, pl, *np, 0, depth, 60);
      parts.lock().unwrap().push(s);
    });
    for p in parts.into_inner().unwrap() {
      sub.absorb(p);
    }
    rep.add(sub);
    // callers start while no peer is connected; the peer(s) attach later
    let mut sub = Sub::new(&format!("{}-late-peer", name), "E3");
    sub.rule = "as racing, but the socket under test starts with no peer: the callers' operations are parked waiting for a first peer, which attaches as one of the enumerated decisions (two peers: in either order)".into();
    let plans = plans_for(is_req, 2, tier.pick(1, 2));
    let mut plans3: Vec<(Vec<Vec<Call>>, usize)> = plans.iter().map(|p| (p.clone(), 1usize)).collect();
    if tier == Tier::Thorough {
      plans3.extend(plans.iter().map(|p| (p.clone(), 2usize)));
    }
    // three racing callers with one call each
    let alpha: Vec<Call> = if is_req { vec![Call::Send, Call::Recv] } else { vec![Call::Recv, Call::Send] };
    for a in &alpha {
      for b in &alpha {
        plans3.push((vec![vec![Call::Send], vec![*a], vec![*b]], 1));
      }
    }
    sub.bounds = json!({"caller_plan_sets": plans3.len(), "decision_depth": depth, "late_peers": [1, 2]});
    let parts: std::sync::Mutex<Vec<Sub>> = std::sync::Mutex::new(vec![]);
    run_parallel(&plans3, |(pl, np)| {
      let mut s = Sub::new("p", "E3");
      explore(&mut s, is_req, pl, *np, *np, depth, 60);
      parts.lock().unwrap().push(s);
    });
    for p in parts.into_inner().unwrap() {
      sub.absorb(p);
    }
    rep.add(sub);
  }
  rep
}

fn run_parallel<T: Sync>(items: &[T], f: impl Fn(&T) + Sync) {
  let next = std::sync::atomic::AtomicUsize::new(0);
  std::thread::scope(|s| {
    for _ in 0..mc_core::par::threads() {
      s.spawn(|| {
        mc_core::par::set_local_threads(Some(1));
        loop {
          let i = next.fetch_add(1, std::sync::atomic::Ordering::Relaxed);
          if i >= items.len() {
            break;
          }
          f(&items[i]);
        }
      });
    }
  });
}

pub fn replay(sub: &str, w: &Value) -> Result<String, String> {
  Err(format!("replay of {}: the witness detail contains the caller plans and the decision list; re-run ./check C10 ({})", sub, w))
}
