//! C15, finite LINGER (E4): `shutdown.rs` measures the linger period with `std::time::Instant`, so
//! these cells run on the real clock over loopback tcp / ipc. One execution per cell; oracles are
//! one-sided with margins of seconds:
//!   * everything accepted is delivered when the peer reads and LINGER is far longer than the
//!     transfer needs (10 s for at most 8 MB over loopback);
//!   * close()+term() return within LINGER + 3 s whatever the peer does;
//!   * what is delivered is an intact, in-order prefix of what was accepted.

use crate::common::payload;
use mc_core::par::{self, Case};
use mc_core::{Sub, Tier};
use rzmq::socket::options as o;
use rzmq::{Context, Msg, SocketType};
use serde_json::json;
use std::time::{Duration, Instant};

#[derive(Clone, Copy, Debug, PartialEq, Eq)]
enum Peer {
  Reading,
  /// the receiving application stops reading before the backlog is sent and never resumes
  Stalled,
}

#[derive(Clone, Copy, Debug)]
struct Cell {
  dealer: bool,
  ipc: bool,
  linger_ms: i32,
  queued: usize,
  size: usize,
  peer: Peer,
  term_only: bool,
}

#[derive(Default, Debug)]
struct Out {
  skipped: Option<String>,
  accepted: usize,
  received: usize,
  prefix_ok: bool,
  corrupt: bool,
  close_ms: u64,
  returned: bool,
}

async fn run_cell(c: Cell) -> Out {
  let mut out = Out { prefix_ok: true, ..Default::default() };
  let ctx = Context::new().expect("ctx");
  let rctx = Context::new().expect("rctx");
  let (ta, tb) = if c.dealer { (SocketType::Dealer, SocketType::Router) } else { (SocketType::Push, SocketType::Pull) };
  let b = rctx.socket(tb).expect("socket");
  for (k, v) in [(o::RCVHWM, if c.peer == Peer::Stalled { 4 } else { 100_000 }), (o::RCVTIMEO, 300), (o::LINGER, 0)] {
    b.set_option(k, v).await.unwrap();
  }
  let uri = if c.ipc { format!("ipc:///tmp/mc-c15-{}-{}.ipc", std::process::id(), c.linger_ms as usize * 7 + c.queued + c.size + c.dealer as usize) } else { "tcp://127.0.0.1:0".to_string() };
  if b.bind(&uri).await.is_err() {
    out.skipped = Some("bind failed".into());
    return out;
  }
  let ep = if c.ipc { uri.clone() } else { String::from_utf8(b.get_option(o::LAST_ENDPOINT).await.unwrap()).unwrap() };
  let a = ctx.socket(ta).expect("socket");
  for (k, v) in [(o::SNDHWM, 100_000), (o::SNDTIMEO, 1000), (o::LINGER, c.linger_ms), (o::RECONNECT_IVL, 0)] {
    a.set_option(k, v).await.unwrap();
  }
  if a.connect(&ep).await.is_err() {
    out.skipped = Some("connect failed".into());
    return out;
  }
  // prove the connection is up before the measured phase: one probe message must arrive
  let t_probe = Instant::now();
  let mut up = false;
  while t_probe.elapsed() < Duration::from_secs(8) {
    let _ = a.send(Msg::from_vec(b"probe".to_vec())).await;
    let got = if c.dealer { b.recv_multipart().await.map(|_| ()) } else { b.recv().await.map(|_| ()) };
    if got.is_ok() {
      up = true;
      break;
    }
  }
  if !up {
    out.skipped = Some("connection did not come up within 8 s".into());
    return out;
  }
  // swallow probes that were still in flight
  tokio::time::sleep(Duration::from_millis(100)).await;
  loop {
    let more = if c.dealer { b.recv_multipart().await.map(|_| ()) } else { b.recv().await.map(|_| ()) };
    if more.is_err() {
      break;
    }
  }
  // reader task: keeps reading until close()/term() has returned and the line has then been idle for ~1 s
  let sender_done = std::sync::Arc::new(std::sync::atomic::AtomicBool::new(false));
  let reader = {
    let b = b.clone();
    let sender_done = sender_done.clone();
    let dealer = c.dealer;
    let stalled = c.peer == Peer::Stalled;
    tokio::spawn(async move {
      let mut got: Vec<u64> = vec![];
      let mut corrupt = false;
      if stalled {
        return (got, corrupt);
      }
      let mut idle = 0;
      let t_start = Instant::now();
      while idle < 4 && t_start.elapsed() < Duration::from_secs(70) {
        let r = if dealer { b.recv_multipart().await.map(|f| f.last().map(|m| m.data().unwrap_or(&[]).to_vec()).unwrap_or_default()) } else { b.recv().await.map(|m| m.data().unwrap_or(&[]).to_vec()) };
        match r {
          Ok(d) => {
            idle = 0;
            if d == b"probe" {
              continue;
            }
            if d.len() < 8 {
              corrupt = true;
              continue;
            }
            let seq = u64::from_be_bytes(d[..8].try_into().unwrap());
            let mut want = payload(seq as u32 + 1, d.len());
            want[..8].copy_from_slice(&seq.to_be_bytes());
            if want != d {
              corrupt = true;
            }
            got.push(seq);
          }
          Err(_) => {
            if sender_done.load(std::sync::atomic::Ordering::SeqCst) {
              idle += 1;
            }
          }
        }
      }
      (got, corrupt)
    })
  };
  for i in 0..c.queued {
    let mut body = payload(i as u32 + 1, c.size.max(8));
    body[..8].copy_from_slice(&(i as u64).to_be_bytes());
    if a.send(Msg::from_vec(body)).await.is_ok() {
      out.accepted += 1;
    } else {
      break;
    }
  }
  let t0 = Instant::now();
  let closer = {
    let (a2, ctx2, term_only) = (a.clone(), ctx.clone(), c.term_only);
    tokio::spawn(async move {
      if !term_only {
        let _ = a2.close().await;
      }
      drop(a2);
      let _ = ctx2.term().await;
    })
  };
  drop(a);
  let limit = Duration::from_millis(c.linger_ms as u64 + 20_000);
  out.returned = tokio::time::timeout(limit, closer).await.is_ok();
  out.close_ms = t0.elapsed().as_millis() as u64;
  sender_done.store(true, std::sync::atomic::Ordering::SeqCst);
  if let Ok(Ok((got, corrupt))) = tokio::time::timeout(Duration::from_secs(20), reader).await {
    out.received = got.len();
    out.corrupt = corrupt;
    out.prefix_ok = got.iter().enumerate().all(|(i, s)| *s == i as u64);
  }
  drop(b);
  let _ = tokio::time::timeout(Duration::from_secs(12), rctx.term()).await;
  if c.ipc {
    let _ = std::fs::remove_file(uri.trim_start_matches("ipc://"));
  }
  out
}

fn cells(tier: Tier) -> Vec<Cell> {
  let mut v = vec![];
  for dealer in [false, true] {
    for ipc in [false, true] {
      for linger_ms in tier.pick(vec![200, 10_000], vec![1, 50, 200, 1000, 10_000]) {
        for (queued, size) in [(0usize, 8usize), (50, 4096), (2000, 4096)] {
          for peer in [Peer::Reading, Peer::Stalled] {
            for term_only in [false, true] {
              if tier == Tier::Quick && (ipc && dealer || term_only && queued != 2000 || peer == Peer::Stalled && linger_ms == 10_000) {
                continue;
              }
              if peer == Peer::Stalled && linger_ms == 10_000 && queued == 0 {
                continue;
              }
              v.push(Cell { dealer, ipc, linger_ms, queued, size, peer, term_only });
            }
          }
        }
      }
    }
  }
  v
}

pub fn finite_sub(tier: Tier) -> Sub {
  let mut sub = Sub::new("linger-finite-real-clock", "E4");
  sub.rule = "case = one real-time execution per (pair x tcp/ipc x LINGER x backlog at close x reading/stalled peer x close+term / term only) cell; non-trivial = something was queued at close; oracle: close()+term() return within LINGER + 3 s; with a reading peer and LINGER = 10 s everything accepted arrives; what arrives is an intact in-order prefix of what was accepted".into();
  let list = cells(tier);
  sub.bounds = json!({"cells": list.len(), "linger_ms": tier.pick(vec![200, 10_000], vec![1, 50, 200, 1000, 10_000]), "backlogs": ["0", "50 x 4 KiB", "2000 x 4 KiB"]});
  sub.notes.push("a violation in a real-clock cell is reported only if it shows again when the cell is executed a second time; E4 cells are real-clock executions: the matrix is enumerated completely, the schedules inside a cell are not".into());
  par::enumerate(&mut sub, list.len(), |i| par::confirmed(|| {
    let c = list[i];
    let rt = tokio::runtime::Builder::new_multi_thread().worker_threads(2).enable_all().build().expect("runtime");
    let r = rt.block_on(async move { tokio::time::timeout(Duration::from_secs(90), run_cell(c)).await });
    rt.shutdown_timeout(Duration::from_secs(2));
    let wit = json!({"explorer": "e4", "cell": format!("{:?}", c)});
    let class = format!("{}:{}:linger{}:backlog{}x{}", if c.dealer { "DealerRouter" } else { "PushPull" }, if c.ipc { "ipc" } else { "tcp" }, c.linger_ms, c.queued, c.size);
    let mut case = Case { steps: 3, nontrivial: c.queued > 0, ..Default::default() };
    match r {
      Err(_) => case.violations.push(("scenario-hangs".into(), class, "did not finish within 90 s".into(), wit)),
      Ok(o) => {
        if o.skipped.is_some() {
          case.nontrivial = false;
        }
        case.outcome = mc_core::digest(&(o.received == o.accepted, o.returned));
        case.state = mc_core::digest(&format!("{:?}", c));
        let ctxd = format!("{:?} peer, {}", c.peer, if c.term_only { "term only" } else { "close then term" });
        if o.skipped.is_none() {
          if !o.returned || o.close_ms > c.linger_ms as u64 + 3000 {
            case.violations.push(("bounded-linger-does-not-bound-close".into(), class.clone(), format!("LINGER={} ms, {}: close/term took {} ms (returned: {})", c.linger_ms, ctxd, o.close_ms, o.returned), wit.clone()));
          }
          if o.corrupt {
            case.violations.push(("corrupted-or-truncated-message".into(), class.clone(), "a received message does not match what was sent".into(), wit.clone()));
          }
          if !o.prefix_ok {
            case.violations.push(("received-not-a-prefix-of-accepted".into(), class.clone(), format!("{} received, not the first {} accepted in order", o.received, o.received), wit.clone()));
          }
          if c.peer == Peer::Reading && c.linger_ms >= 10_000 && o.received != o.accepted {
            // class without the backlog size: the loss is timing dependent, any backlog can show it
            let class = format!("{}:{}", if c.dealer { "DealerRouter" } else { "PushPull" }, if c.ipc { "ipc" } else { "tcp" });
            case.violations.push(("linger-long-enough-lost-messages".into(), class.clone(), format!("LINGER={} ms, peer reading ({}): {} messages of {} bytes accepted, {} received; close/term took {} ms", c.linger_ms, ctxd, o.accepted, c.size, o.received, o.close_ms), wit.clone()));
          }
        }
        case.sample = Some(json!({"cell": format!("{:?}", c), "accepted": o.accepted, "received": o.received, "close_ms": o.close_ms, "skipped": o.skipped}));
      }
    }
    case
  }));
  sub
}

pub fn replay(w: &serde_json::Value) -> Result<String, String> {
  let c = cells(Tier::Thorough).into_iter().find(|c| w["cell"] == format!("{:?}", c)).ok_or("unknown cell")?;
  let rt = tokio::runtime::Builder::new_multi_thread().worker_threads(2).enable_all().build().expect("runtime");
  let out = rt.block_on(async move { tokio::time::timeout(Duration::from_secs(90), run_cell(c)).await }).map_err(|_| "scenario hangs".to_string())?;
  rt.shutdown_timeout(Duration::from_secs(2));
  Ok(format!("{:?}", out))
}
