//! C19 — heartbeats detect dead peers and never kill live ones.
//!
//! E1: (a) every timeline up to depth d over {advance, tick, inbound data/PING/PONG, malformed
//! PING/PONG, outbound write} on the real engine under a scripted clock, against a heartbeat
//! monitor written in the harness — for ZMTP/3 NULL (scripted peer bytes), ZMTP/2, and CURVE/NOISE
//! sessions (live partner engine); (b) every history up to depth d of push / push_priority /
//! advance(k) on the real `EgressBuffer` against a chunk-order reference.

use crate::common::*;
use crate::engines::*;
use mc_core::bfs::{bfs, Visit};
use mc_core::par::{self, Case};
use mc_core::{Report, Sub, Tier};
use rzmq::protocol::zmtp::engine::ZmtpPhase;
use rzmq::verif::engine::Mech;
use rzmq::verif::session::EgressBufferH;
use serde_json::{json, Value};
use std::time::{Duration, Instant};

const UNIT: Duration = Duration::from_secs(10);

#[derive(Clone, Copy, Debug, PartialEq, Eq, Hash)]
enum Ev {
  Advance,
  Tick,
  InData,
  InPong,
  /// inbound PING with a context of n bytes
  InPing(u8),
  InMalformedPing,
  InMalformedPong,
  OutWrite,
}

#[derive(Clone, Copy, Debug, PartialEq, Eq, Hash)]
enum Kind {
  V3Null,
  V2,
  Curve,
  Noise,
}

fn frame(flags: u8, body: &[u8]) -> Vec<u8> {
  let mut out = vec![flags, body.len() as u8];
  out.extend_from_slice(body);
  out
}

/// The engine under test plus its scripted clock and (for encrypted kinds) the live partner.
struct Rig {
  kind: Kind,
  t0: Instant,
  now: u32,
  a: Side,
  /// partner engine for encrypted sessions
  b: Option<Side>,
  a2b: usize,
  b2a: usize,
  // --- reference monitor ---
  last_act: u32,
  waiting: bool,
  ping_at: u32,
  traffic_since_ping: bool,
  closed: bool,
  ivl: u32,
  to: u32,
  pings_sent: u32,
}

impl Rig {
  fn new(kind: Kind, ivl: u32, to: u32) -> Rig {
    let t0 = Instant::now() + Duration::from_secs(1000);
    let hb = |sp: &mut rzmq::verif::engine::EngineSpec| {
      sp.heartbeat_ivl = Some(UNIT * ivl);
      sp.heartbeat_timeout = Some(UNIT * to);
    };
    let (a, b, a2b, b2a) = match kind {
      Kind::V3Null => {
        let mut sp = spec("PULL", Mech::Null);
        hb(&mut sp);
        let mut a = Side::from_spec(true, &sp);
        let mut g = vec![0xFF, 0, 0, 0, 0, 0, 0, 0, 0, 0x7F, 3, 0];
        let mut m = [0u8; 20];
        m[..4].copy_from_slice(b"NULL");
        g.extend_from_slice(&m);
        g.push(0);
        g.extend_from_slice(&[0u8; 31]);
        let mut r = b"\x05READY".to_vec();
        r.push(11);
        r.extend_from_slice(b"Socket-Type");
        r.extend_from_slice(&4u32.to_be_bytes());
        r.extend_from_slice(b"PUSH");
        g.extend_from_slice(&frame(0x04, &r));
        a.feed(&g);
        (a, None, 0, 0)
      }
      Kind::V2 => {
        let mut sp = spec("PULL", Mech::Null);
        hb(&mut sp);
        let mut a = Side::from_spec(true, &sp);
        let mut g = vec![0xFF, 0, 0, 0, 0, 0, 0, 0, 0, 0x7F, 0x01, 8];
        g.extend_from_slice(&frame(0, b""));
        a.feed(&g);
        (a, None, 0, 0)
      }
      Kind::Curve | Kind::Noise => {
        let mk = if kind == Kind::Curve { MechKind::Curve } else { MechKind::Noise };
        let mut c = spec("PUSH", mech_for(mk, false, Creds::Good));
        let mut s = spec("PULL", mech_for(mk, true, Creds::Good));
        hb(&mut c);
        hb(&mut s);
        let mut p = Pair::new(&c, &s);
        p.run_to_quiescence();
        let (c2s, s2c) = (p.c2s, p.s2c);
        (p.s, Some(p.c), s2c, c2s)
      }
    };
    assert_eq!(a.phase(), ZmtpPhase::Data, "rig handshake failed: {:?}", a.first_error());
    let mut r = Rig { kind, t0, now: 0, a, b, a2b, b2a, last_act: 0, waiting: false, ping_at: 0, traffic_since_ping: false, closed: false, ivl, to, pings_sent: 0 };
    r.a.eng.verif_set_last_activity(t0);
    if let Some(b) = r.b.as_mut() {
      b.eng.verif_set_last_activity(t0);
    }
    r
  }

  fn vnow(&self) -> Instant {
    self.t0 + UNIT * self.now
  }

  /// Run `f` on engine A and re-stamp its activity time with the scripted clock if it stamped it.
  fn on_a<R>(&mut self, f: impl FnOnce(&mut Side) -> R) -> R {
    let before = self.a.eng.verif_last_activity();
    let r = f(&mut self.a);
    if self.a.eng.verif_last_activity() != before {
      let n = self.vnow();
      self.a.eng.verif_set_last_activity(n);
    }
    r
  }

  /// Deliver everything A has emitted to the partner (encrypted kinds), and everything the
  /// partner emitted to A. Returns A's newly emitted bytes (plain kinds: what the peer would see).
  fn pump(&mut self) {
    if self.b.is_none() {
      return;
    }
    for _ in 0..8 {
      let a_out = self.a.sent[self.a2b..].to_vec();
      self.a2b = self.a.sent.len();
      if !a_out.is_empty() {
        let b = self.b.as_mut().unwrap();
        b.feed(&a_out);
      }
      let b_out = {
        let b = self.b.as_ref().unwrap();
        b.sent[self.b2a..].to_vec()
      };
      self.b2a = self.b.as_ref().unwrap().sent.len();
      if b_out.is_empty() && a_out.is_empty() {
        break;
      }
      if !b_out.is_empty() {
        self.on_a(|a| a.feed(&b_out));
      }
    }
  }

  /// Apply one event; returns violated clauses (clause, detail).
  fn step(&mut self, ev: Ev) -> Vec<(String, String)> {
    let mut v = vec![];
    if self.closed {
      return v;
    }
    let sent_before = self.a.sent.len();
    let events_before = self.a.events.len();
    let plain = self.b.is_none();
    let mut expect_pong_ctx: Option<Vec<u8>> = None;
    let mut inbound = false;
    match ev {
      Ev::Advance => self.now += 1,
      Ev::OutWrite => {
        self.on_a(|a| a.eng.record_activity());
        self.last_act = self.now;
      }
      Ev::Tick => {
        let n = self.vnow();
        self.on_a(|a| {
          let out = a.eng.on_tick(n);
          a.absorb(out)
        });
      }
      Ev::InData => {
        inbound = true;
        if plain {
          self.on_a(|a| a.feed(&frame(0, b"data")));
        } else {
          let b = self.b.as_mut().unwrap();
          let out = b.eng.on_app_message(batch_of(&[(b"data".to_vec(), false, false)]));
          b.absorb(out);
          self.pump();
        }
      }
      Ev::InPong => {
        inbound = true;
        if plain {
          self.on_a(|a| a.feed(&frame(0x04, b"\x04PONG")));
        } else {
          // the partner answers whatever PINGs are in flight; if there is none, it has nothing to say
          let before = self.a.events.len() + self.b2a;
          self.pump();
          inbound = self.a.events.len() + self.b2a != before;
        }
      }
      Ev::InPing(n) => {
        inbound = true;
        let ctx: Vec<u8> = (0..n).map(|i| 0xA0 + i).collect();
        if plain {
          let mut body = b"\x04PING\x00\x07".to_vec();
          body.extend_from_slice(&ctx);
          expect_pong_ctx = Some(ctx);
          self.on_a(|a| a.feed(&frame(0x04, &body)));
        } else {
          // the partner's own heartbeat fires (context is always empty there)
          let vn = self.vnow();
          let b = self.b.as_mut().unwrap();
          b.eng.verif_set_last_activity(vn - UNIT * 100);
          if !b.eng.is_waiting_for_pong() {
            let out = b.eng.on_tick(vn);
            b.absorb(out);
            expect_pong_ctx = Some(vec![]);
          } else {
            inbound = false;
          }
          self.pump();
        }
      }
      Ev::InMalformedPing => {
        inbound = true;
        if plain {
          self.on_a(|a| a.feed(&frame(0x04, b"\x04PING\x00")));
        } else {
          inbound = false;
        }
      }
      Ev::InMalformedPong => {
        inbound = true;
        if plain {
          self.on_a(|a| a.feed(&frame(0x04, b"\x04PON")));
        } else {
          inbound = false;
        }
      }
    }
    let new_bytes = self.a.sent[sent_before..].to_vec();
    let new_events: Vec<crate::engines::Ev> = self.a.events[events_before..].to_vec();
    let errored_now = new_events.iter().any(|e| matches!(e, crate::engines::Ev::Error(_)));
    let emitted_ping = if plain { new_bytes.windows(5).any(|w| w == b"\x04PING") } else { matches!(ev, Ev::Tick) && !new_bytes.is_empty() };

    // ---- ZMTP/2.0: no heartbeats at all, COMMAND frames are violations ----
    if self.kind == Kind::V2 {
      if emitted_ping || (matches!(ev, Ev::Tick) && !new_bytes.is_empty()) {
        v.push(("heartbeat-on-zmtp2".into(), format!("{:?} produced {} bytes on a ZMTP/2.0 session", ev, new_bytes.len())));
      }
      if matches!(ev, Ev::Tick) && errored_now {
        v.push(("heartbeat-close-on-zmtp2".into(), "tick closed a ZMTP/2.0 session".into()));
      }
      if errored_now {
        self.closed = true;
      }
      return v;
    }

    // ---- reference monitor ----
    if inbound {
      self.last_act = self.now;
      if self.waiting {
        // traffic from the peer proves it is alive: it ends the wait for the PONG ("a peer ... on
        // which traffic keeps flowing is never disconnected by the heartbeat logic")
        self.traffic_since_ping = true;
        self.waiting = false;
      }
    }
    match ev {
      Ev::Tick => {
        let idle = self.now - self.last_act;
        let timeout_due = self.waiting && self.now - self.ping_at >= self.to;
        if errored_now {
          if !timeout_due {
            v.push(("closed-before-timeout".into(), format!("tick at t={} closed the session: waiting={} ping_at={} timeout={}", self.now, self.waiting, self.ping_at, self.to)));
          }
          self.closed = true;
        } else if timeout_due && !self.traffic_since_ping {
          v.push(("dead-peer-not-detected".into(), format!("tick at t={}: PING sent at t={} unanswered, no traffic since, timeout {} elapsed, session still open", self.now, self.ping_at, self.to)));
        }
        if !self.closed {
          if emitted_ping {
            if self.waiting || idle < self.ivl {
              v.push(("ping-too-early".into(), format!("PING at t={} with idle={} (ivl={}) waiting={}", self.now, idle, self.ivl, self.waiting)));
            }
            self.waiting = true;
            self.ping_at = self.now;
            self.traffic_since_ping = false;
            self.pings_sent += 1;
          } else if !self.waiting && idle >= self.ivl {
            v.push(("ping-not-sent-when-idle".into(), format!("tick at t={} with idle={} >= ivl={} and no PING outstanding produced nothing", self.now, idle, self.ivl)));
          }
        }
      }
      Ev::InPong => {
        if inbound && !errored_now {
          // a PONG (or, on encrypted kinds, whatever the partner answered) ends the wait
          if plain || !self.a.eng.is_waiting_for_pong() {
            self.waiting = false;
          }
        }
      }
      _ => {}
    }
    if let Some(ctx) = expect_pong_ctx {
      if plain {
        let mut want = b"\x04PONG".to_vec();
        want.extend_from_slice(&ctx);
        let want_frame = frame(0x04, &want);
        let ok = new_bytes == want_frame || (ctx.len() > 16 && errored_now);
        if !ok {
          v.push(("ping-not-answered-with-same-context".into(), format!("PING ctx {} bytes: engine emitted {} (wanted {})", ctx.len(), hex(&new_bytes), hex(&want_frame))));
        }
      } else {
        // encrypted: the partner must have seen a PONG, i.e. it is no longer waiting
        let b = self.b.as_ref().unwrap();
        if b.eng.is_waiting_for_pong() || b.errored() || self.a.errored() {
          v.push(("ping-not-answered-with-same-context".into(), format!("partner still waiting={} partner error {:?} local error {:?}", b.eng.is_waiting_for_pong(), b.first_error(), self.a.first_error())));
        }
      }
    }
    if matches!(ev, Ev::InMalformedPing | Ev::InMalformedPong) && !new_bytes.is_empty() {
      v.push(("malformed-heartbeat-answered".into(), format!("{:?} produced {}", ev, hex(&new_bytes))));
    }
    if errored_now && !matches!(ev, Ev::Tick) {
      if !(matches!(ev, Ev::InPing(n) if n > 16)) {
        v.push(("closed-by-inbound-traffic".into(), format!("{:?} closed the session: {:?}", ev, self.a.first_error())));
      }
      self.closed = true;
    }
    // internal consistency between the engine flag and the monitor (not a property clause by itself,
    // but a disagreement means one of the clauses above will fire later; useful in the witness)
    v
  }

  fn key(&self) -> (u8, bool, u32, u32, bool, bool, bool) {
    let cap = |x: u32| x.min(self.ivl.max(self.to) + 1);
    (
      self.kind as u8,
      self.waiting,
      cap(self.now - self.last_act),
      if self.waiting { cap(self.now - self.ping_at) } else { 0 },
      self.traffic_since_ping,
      self.closed,
      self.a.eng.is_waiting_for_pong(),
    )
  }
}

fn alphabet(kind: Kind) -> Vec<Ev> {
  match kind {
    Kind::V3Null => vec![Ev::Advance, Ev::Tick, Ev::InData, Ev::InPong, Ev::InPing(0), Ev::InPing(1), Ev::InPing(16), Ev::InPing(17), Ev::InMalformedPing, Ev::InMalformedPong, Ev::OutWrite],
    Kind::V2 => vec![Ev::Advance, Ev::Tick, Ev::InData, Ev::OutWrite],
    Kind::Curve | Kind::Noise => vec![Ev::Advance, Ev::Tick, Ev::InData, Ev::InPong, Ev::InPing(0), Ev::OutWrite],
  }
}

fn timeline_sub(kind: Kind, ivl: u32, to: u32, depth: usize) -> Sub {
  let mut sub = Sub::new(&format!("timeline:{:?}:ivl{}-to{}", kind, ivl, to), "E1");
  sub.rule = "state = event history replayed on a fresh real engine (plus a live partner engine for CURVE/NOISE) under a scripted clock; canonical key = (waiting, idle time, time since PING, traffic-since-PING, closed), capped; non-trivial = a heartbeat was emitted or a timeout evaluated; oracle = heartbeat monitor (PING only when idle >= IVL and always then; close only at PING+TIMEOUT without PONG, and always then if nothing arrived; PING answered with identical context; silence on ZMTP/2.0)".into();
  sub.bounds = json!({"depth": depth, "alphabet": format!("{:?}", alphabet(kind)), "ivl_ticks": ivl, "timeout_ticks": to});
  bfs(&mut sub, depth, 2_000_000, |hist: &[Ev]| {
    let r = mc_core::catch(|| {
      let mut rig = Rig::new(kind, ivl, to);
      let mut viol = vec![];
      for (i, e) in hist.iter().enumerate() {
        let vs = rig.step(*e);
        if i + 1 == hist.len() {
          viol = vs;
        }
      }
      (rig.key(), rig.closed, rig.pings_sent, viol)
    });
    match r {
      Ok((key, closed, pings, viol)) => Visit {
        key: (key, 0usize),
        enabled: if closed { vec![] } else { alphabet(kind) },
        nontrivial: pings > 0 || closed,
        outcome: mc_core::digest(&key),
        violations: viol.into_iter().map(|(c, d)| (c, format!("{:?}", kind), d)).collect(),
      },
      Err(msg) => Visit { key: ((255, false, 0, 0, false, false, false), hist.len()), enabled: vec![], nontrivial: true, outcome: 0, violations: vec![("panic".into(), mc_core::loc_of(&msg), msg)] },
    }
  });
  sub
}

// ------------------------------------------------------------------------------------------------
// EgressBuffer
// ------------------------------------------------------------------------------------------------

#[derive(Clone, Copy, Debug)]
enum Eb {
  Push { len: usize, msgs: usize },
  PushPriority,
  Advance(usize),
}

fn eb_alphabet() -> Vec<Eb> {
  let mut v = vec![Eb::Push { len: 1, msgs: 1 }, Eb::Push { len: 3, msgs: 2 }, Eb::PushPriority];
  for k in 1..=7 {
    v.push(Eb::Advance(k));
  }
  v
}

/// Runs one history; returns Err((clause, detail)) on an oracle failure.
fn eb_run(hist: &[Eb]) -> Result<(u64, bool), (String, String)> {
  let mut eb = EgressBufferH::new();
  // reference
  struct Chunk {
    id: u8,
    len: usize,
    msgs: usize,
    control: bool,
    /// ids of data chunks that had not started when this control chunk was pushed
    must_precede: Vec<u8>,
  }
  let mut chunks: Vec<Chunk> = vec![];
  let mut wire: Vec<u8> = vec![];
  let mut next_id = 1u8;
  let mut pending_bytes = 0usize;
  let mut partial = false;
  for e in hist {
    match *e {
      Eb::Push { len, msgs } => {
        let id = next_id;
        next_id += 1;
        eb.push(bytes::Bytes::from(vec![id; len]), msgs);
        chunks.push(Chunk { id, len, msgs, control: false, must_precede: vec![] });
        pending_bytes += len;
      }
      Eb::PushPriority => {
        let id = next_id;
        next_id += 1;
        // data chunks not yet started = pushed, and no byte of them on the wire yet
        let started: Vec<u8> = wire.clone();
        let not_started: Vec<u8> = chunks.iter().filter(|c| !c.control && !started.contains(&c.id)).map(|c| c.id).collect();
        eb.push_priority(bytes::Bytes::from(vec![id; 2]));
        chunks.push(Chunk { id, len: 2, msgs: 0, control: true, must_precede: not_started });
        pending_bytes += 2;
      }
      Eb::Advance(k) => {
        if k > pending_bytes {
          continue; // not enabled in this state
        }
        // what a writer would have written: the first k bytes of the gathered view
        let view: Vec<u8> = eb.gather(16).concat();
        if view.len() < k.min(pending_bytes) {
          return Err(("gather-shorter-than-pending".into(), format!("gather gives {} bytes, pending {}", view.len(), pending_bytes)));
        }
        if let Some(cs) = eb.current_slice() {
          if !view.starts_with(cs) {
            return Err(("current-slice-not-prefix-of-gather".into(), "".into()));
          }
        }
        wire.extend_from_slice(&view[..k]);
        eb.advance(k);
        pending_bytes -= k;
        partial = true;
      }
    }
    // counters
    if eb.total_pending_bytes() != pending_bytes {
      return Err(("pending-bytes-wrong".into(), format!("buffer says {}, reference {}", eb.total_pending_bytes(), pending_bytes)));
    }
    if eb.is_empty() != (pending_bytes == 0) {
      return Err(("is-empty-wrong".into(), format!("is_empty={} pending={}", eb.is_empty(), pending_bytes)));
    }
    // pending_messages = msgs of data chunks not completely written
    let mut done = std::collections::HashMap::new();
    for b in &wire {
      *done.entry(*b).or_insert(0usize) += 1;
    }
    let want_msgs: usize = chunks.iter().filter(|c| done.get(&c.id).copied().unwrap_or(0) < c.len).map(|c| c.msgs).sum();
    if eb.pending_messages() != want_msgs {
      return Err(("pending-messages-wrong".into(), format!("buffer says {}, reference {}", eb.pending_messages(), want_msgs)));
    }
  }
  // drain completely and judge the wire stream
  let rest: Vec<u8> = eb.gather(64).concat();
  wire.extend_from_slice(&rest);
  // (1) concatenation of whole chunks, each exactly once
  let mut runs: Vec<(u8, usize)> = vec![];
  for b in &wire {
    match runs.last_mut() {
      Some((id, n)) if *id == *b => *n += 1,
      _ => runs.push((*b, 1)),
    }
  }
  for c in &chunks {
    let occ: Vec<&(u8, usize)> = runs.iter().filter(|r| r.0 == c.id).collect();
    if occ.len() != 1 || occ[0].1 != c.len {
      return Err(("chunk-split-or-lost".into(), format!("chunk {} (len {}, control {}) appears as runs {:?} in wire {:?}", c.id, c.len, c.control, occ, wire)));
    }
  }
  // (2) a control chunk precedes every data chunk that had not started when it was queued
  let pos = |id: u8| runs.iter().position(|r| r.0 == id).unwrap();
  for c in chunks.iter().filter(|c| c.control) {
    for d in &c.must_precede {
      if pos(c.id) > pos(*d) {
        return Err(("control-frame-behind-unstarted-data".into(), format!("control chunk {} written after data chunk {} that had not started; wire {:?}", c.id, d, wire)));
      }
    }
  }
  // (3) data chunks keep their FIFO order
  let data_order: Vec<u8> = runs.iter().map(|r| r.0).filter(|id| chunks.iter().any(|c| c.id == *id && !c.control)).collect();
  let mut sorted = data_order.clone();
  sorted.sort_unstable();
  if data_order != sorted {
    return Err(("data-chunks-reordered".into(), format!("{:?}", data_order)));
  }
  Ok((mc_core::digest(&wire), partial && chunks.iter().any(|c| c.control)))
}

fn egress_sub(depth: usize) -> Sub {
  let mut sub = Sub::new("egress-buffer", "E1");
  let alpha = eb_alphabet();
  let n = alpha.len();
  let total: usize = (1..=depth).map(|d| n.pow(d as u32)).sum();
  sub.rule = "case = one history of push(len 1|3) / push_priority(len 2) / advance(k<=pending) on the real EgressBuffer, then drain; non-trivial = a control chunk was queued after a partial write; oracle: the byte stream is a concatenation of whole chunks each exactly once, data FIFO, every control chunk ahead of all data not yet started, counters exact".into();
  sub.bounds = json!({"depth": depth, "alphabet": format!("{:?}", alpha), "histories": total});
  par::enumerate(&mut sub, total, |mut idx| {
    let mut len = 1;
    let mut count = n;
    while idx >= count {
      idx -= count;
      len += 1;
      count *= n;
    }
    let mut hist = vec![alpha[0]; len];
    for i in (0..len).rev() {
      hist[i] = alpha[idx % n];
      idx /= n;
    }
    let mut c = Case { steps: len as u64, ..Default::default() };
    match mc_core::catch(|| eb_run(&hist)) {
      Ok(Ok((dg, nontrivial))) => {
        c.nontrivial = nontrivial;
        c.outcome = dg;
        c.state = dg;
      }
      Ok(Err((clause, detail))) => c.violations.push((clause, "egress".into(), detail, json!({"history": format!("{:?}", hist)}))),
      Err(msg) => c.violations.push(("panic".into(), mc_core::loc_of(&msg), msg, json!({"history": format!("{:?}", hist)}))),
    }
    if idx == 0 && len == depth {
      c.sample = Some(json!({"history": format!("{:?}", hist)}));
    }
    c
  });
  sub
}

pub fn run(tier: Tier) -> Report {
  let mut rep = Report::new("C19", tier, "model_checking");
  rep.assume("the engine stamps activity with Instant::now(); the harness overwrites the stamp with the scripted clock after each call (nothing in the same call reads it afterwards); time unit 10 s so real elapsed microseconds are negligible");
  rep.assume("any inbound frame after a PING ends the wait for its PONG (traffic proves liveness); a session closed at PING+TIMEOUT although traffic arrived in between is a violation");
  rep.assume("the actor's timer wiring (a tick every HEARTBEAT_IVL) is not part of the engine timelines; the 'no later than two intervals' clause follows from ping-not-sent-when-idle plus a tick every IVL");
  let d = tier.pick(6, 10);
  for (ivl, to) in [(2u32, 1u32), (2, 2), (2, 5)] {
    rep.add(timeline_sub(Kind::V3Null, ivl, to, d));
  }
  rep.add(timeline_sub(Kind::V2, 2, 1, d));
  rep.add(timeline_sub(Kind::Curve, 2, 2, tier.pick(5, 8)));
  rep.add(timeline_sub(Kind::Noise, 2, 2, tier.pick(5, 8)));
  rep.add(egress_sub(tier.pick(5, 7)));
  rep.add(crate::c19_real::stack_sub(tier));
  rep
}

pub fn replay(sub: &str, w: &Value) -> Result<String, String> {
  Err(format!("replay of {}: re-run ./check C19 (witness {})", sub, w))
}
