//! C11 — ROUTER addresses by true peer identity; envelopes round-trip unchanged.
//!
//! E1: BFS over add/update/remove/lookup histories on the real `RouterMap` with consistency
//! invariants between its two maps. E3: event scripts on a real ROUTER with DEALER/REQ/ROUTER peers
//! (configured, absent, 255-byte and colliding routing ids; held or released handshakes; payload
//! shapes with empty frames; ROUTER_MANDATORY on/off; disconnect and reconnect with the same id).

use crate::stack::{self, msg};
use mc_core::bfs::{bfs, Visit};
use mc_core::par::{self, Case};
use mc_core::world::{self, settle_n, Link};
use mc_core::{Report, Sub, Tier};
use rzmq::socket::options as o;
use rzmq::verif::patterns::RouterMapH;
use rzmq::{Context, Socket, SocketType, ZmqError};
use serde_json::{json, Value};
use std::collections::HashMap;

// ---------------------------------------------------------------------------------------------
// E1: RouterMap
// ---------------------------------------------------------------------------------------------

#[derive(Clone, Copy, Debug, PartialEq, Eq, Hash)]
enum MOp {
  Add(u8, usize),
  Update(usize, u8),
  RemovePipe(usize),
  RemoveId(u8),
}

fn idb(i: u8) -> Vec<u8> {
  match i {
    0 => b"A".to_vec(),
    1 => b"B".to_vec(),
    _ => b"pipe:1".to_vec(),
  }
}

fn map_sub(depth: usize) -> Sub {
  let mut sub = Sub::new("router-map", "E1");
  sub.rule = "state = history of add_peer / update_peer_identity / remove_by_pipe / remove_by_identity on the real RouterMap (3 identities incl. a placeholder, 2 pipes); key = snapshot of both maps; non-trivial = an identity collision or re-identification occurred; invariants: an identity never routes to a pipe that currently claims a different identity; after a pipe is removed nothing routes to it; the latest announcement of a pipe is routable unless a later peer took the same identity".into();
  let mut alpha = vec![];
  for id in 0..3u8 {
    for p in 1..=2usize {
      alpha.push(MOp::Add(id, p));
      alpha.push(MOp::Update(p, id));
    }
    alpha.push(MOp::RemoveId(id));
  }
  alpha.push(MOp::RemovePipe(1));
  alpha.push(MOp::RemovePipe(2));
  sub.bounds = json!({"depth": depth, "alphabet": alpha.len()});
  let alpha2 = alpha.clone();
  bfs(&mut sub, depth, 3_000_000, move |hist: &[MOp]| {
    let rt = tokio::runtime::Builder::new_current_thread().build().unwrap();
    let m = RouterMapH::new();
    let uri = |p: usize| format!("u{}", p);
    // reference: what each live pipe last announced; which pipe announced an identity last
    let mut claims: HashMap<usize, u8> = HashMap::new();
    let mut last_claimer: HashMap<u8, usize> = HashMap::new();
    let mut collided = false;
    let mut collided_ids: std::collections::HashSet<u8> = Default::default();
    rt.block_on(async {
      for op in hist {
        match *op {
          MOp::Add(id, p) => {
            m.add_peer(&idb(id), p, &uri(p)).await;
            if last_claimer.get(&id).map(|q| *q != p && claims.get(q) == Some(&id)).unwrap_or(false) {
              collided = true;
              collided_ids.insert(id);
            }
            claims.insert(p, id);
            last_claimer.insert(id, p);
          }
          MOp::Update(p, id) => {
            m.update_peer_identity(p, &idb(id), &uri(p), Some("DEALER")).await;
            if last_claimer.get(&id).map(|q| *q != p && claims.get(q) == Some(&id)).unwrap_or(false) {
              collided = true;
              collided_ids.insert(id);
            }
            claims.insert(p, id);
            last_claimer.insert(id, p);
          }
          MOp::RemovePipe(p) => {
            m.remove_by_pipe(p).await;
            claims.remove(&p);
          }
          MOp::RemoveId(id) => {
            m.remove_by_identity(&idb(id)).await;
            // the connection(s) that claimed it are considered gone for routing purposes
            claims.retain(|_, v| *v != id);
          }
        }
      }
    });
    let (fwd, rev) = m.snapshot();
    let mut violations = vec![];
    for (id, u) in &fwd {
      let p: usize = u[1..].parse().unwrap();
      // (A) forward entries must point at a pipe that claims that identity right now
      match claims.get(&p) {
        Some(c) if idb(*c) == *id => {}
        other => violations.push((
          "identity-routes-to-wrong-connection".into(),
          "router-map".into(),
          format!("identity {:?} routes to {} but that connection currently claims {:?} (forward {:?}, reverse {:?})", String::from_utf8_lossy(id), u, other.map(|c| String::from_utf8_lossy(&idb(*c)).to_string()), fwd, rev),
        )),
      }
    }
    // (C) the last claimer of an identity, if still alive and still claiming it, must be routable
    for (id, p) in &last_claimer {
      // identities that two live connections claimed at once are exempt (collision handling is unspecified)
      if claims.get(p) == Some(id) && !collided_ids.contains(id) {
        let routed = fwd.iter().find(|(i, _)| *i == idb(*id)).map(|(_, u)| u.clone());
        if routed != Some(uri(*p)) {
          violations.push((
            "announced-identity-not-routable".into(),
            "router-map".into(),
            format!("pipe {} announced {:?} last and is still attached, but the identity routes to {:?}", p, String::from_utf8_lossy(&idb(*id)), routed),
          ));
        }
      }
    }
    Visit { key: (fwd.clone(), rev.clone(), claims.iter().map(|(k, v)| (*k, *v)).collect::<std::collections::BTreeMap<_, _>>(), last_claimer.iter().map(|(k, v)| (*k, *v)).collect::<std::collections::BTreeMap<_, _>>()), enabled: alpha2.clone(), nontrivial: collided || hist.iter().any(|o| matches!(o, MOp::Update(..))), outcome: mc_core::digest(&(fwd, rev)), violations }
  });
  sub
}

// ---------------------------------------------------------------------------------------------
// E3: real ROUTER with peers
// ---------------------------------------------------------------------------------------------

#[derive(Clone, Copy, Debug, PartialEq, Eq, Hash)]
enum PeerKind {
  Dealer,
  Req,
  Router,
}

#[derive(Clone, Debug, PartialEq, Eq, Hash)]
struct PeerCfg {
  kind: PeerKind,
  /// None = anonymous
  id: Option<Vec<u8>>,
}

#[derive(Clone, Copy, Debug, PartialEq, Eq, Hash)]
enum Ev {
  /// attach peer p; held = the link lets only the signatures through (identity not yet announced)
  Connect(usize, bool),
  Release(usize),
  /// peer p sends a message with the given payload shape index
  PeerSend(usize, usize),
  RouterRecv,
  /// ROUTER sends shape to peer p's identity (configured id, or the placeholder it reported)
  RouterSend(usize, usize),
  RouterSendUnknown,
  Disconnect(usize),
}

const SHAPES: [&[usize]; 4] = [&[3], &[0], &[3, 0], &[0, 3, 0]];

fn shape_frames(tag: &str, shape: usize) -> Vec<Vec<u8>> {
  SHAPES[shape].iter().enumerate().map(|(i, l)| if *l == 0 { vec![] } else { format!("{}#{}", tag, i).into_bytes() }).collect()
}

#[derive(Debug, Default, Clone)]
struct Obs {
  /// (identity frame, payload frames) returned by ROUTER.recv_multipart, in order
  router_rx: Vec<(Vec<u8>, Vec<Vec<u8>>)>,
  /// per peer: payloads received
  peer_rx: Vec<Vec<Vec<Vec<u8>>>>,
  /// what each peer sent (payload frames), in order
  peer_tx: Vec<Vec<Vec<Vec<u8>>>>,
  /// connection epoch (how many times the peer had connected) of each entry of `peer_tx`
  peer_tx_epoch: Vec<Vec<usize>>,
  /// (target peer, payload, result) of router sends; target usize::MAX = unknown identity
  router_tx: Vec<(usize, Vec<Vec<u8>>, String)>,
  notes: Vec<String>,
}

fn run_script(peers: &[PeerCfg], mandatory: bool, script: &[Ev]) -> world::WorldResult<Obs> {
  let peers = peers.to_vec();
  let script = script.to_vec();
  world::run(1, move || async move {
    let ctx = Context::new().expect("context");
    let r = stack::mk(&ctx, SocketType::Router, &[(o::RCVTIMEO, 30), (o::SNDTIMEO, 100), (o::LINGER, 0)]).await;
    r.set_option(o::ROUTER_MANDATORY, mandatory as i32).await.unwrap();
    // the ROUTER under test announces an identity of its own so that ROUTER peers can address it
    if peers.iter().any(|p| p.kind == PeerKind::Router) {
      r.set_option(o::ROUTING_ID, &b"RUT"[..]).await.unwrap();
    }
    let n = peers.len();
    let mut socks: Vec<Option<Socket>> = (0..n).map(|_| None).collect();
    let mut links: Vec<Option<Link>> = (0..n).map(|_| None).collect();
    let mut obs = Obs { peer_rx: vec![vec![]; n], peer_tx: vec![vec![]; n], peer_tx_epoch: vec![vec![]; n], ..Default::default() };
    let mut epoch: Vec<usize> = vec![0; n];
    let mut placeholder: Vec<Option<Vec<u8>>> = vec![None; n];
    let mut seq = 0usize;
    async fn drain_peer(kind: PeerKind, s: &Socket, into: &mut Vec<Vec<Vec<u8>>>) {
      loop {
        match s.recv_multipart().await {
          Ok(fr) => {
            let mut f: Vec<Vec<u8>> = fr.iter().map(|m| m.data().unwrap_or(&[]).to_vec()).collect();
            if kind == PeerKind::Router && !f.is_empty() {
              f.remove(0); // the peer ROUTER prepends the sender identity
            }
            into.push(f);
          }
          Err(_) => break,
        }
      }
    }
    for e in &script {
      match *e {
        Ev::Connect(p, held) => {
          epoch[p] += 1;
          if socks[p].is_none() {
            let ty = match peers[p].kind {
              PeerKind::Dealer => SocketType::Dealer,
              PeerKind::Req => SocketType::Req,
              PeerKind::Router => SocketType::Router,
            };
            let s = stack::mk(&ctx, ty, &[(o::RCVTIMEO, 20), (o::SNDTIMEO, 100), (o::LINGER, 0)]).await;
            if let Some(id) = &peers[p].id {
              s.set_option(o::ROUTING_ID, &id[..]).await.unwrap();
            }
            let l = stack::link_pair(&s, &r, 1 << 16).await;
            if held {
              l.hold_both();
              l.allow(mc_core::world::Way::AtoB, 10);
              l.allow(mc_core::world::Way::BtoA, 10);
            }
            socks[p] = Some(s);
            links[p] = Some(l);
          }
        }
        Ev::Release(p) => {
          if let Some(l) = &links[p] {
            l.release_both();
          }
        }
        Ev::PeerSend(p, shape) => {
          if let Some(s) = &socks[p] {
            let tag = format!("p{}m{}", p, seq);
            seq += 1;
            let mut frames = shape_frames(&tag, shape);
            let res = match peers[p].kind {
              PeerKind::Req => {
                // REQ sends single-frame requests
                frames.truncate(1);
                s.send(msg(&frames[0], false)).await
              }
              PeerKind::Router => {
                // a ROUTER peer addresses us by the identity we announced; no delimiter is added or
                // removed between two ROUTERs, so every payload frame (leading empty ones too) must arrive
                let nfr = frames.len();
                let mut out = vec![msg(b"RUT", true)];
                out.extend(frames.iter().enumerate().map(|(i, f)| msg(f, i + 1 < nfr)));
                s.send_multipart(out).await
              }
              PeerKind::Dealer => {
                let nfr = frames.len();
                s.send_multipart(frames.iter().enumerate().map(|(i, f)| msg(f, i + 1 < nfr)).collect()).await
              }
            };
            if res.is_ok() {
              obs.peer_tx[p].push(frames);
              obs.peer_tx_epoch[p].push(epoch[p]);
            }
          }
        }
        Ev::RouterRecv => {
          if let Ok(fr) = r.recv_multipart().await {
            let mut f: Vec<Vec<u8>> = fr.iter().map(|m| m.data().unwrap_or(&[]).to_vec()).collect();
            let id = if f.is_empty() { vec![] } else { f.remove(0) };
            // learn placeholders: the payload names its true origin
            if let Some(first) = f.iter().find(|x| !x.is_empty()) {
              if let Some(pn) = std::str::from_utf8(first).ok().and_then(|s| s.strip_prefix('p')).and_then(|s| s.split('m').next()).and_then(|s| s.parse::<usize>().ok()) {
                if pn < n && peers[pn].id.is_none() {
                  placeholder[pn] = Some(id.clone());
                }
              }
            }
            obs.router_rx.push((id, f));
          }
        }
        Ev::RouterSend(p, shape) => {
          let target = peers[p].id.clone().or(placeholder[p].clone());
          if let Some(id) = target {
            let tag = format!("r{}", seq);
            seq += 1;
            let frames = shape_frames(&tag, shape);
            let nfr = frames.len();
            let mut v = vec![msg(&id, true)];
            v.extend(frames.iter().enumerate().map(|(i, f)| msg(f, i + 1 < nfr)));
            let res = r.send_multipart(v).await;
            obs.router_tx.push((p, frames, match &res {
              Ok(()) => "ok".into(),
              Err(ZmqError::HostUnreachable(_)) => "host-unreachable".into(),
              Err(e) => format!("err:{}", e),
            }));
          }
        }
        Ev::RouterSendUnknown => {
          let res = r.send_multipart(vec![msg(b"nobody", true), msg(b"x", false)]).await;
          obs.router_tx.push((usize::MAX, vec![b"x".to_vec()], match &res {
            Ok(()) => "ok".into(),
            Err(ZmqError::HostUnreachable(_)) => "host-unreachable".into(),
            Err(e) => format!("err:{}", e),
          }));
        }
        Ev::Disconnect(p) => {
          if let Some(s) = socks[p].take() {
            drain_peer(peers[p].kind, &s, &mut obs.peer_rx[p]).await;
            let _ = s.close().await;
            links[p] = None;
          }
        }
      }
      settle_n(3).await;
    }
    // final drain
    for l in links.iter().flatten() {
      l.release_both();
    }
    settle_n(4).await;
    loop {
      match r.recv_multipart().await {
        Ok(fr) => {
          let mut f: Vec<Vec<u8>> = fr.iter().map(|m| m.data().unwrap_or(&[]).to_vec()).collect();
          let id = if f.is_empty() { vec![] } else { f.remove(0) };
          obs.router_rx.push((id, f));
        }
        Err(_) => break,
      }
    }
    for p in 0..n {
      if let Some(s) = &socks[p] {
        drain_peer(peers[p].kind, s, &mut obs.peer_rx[p]).await;
      }
    }
    let _ = tokio::time::timeout(std::time::Duration::from_secs(30), ctx.term()).await;
    obs
  })
}

fn judge(peers: &[PeerCfg], mandatory: bool, script: &[Ev], obs: &Obs) -> Vec<(String, String, String)> {
  let mut v = vec![];
  let class = format!("{}peers:mandatory{}", peers.len(), mandatory as u8);
  let colliding = peers.len() > 1 && peers[0].id.is_some() && peers[0].id == peers[1].id;
  // ---- inbound: identity prefix is the announced identity of the true origin; payload unchanged ----
  let mut per_peer_seen: Vec<Vec<Vec<Vec<u8>>>> = vec![vec![]; peers.len()];
  let mut placeholders: HashMap<usize, Vec<u8>> = HashMap::new();
  for (id, payload) in &obs.router_rx {
    let origin = payload.iter().find(|x| !x.is_empty()).and_then(|f| std::str::from_utf8(f).ok()).and_then(|s| s.strip_prefix('p')).and_then(|s| s.split('m').next()).and_then(|s| s.parse::<usize>().ok());
    let Some(pn) = origin else {
      // all-empty payload: origin unknown from content; match by identity where configured
      continue;
    };
    if pn >= peers.len() {
      v.push(("phantom-message".into(), class.clone(), format!("ROUTER returned a message nobody sent: {:?}", payload)));
      continue;
    }
    per_peer_seen[pn].push(payload.clone());
    match &peers[pn].id {
      Some(cfg_id) => {
        if id != cfg_id {
          v.push((
            "wrong-identity-prefix".into(),
            format!("{}:{:?}", class, peers[pn].kind),
            format!("message from peer {} (announced identity {:?}, {} bytes) was delivered with identity {:?}; script {:?}", pn, String::from_utf8_lossy(&cfg_id[..cfg_id.len().min(8)]), cfg_id.len(), String::from_utf8_lossy(&id[..id.len().min(16)]), script),
          ));
        }
      }
      None => {
        // anonymous: a placeholder, stable per connection epoch, and never another peer's identity
        if peers.iter().any(|q| q.id.as_ref() == Some(id)) {
          v.push(("wrong-identity-prefix".into(), format!("{}:anonymous", class), format!("anonymous peer {}'s message carries another peer's identity {:?}", pn, String::from_utf8_lossy(id))));
        }
        placeholders.entry(pn).or_insert(id.clone());
      }
    }
  }
  // payload integrity inbound: everything ROUTER returned from p is something p sent, at most once,
  // and in sending order within one connection of p (a peer that reconnects is a new connection:
  // what its old connection had delivered and what the new one sends are fair-queued, not ordered)
  for (pn, seen) in per_peer_seen.iter().enumerate() {
    let sent = &obs.peer_tx[pn];
    let epochs = &obs.peer_tx_epoch[pn];
    let mut last_idx_in_epoch: HashMap<usize, usize> = HashMap::new();
    let mut used = vec![false; sent.len()];
    for s in seen {
      let idx = (0..sent.len()).find(|i| !used[*i] && &sent[*i] == s);
      let Some(i) = idx else {
        v.push(("inbound-payload-changed".into(), format!("{}:{:?}", class, peers[pn].kind), format!("ROUTER returned payload {:?} from peer {} which sent {:?} (not sent, or returned twice)", s, pn, sent)));
        break;
      };
      used[i] = true;
      let e = epochs.get(i).cloned().unwrap_or(0);
      if let Some(prev) = last_idx_in_epoch.get(&e) {
        if *prev > i {
          v.push(("inbound-payload-changed".into(), format!("{}:{:?}", class, peers[pn].kind), format!("ROUTER returned payload {:?} of peer {} after a later message of the same connection; it sent {:?}", s, pn, sent)));
          break;
        }
      }
      last_idx_in_epoch.insert(e, i);
    }
  }
  // ---- outbound ----
  for (target, payload, result) in &obs.router_tx {
    if *target == usize::MAX {
      if mandatory && result != "host-unreachable" {
        v.push(("unroutable-not-reported".into(), class.clone(), format!("send to an identity nobody announced returned {} with ROUTER_MANDATORY=1", result)));
      }
      if !mandatory && result != "ok" {
        v.push(("unroutable-not-dropped-silently".into(), class.clone(), format!("send to an identity nobody announced returned {} with ROUTER_MANDATORY=0", result)));
      }
      continue;
    }
    // the message must not show up at any peer other than the target (or its identity twin)
    for (q, rx) in obs.peer_rx.iter().enumerate() {
      let twin = peers[q].id.is_some() && peers[q].id == peers[*target].id;
      if q != *target && !twin && rx.iter().any(|m| m == payload && payload.iter().any(|f| !f.is_empty())) {
        v.push(("delivered-to-wrong-peer".into(), class.clone(), format!("message {:?} addressed to peer {} arrived at peer {}; script {:?}", payload, target, q, script)));
      }
    }
    if result == "ok" && !colliding {
      // delivered intact if the target was connected through the end of the script
      let still_connected = !script.iter().any(|e| *e == Ev::Disconnect(*target));
      let arrived = obs.peer_rx[*target].iter().any(|m| m == payload);
      if still_connected && mandatory && !arrived && peers[*target].kind == PeerKind::Dealer {
        v.push(("outbound-payload-changed-or-lost".into(), format!("{}:{:?}", class, peers[*target].kind), format!("ROUTER.send_multipart({:?}) to peer {} returned ok but the peer received {:?}", payload, target, obs.peer_rx[*target])));
      }
    }
  }
  v
}

fn peer_sets(tier: Tier) -> Vec<Vec<PeerCfg>> {
  let d = |id: Option<&[u8]>| PeerCfg { kind: PeerKind::Dealer, id: id.map(|x| x.to_vec()) };
  let big = vec![b'Z'; 255];
  let mut v = vec![
    vec![d(Some(b"A"))],
    vec![d(None)],
    vec![d(Some(&big))],
    vec![d(Some(b"A")), d(Some(b"B"))],
    vec![d(Some(b"A")), d(None)],
    vec![d(Some(b"A")), d(Some(b"A"))],
    vec![PeerCfg { kind: PeerKind::Req, id: Some(b"Q".to_vec()) }, d(Some(b"B"))],
    vec![PeerCfg { kind: PeerKind::Router, id: Some(b"R2".to_vec()) }],
  ];
  if tier == Tier::Thorough {
    v.push(vec![d(None), d(None)]);
    v.push(vec![PeerCfg { kind: PeerKind::Req, id: None }]);
    v.push(vec![PeerCfg { kind: PeerKind::Router, id: Some(b"R2".to_vec()) }, d(Some(b"A"))]);
  }
  v
}

fn scripts(npeers: usize, depth: usize) -> Vec<Vec<Ev>> {
  let mut alpha = vec![Ev::RouterRecv, Ev::RouterSendUnknown];
  for p in 0..npeers {
    alpha.extend([Ev::Connect(p, false), Ev::Connect(p, true), Ev::Release(p), Ev::PeerSend(p, 0), Ev::PeerSend(p, 3), Ev::RouterSend(p, 0), Ev::RouterSend(p, 2), Ev::Disconnect(p)]);
  }
  let mut out = vec![];
  let mut level: Vec<Vec<Ev>> = vec![vec![]];
  for _ in 0..depth {
    let mut next = vec![];
    for s in &level {
      for a in &alpha {
        // prune scripts that cannot do anything: first event must be a connect; sends need a connect before
        let connected = |p: usize, s: &Vec<Ev>| {
          let mut c = false;
          for e in s {
            match e {
              Ev::Connect(q, _) if *q == p => c = true,
              Ev::Disconnect(q) if *q == p => c = false,
              _ => {}
            }
          }
          c
        };
        let ok = match a {
          Ev::Connect(p, _) => !connected(*p, s),
          Ev::Release(p) => connected(*p, s) && s.iter().any(|e| *e == Ev::Connect(*p, true)) && !s.iter().any(|e| *e == Ev::Release(*p)),
          Ev::PeerSend(p, _) | Ev::Disconnect(p) => connected(*p, s),
          Ev::RouterSend(_, _) | Ev::RouterRecv | Ev::RouterSendUnknown => s.iter().any(|e| matches!(e, Ev::Connect(..))),
        };
        if ok {
          let mut s2 = s.clone();
          s2.push(*a);
          next.push(s2);
        }
      }
    }
    out.extend(next.iter().filter(|s| s.iter().any(|e| matches!(e, Ev::PeerSend(..) | Ev::RouterSend(..) | Ev::RouterSendUnknown))).cloned());
    level = next;
  }
  out
}

pub fn run(tier: Tier) -> Report {
  let mut rep = Report::new("C11", tier, "model_checking");
  rep.assume("the oracle does not require an identity claimed by two live peers to stay routable to either (collision handling is unspecified); it requires that nothing is delivered to a peer that did not announce the addressed identity");
  rep.assume("payloads name their true origin, so the harness knows which connection a message really came from independently of the identity frame");
  rep.add(map_sub(tier.pick(5, 7)));
  let mut work: Vec<(Vec<PeerCfg>, bool, Vec<Ev>)> = vec![];
  for ps in peer_sets(tier) {
    let depth = if ps.len() == 1 { tier.pick(4, 7) } else { tier.pick(3, 5) };
    for sc in scripts(ps.len(), depth) {
      for mandatory in [true, false] {
        work.push((ps.clone(), mandatory, sc.clone()));
      }
    }
  }
  let mut sub = Sub::new("router-scripts", "E3");
  sub.rule = "case = one world: a real ROUTER, 1-2 real peers (DEALER/REQ/ROUTER; configured, anonymous, 255-byte or colliding routing ids), one event script over {connect (handshake held or not), release, peer sends, ROUTER recv, ROUTER send to a peer's identity, send to an unknown identity, disconnect} with quiescence after every event, then a full drain; non-trivial = traffic flowed in some direction; oracle: identity prefix = announced identity of the true origin, payload frames unchanged, nothing delivered to a peer that did not announce the addressed identity, unroutable -> HostUnreachable iff ROUTER_MANDATORY".into();
  sub.bounds = json!({"worlds": work.len(), "peer_sets": peer_sets(tier).len(), "depth_1peer": tier.pick(4, 7), "depth_2peers": tier.pick(3, 5)});
  par::enumerate(&mut sub, work.len(), |i| {
    let (ps, mandatory, sc) = &work[i];
    let r = run_script(ps, *mandatory, sc);
    let wit = json!({"explorer": "e3", "peers": format!("{:?}", ps.iter().map(|p| (p.kind, p.id.as_ref().map(|x| x.len()))).collect::<Vec<_>>()), "mandatory": mandatory, "script": format!("{:?}", sc)});
    let mut c = Case { steps: sc.len() as u64 + 2, ..Default::default() };
    for p in &r.panics {
      c.violations.push(("panic".into(), p.rsplit(" @ ").next().map(mc_core::short_loc).unwrap_or_default(), p.clone(), wit.clone()));
    }
    if let Some(obs) = r.result {
      c.nontrivial = !obs.router_rx.is_empty() || obs.peer_rx.iter().any(|x| !x.is_empty());
      c.outcome = mc_core::digest(&(obs.router_rx.len(), obs.router_tx.iter().map(|t| t.2.clone()).collect::<Vec<_>>()));
      c.state = mc_core::digest(&(obs.router_rx.len(), obs.peer_rx.iter().map(|x| x.len()).collect::<Vec<_>>(), obs.router_tx.len()));
      if r.panics.is_empty() {
        for (clause, class, detail) in judge(ps, *mandatory, sc, &obs) {
          c.violations.push((clause, class, detail, wit.clone()));
        }
      }
      if i % 4999 == 0 {
        c.sample = Some(json!({"case": wit, "router_received": obs.router_rx.len()}));
      }
    }
    c
  });
  rep.add(sub);
  rep
}

pub fn replay(sub: &str, w: &Value) -> Result<String, String> {
  Err(format!("replay of {}: re-run ./check C11 (witness {})", sub, w))
}
