//! Helpers shared by the property modules.
#![allow(dead_code)]

use bytes::Bytes;
use rzmq::{FrameBatch, Msg, MsgFlags};

/// Deterministic payload of `len` bytes that encodes its own identity (so misrouted / shifted /
/// truncated bytes are detected): byte i = (tag * 31 + i * 7 + len) mod 251.
pub fn payload(tag: u32, len: usize) -> Vec<u8> {
  let mut v = Vec::with_capacity(len);
  let base = tag.wrapping_mul(31).wrapping_add(len as u32);
  for i in 0..len {
    v.push(((base as usize).wrapping_add(i * 7) % 251) as u8);
  }
  v
}

pub fn msg(data: Vec<u8>, more: bool, command: bool) -> Msg {
  let mut m = Msg::from_bytes(Bytes::from(data));
  let mut f = MsgFlags::empty();
  if more {
    f |= MsgFlags::MORE;
  }
  if command {
    f |= MsgFlags::COMMAND;
  }
  m.set_flags(f);
  m
}

/// (payload, more, command) view of a message, for comparisons.
pub type FrameSpec = (Vec<u8>, bool, bool);

pub fn spec_of(m: &Msg) -> FrameSpec {
  (m.data().unwrap_or(&[]).to_vec(), m.is_more(), m.is_command())
}

pub fn batch_of(frames: &[FrameSpec]) -> FrameBatch {
  let mut b = FrameBatch::new();
  for (d, more, cmd) in frames {
    b.push(msg(d.clone(), *more, *cmd));
  }
  b
}

/// Reference ZMTP 3.x frame encoder written from the spec (independent of rzmq's encoders).
pub fn spec_encode(frames: &[FrameSpec]) -> Vec<u8> {
  let mut out = vec![];
  for (d, more, cmd) in frames {
    let mut fl = 0u8;
    if *more {
      fl |= 0x01;
    }
    if *cmd {
      fl |= 0x04;
    }
    if d.len() <= 255 {
      out.push(fl);
      out.push(d.len() as u8);
    } else {
      out.push(fl | 0x02);
      out.extend_from_slice(&(d.len() as u64).to_be_bytes());
    }
    out.extend_from_slice(d);
  }
  out
}

pub fn hex(b: &[u8]) -> String {
  let n = b.len().min(48);
  let mut s: String = b[..n].iter().map(|x| format!("{:02x}", x)).collect();
  if b.len() > n {
    s.push_str(&format!("..(+{})", b.len() - n));
  }
  s
}

/// All compositions of n (ordered ways to split n items into consecutive non-empty groups),
/// returned as lists of group sizes; 2^(n-1) of them.
pub fn compositions(n: usize) -> Vec<Vec<usize>> {
  if n == 0 {
    return vec![vec![]];
  }
  let mut out = vec![];
  for mask in 0..(1usize << (n - 1)) {
    let mut groups = vec![];
    let mut cur = 1;
    for i in 0..n - 1 {
      if mask & (1 << i) != 0 {
        groups.push(cur);
        cur = 1;
      } else {
        cur += 1;
      }
    }
    groups.push(cur);
    out.push(groups);
  }
  out
}

/// Cut a byte stream at the given sorted positions into chunks.
pub fn cut(bytes: &[u8], cuts: &[usize]) -> Vec<Vec<u8>> {
  let mut out = vec![];
  let mut prev = 0;
  for &c in cuts {
    if c > prev && c < bytes.len() {
      out.push(bytes[prev..c].to_vec());
      prev = c;
    }
  }
  out.push(bytes[prev..].to_vec());
  out
}
