//! C08 — a receiver never sleeps while a message is queued for it (no lost wake-ups).
//!
//! E2: small harnesses on the real `ReadyPipeQueue` / ingress engines (real fibre channels, real
//! atomics), every schedule with at most b preemptions, switch points between every individual
//! queue/counter step (verif::sched hooks) and at every `Pending`.

use mc_core::e2::{self, E2Cfg, Harness};
use mc_core::{Report, Sub, Tier};
use rzmq::verif::patterns::{AnonIngress, Rpq, RpqSender, Trie};
use rzmq::{FrameBatch, Msg};
use serde_json::{json, Value};
use shuttle::future::{block_on, spawn};
use std::collections::VecDeque;
use std::future::Future;
use std::pin::Pin;
use std::sync::atomic::{AtomicUsize, Ordering};
use std::sync::Arc;
use std::task::{Context, Poll};
use std::time::Duration;

/// Item = pipe * 100 + sequence number.
fn item(pipe: usize, seq: usize) -> u32 {
  (pipe * 100 + seq) as u32
}

#[derive(Clone, Copy, Debug)]
pub enum SendMode {
  Async,
  Try,
  Batch,
}

/// Producer body: pushes `n` items on its pipe with the given mode (falling back to the async send
/// when the pipe is full, as the session's ingress driver does).
async fn produce(tx: RpqSender<u32>, pipe: usize, n: usize, mode: SendMode) {
  match mode {
    SendMode::Async => {
      for i in 0..n {
        tx.send(item(pipe, i)).await.expect("send on a registered pipe");
      }
    }
    SendMode::Try => {
      for i in 0..n {
        match tx.try_send(item(pipe, i)) {
          Ok(()) => {}
          Err(Some(back)) => tx.send(back).await.expect("send on a registered pipe"),
          Err(None) => panic!("pipe closed"),
        }
      }
    }
    SendMode::Batch => {
      let mut dq: VecDeque<u32> = (0..n).map(|i| item(pipe, i)).collect();
      let _ = tx.try_send_batch(&mut dq);
      while let Some(x) = dq.pop_front() {
        tx.send(x).await.expect("send on a registered pipe");
      }
    }
  }
}

/// Quiescence oracle on one pipe: counters agree with the channel, nothing left.
fn check_slot(q: &Rpq<u32>, pipe: usize, expect_left: usize) {
  if let Some((queued, reserved, len)) = q.slot_counts(pipe) {
    e2::check(queued == len && reserved == queued && len == expect_left, "counters-inconsistent-at-quiescence", "slot", || {
      format!("pipe {}: queued_count={} reserved_count={} channel_len={} expected_left={}", pipe, queued, reserved, len, expect_left)
    });
  }
}

fn check_fifo(got: &[(usize, u32)], pipes: &[(usize, usize)]) {
  // exactly-once + per-pipe FIFO
  for &(pipe, n) in pipes {
    let seq: Vec<u32> = got.iter().filter(|g| g.0 == pipe).map(|g| g.1).collect();
    let want: Vec<u32> = (0..n).map(|i| item(pipe, i)).collect();
    e2::check(seq == want, "popped-sequence-wrong", "fifo", || format!("pipe {}: popped {:?}, committed {:?}", pipe, seq, want));
  }
  e2::check(got.len() == pipes.iter().map(|p| p.1).sum::<usize>(), "popped-count-wrong", "count", || format!("popped {:?}", got));
}

// ---- F1: one pipe, one producer, one blocking consumer -------------------------------------------

fn f1(n: usize, cap: usize, mode: SendMode) -> impl Fn() + Send + Sync + 'static {
  move || {
    let q = Arc::new(Rpq::<u32>::new(4));
    let tx = q.register(1, cap, 0);
    let p = spawn(produce(tx, 1, n, mode));
    let qc = q.clone();
    let c = spawn(async move {
      let mut got = vec![];
      for _ in 0..n {
        got.push(qc.pop().await.expect("queue open"));
      }
      got
    });
    let got = block_on(c).unwrap();
    block_on(p).unwrap();
    check_fifo(&got, &[(1, n)]);
    check_slot(&q, 1, 0);
    e2::check(q.ready_len() <= 1, "ready-list-overfull", "ready", || format!("{} tokens for 1 pipe", q.ready_len()));
    if cap < n {
      e2::nontrivial();
    }
    e2::outcome(mc_core::digest(&got));
  }
}

// ---- F2: two pipes, two producers with mixed paths, one consumer ----------------------------------

fn f2(n1: usize, m1: SendMode, n2: usize, m2: SendMode, cap: usize) -> impl Fn() + Send + Sync + 'static {
  move || {
    let q = Arc::new(Rpq::<u32>::new(4));
    let t1 = q.register(1, cap, 0);
    let t2 = q.register(2, cap, 0);
    let p1 = spawn(produce(t1, 1, n1, m1));
    let p2 = spawn(produce(t2, 2, n2, m2));
    let qc = q.clone();
    let c = spawn(async move {
      let mut got = vec![];
      for _ in 0..(n1 + n2) {
        got.push(qc.pop().await.expect("queue open"));
      }
      got
    });
    let got = block_on(c).unwrap();
    block_on(p1).unwrap();
    block_on(p2).unwrap();
    check_fifo(&got, &[(1, n1), (2, n2)]);
    check_slot(&q, 1, 0);
    check_slot(&q, 2, 0);
    e2::check(q.ready_len() <= 2, "ready-list-overfull", "ready", || format!("{} tokens for 2 pipes", q.ready_len()));
    e2::nontrivial();
    e2::outcome(mc_core::digest(&got));
  }
}

// ---- F3: two consumers (blocking pop + non-blocking try_pop loop) ---------------------------------

fn f3(n1: usize, n2: usize, cap: usize) -> impl Fn() + Send + Sync + 'static {
  move || {
    let total = n1 + n2;
    let q = Arc::new(Rpq::<u32>::new(4));
    let t1 = q.register(1, cap, 0);
    let t2 = q.register(2, cap, 0);
    let p1 = spawn(produce(t1, 1, n1, SendMode::Async));
    let p2 = spawn(produce(t2, 2, n2, SendMode::Try));
    let taken = Arc::new(AtomicUsize::new(0));
    let (qa, ta) = (q.clone(), taken.clone());
    // A: blocking pop until the queue is closed
    let a = spawn(async move {
      let mut got = vec![];
      loop {
        match qa.pop().await {
          Ok(x) => {
            got.push(x);
            ta.fetch_add(1, Ordering::SeqCst);
          }
          Err(_) => break,
        }
      }
      got
    });
    let (qb, tb) = (q.clone(), taken.clone());
    // B: polls with try_pop (RCVTIMEO=0 style) and closes the queue once everything was taken
    let b = spawn(async move {
      let mut got = vec![];
      loop {
        if tb.load(Ordering::SeqCst) >= total {
          break;
        }
        match qb.try_pop() {
          Some(x) => {
            got.push(x);
            tb.fetch_add(1, Ordering::SeqCst);
          }
          None => e2::hook_spin("c08.try_pop.retry"),
        }
      }
      qb.close();
      got
    });
    let gb = block_on(b).unwrap();
    let ga = block_on(a).unwrap();
    block_on(p1).unwrap();
    block_on(p2).unwrap();
    let mut all: Vec<(usize, u32)> = ga.iter().chain(gb.iter()).copied().collect();
    // exactly once overall; per pipe each consumer sees increasing sequence numbers
    for g in [&ga, &gb] {
      for pipe in [1usize, 2] {
        let s: Vec<u32> = g.iter().filter(|x| x.0 == pipe).map(|x| x.1).collect();
        let mut sorted = s.clone();
        sorted.sort_unstable();
        e2::check(s == sorted, "per-consumer-order-wrong", "fifo", || format!("pipe {} seen as {:?}", pipe, s));
      }
    }
    all.sort();
    let mut want: Vec<(usize, u32)> = (0..n1).map(|i| (1, item(1, i))).chain((0..n2).map(|i| (2, item(2, i)))).collect();
    want.sort();
    e2::check(all == want, "popped-multiset-wrong", "count", || format!("popped {:?} want {:?}", all, want));
    e2::nontrivial();
    e2::outcome(mc_core::digest(&(ga, gb)));
  }
}

// ---- F4: a blocked pop is cancelled at its k-th Pending, then a fresh pop drains ------------------

/// Polls the inner future; at the k-th `Pending` it drops it and resolves to None.
pub struct CancelAt<F: Future> {
  inner: Option<Pin<Box<F>>>,
  pendings_left: usize,
}

impl<F: Future> CancelAt<F> {
  pub fn new(f: F, k: usize) -> Self {
    CancelAt { inner: Some(Box::pin(f)), pendings_left: k }
  }
}

impl<F: Future> Future for CancelAt<F> {
  type Output = Option<F::Output>;
  fn poll(mut self: Pin<&mut Self>, cx: &mut Context<'_>) -> Poll<Self::Output> {
    let this = &mut *self;
    let Some(inner) = this.inner.as_mut() else { return Poll::Ready(None) };
    match inner.as_mut().poll(cx) {
      Poll::Ready(v) => {
        this.inner = None;
        Poll::Ready(Some(v))
      }
      Poll::Pending => {
        this.pendings_left -= 1;
        if this.pendings_left == 0 {
          this.inner = None; // drop = cancel
          Poll::Ready(None)
        } else {
          Poll::Pending
        }
      }
    }
  }
}

impl<F: Future> Unpin for CancelAt<F> {}

fn f4(n: usize, cap: usize, k: usize, mode: SendMode) -> impl Fn() + Send + Sync + 'static {
  move || {
    let q = Arc::new(Rpq::<u32>::new(4));
    let tx = q.register(1, cap, 0);
    let p = spawn(produce(tx, 1, n, mode));
    let qc = q.clone();
    let c = spawn(async move {
      let mut got = vec![];
      // first pop may be cancelled (a timeout firing / select! picking another branch)
      if let Some(r) = CancelAt::new(qc.pop(), k).await {
        got.push(r.expect("queue open"));
      }
      while got.len() < n {
        got.push(qc.pop().await.expect("queue open"));
      }
      got
    });
    let got = block_on(c).unwrap();
    block_on(p).unwrap();
    check_fifo(&got, &[(1, n)]);
    check_slot(&q, 1, 0);
    e2::nontrivial();
    e2::outcome(mc_core::digest(&got));
  }
}

// ---- F5: deregister / re-register / close racing with send and pop --------------------------------

fn f5(variant: u8) -> impl Fn() + Send + Sync + 'static {
  move || {
    let q = Arc::new(Rpq::<u32>::new(4));
    let t1 = q.register(1, 2, 0);
    let t2 = q.register(2, 2, 0);
    let n1 = 2usize;
    let p1 = spawn(produce(t1, 1, n1, SendMode::Async));
    // pipe 2's producer tolerates its pipe going away
    let p2 = spawn(async move {
      let _ = t2.send(item(2, 0)).await;
      let _ = t2.try_send(item(2, 1));
    });
    let qd = q.clone();
    let d = spawn(async move {
      match variant {
        0 => qd.deregister(2),
        1 => {
          qd.deregister(2);
          let t = qd.register(2, 2, 0);
          let _ = t.try_send(item(2, 7));
        }
        _ => qd.deregister(2),
      }
    });
    let qc = q.clone();
    let c = spawn(async move {
      let mut got = vec![];
      // everything pipe 1 commits must arrive; pipe 2 items may or may not
      while got.iter().filter(|g: &&(usize, u32)| g.0 == 1).count() < n1 {
        got.push(qc.pop().await.expect("queue open"));
      }
      got
    });
    let got = block_on(c).unwrap();
    block_on(p1).unwrap();
    block_on(p2).unwrap();
    block_on(d).unwrap();
    let s1: Vec<u32> = got.iter().filter(|g| g.0 == 1).map(|g| g.1).collect();
    e2::check(s1 == vec![item(1, 0), item(1, 1)], "popped-sequence-wrong", "fifo", || format!("pipe 1 popped {:?}", s1));
    let mut s2: Vec<u32> = got.iter().filter(|g| g.0 == 2).map(|g| g.1).collect();
    let before = s2.len();
    s2.dedup();
    e2::check(s2.len() == before, "duplicate-delivery", "dup", || format!("pipe 2 popped {:?}", s2));
    check_slot(&q, 1, 0);
    if variant == 2 {
      // close: later pops must not block (they may still hand out tokens that were already queued)
      q.close();
      let mut n = 0;
      while block_on(q.pop()).is_ok() {
        n += 1;
        e2::check(n <= 4, "pop-after-close-keeps-returning", "close", || "more items than were ever sent".to_string());
      }
    }
    e2::nontrivial();
    e2::outcome(mc_core::digest(&got));
  }
}

// ---- F6: filtered batch path (SUB ingress) through the anonymous ingress engine -------------------

fn topic_batch(topic: &[u8], seq: u8) -> FrameBatch {
  let mut b = FrameBatch::new();
  let mut v = topic.to_vec();
  v.push(seq);
  b.push(Msg::from_vec(v));
  b
}

fn f6(cap: usize, use_async_tail: bool) -> impl Fn() + Send + Sync + 'static {
  move || {
    let trie = Trie::new();
    trie.subscribe(b"a");
    let ing = Arc::new(AnonIngress::new(4));
    let tx = ing.register_filtered(1, cap, &trie, 0);
    let p = spawn(async move {
      let mut dq: VecDeque<FrameBatch> = VecDeque::new();
      dq.push_back(topic_batch(b"a", 0));
      dq.push_back(topic_batch(b"b", 1)); // filtered out
      dq.push_back(topic_batch(b"a", 2));
      let _ = tx.try_send_batch(&mut dq);
      while let Some(b) = dq.pop_front() {
        if use_async_tail {
          tx.send(b).await.expect("pipe open");
        } else {
          let mut b = Some(b);
          loop {
            match tx.try_send_sync(b.take().unwrap()) {
              Ok(()) => break,
              Err(Some(back)) => {
                b = Some(back);
                e2::hook_spin("c08.f6.try_send.retry");
              }
              Err(None) => panic!("closed"),
            }
          }
        }
      }
    });
    let ic = ing.clone();
    let c = spawn(async move {
      let mut got = vec![];
      for _ in 0..2 {
        let b = ic.recv_multipart(None).await.expect("ingress open");
        got.push(b[0].data().unwrap().to_vec());
      }
      got
    });
    let got = block_on(c).unwrap();
    block_on(p).unwrap();
    e2::check(got == vec![b"a\x00".to_vec(), b"a\x02".to_vec()], "popped-sequence-wrong", "filtered", || format!("got {:?}", got));
    e2::nontrivial();
    e2::outcome(mc_core::digest(&got));
  }
}

// ---- F6b: filtered batch pushed into a pipe that already holds a message, consumer draining meanwhile --

fn f6b(cap: usize, nonmatching_first: usize) -> impl Fn() + Send + Sync + 'static {
  move || {
    let trie = Trie::new();
    trie.subscribe(b"a");
    let ing = Arc::new(AnonIngress::new(4));
    let tx = ing.register_filtered(1, cap, &trie, 0);
    let p = spawn(async move {
      // M0 is already queued when the batch arrives
      tx.send(topic_batch(b"a", 0)).await.expect("pipe open");
      let mut dq: VecDeque<FrameBatch> = VecDeque::new();
      for k in 0..nonmatching_first {
        dq.push_back(topic_batch(b"b", 10 + k as u8)); // filtered out
      }
      dq.push_back(topic_batch(b"a", 1));
      dq.push_back(topic_batch(b"a", 2));
      let _ = tx.try_send_batch(&mut dq);
      while let Some(b) = dq.pop_front() {
        tx.send(b).await.expect("pipe open");
      }
    });
    let ic = ing.clone();
    let c = spawn(async move {
      let mut got = vec![];
      for _ in 0..3 {
        let b = ic.recv_multipart(None).await.expect("ingress open");
        got.push(b[0].data().unwrap().to_vec());
      }
      got
    });
    let got = block_on(c).unwrap();
    block_on(p).unwrap();
    e2::check(got == vec![b"a\x00".to_vec(), b"a\x01".to_vec(), b"a\x02".to_vec()], "popped-sequence-wrong", "filtered", || format!("got {:?}", got));
    e2::nontrivial();
    e2::outcome(mc_core::digest(&got));
  }
}

// ---- F7: recv with RCVTIMEO (the timeout is modelled as a cancellation of the pop) on AnonIngress --

fn f7(k: usize) -> impl Fn() + Send + Sync + 'static {
  move || {
    let ing = Arc::new(AnonIngress::new(4));
    let tx = ing.register(1, 1, 0);
    let p = spawn(async move {
      for i in 0..2u8 {
        tx.send(topic_batch(b"m", i)).await.expect("pipe open");
      }
    });
    let ic = ing.clone();
    let c = spawn(async move {
      let mut got = vec![];
      // a recv whose timeout fires at its k-th Pending ...
      if let Some(r) = CancelAt::new(ic.recv(Some(Duration::from_secs(3600))), k).await {
        got.push(r.expect("open").data().unwrap().to_vec());
      }
      // ... must not lose or duplicate anything for the next recv calls
      while got.len() < 2 {
        got.push(ic.recv(None).await.expect("open").data().unwrap().to_vec());
      }
      got
    });
    let got = block_on(c).unwrap();
    block_on(p).unwrap();
    e2::check(got == vec![b"m\x00".to_vec(), b"m\x01".to_vec()], "popped-sequence-wrong", "timeout-cancel", || format!("got {:?}", got));
    e2::nontrivial();
    e2::outcome(mc_core::digest(&got));
  }
}

pub fn harnesses(tier: Tier) -> Vec<Harness> {
  let b = tier.pick(2, 4);
  let cfg = E2Cfg { max_preemptions: b, max_schedules: 3_000_000, max_steps: 3_000, time_cap: tier.pick(Duration::from_secs(40), Duration::from_secs(600)) };
  let mut v = vec![];
  use SendMode::*;
  for (n, cap) in [(2usize, 1usize), (3, 1), (3, 2)] {
    for mode in [Async, Try, Batch] {
      v.push(Harness::new(format!("F1:n{}-cap{}-{:?}", n, cap, mode), cfg.clone(), f1(n, cap, mode)));
    }
  }
  for (m1, m2) in [(Async, Async), (Async, Try), (Try, Batch), (Batch, Batch), (Async, Batch)] {
    v.push(Harness::new(format!("F2:2x{:?}+2x{:?}-cap1", m1, m2), cfg.clone(), f2(2, m1, 2, m2, 1)));
  }
  v.push(Harness::new("F2:1xAsync+2xTry-cap2", cfg.clone(), f2(1, Async, 2, Try, 2)));
  // two consumers with a polling loop explode fastest: smallest instance at the full bound, larger ones one lower
  let lower = E2Cfg { max_preemptions: b - 1, ..cfg.clone() };
  v.push(Harness::new("F3:2consumers-1+1-cap1", cfg.clone(), f3(1, 1, 1)));
  v.push(Harness::new("F3:2consumers-2+1-cap1", lower.clone(), f3(2, 1, 1)));
  v.push(Harness::new("F3:2consumers-2+2-cap2", lower.clone(), f3(2, 2, 2)));
  for k in 1..=3 {
    v.push(Harness::new(format!("F4:cancel-pop-at-{}-Async", k), cfg.clone(), f4(2, 1, k, Async)));
    v.push(Harness::new(format!("F4:cancel-pop-at-{}-Batch", k), cfg.clone(), f4(3, 2, k, Batch)));
  }
  for variant in 0..3u8 {
    v.push(Harness::new(format!("F5:dereg-variant{}", variant), cfg.clone(), f5(variant)));
  }
  v.push(Harness::new("F6:filtered-batch-cap1-async", cfg.clone(), f6(1, true)));
  v.push(Harness::new("F6:filtered-batch-cap2-try", cfg.clone(), f6(2, false)));
  v.push(Harness::new("F6b:filtered-batch-into-nonempty-cap4", cfg.clone(), f6b(4, 1)));
  v.push(Harness::new("F6b:filtered-batch-into-nonempty-cap2", cfg.clone(), f6b(2, 0)));
  for k in 1..=2 {
    v.push(Harness::new(format!("F7:recv-timeout-at-{}", k), cfg.clone(), f7(k)));
  }
  v
}

pub fn run(tier: Tier) -> Report {
  let mut rep = Report::new("C08", tier, "model_checking");
  rep.assume("each individual channel operation, atomic RMW and lock-protected section is atomic; switch points sit between every pair of them in ready_pipe_queue.rs (verif::sched hooks) and at every Pending; weak-memory reorderings of the chosen Orderings are not modelled");
  rep.assume("preconditions of the component are respected: ready-list capacity >= number of pipes, one producer per SPSC pipe");
  rep.assume("a timeout is modelled as dropping the future at one of its Pending points (that is all a timeout is to the code under test)");
  let mut sub = Sub::new("ready-pipe-queue", "E2");
  sub.rule = "evaluation = one complete schedule of a harness on fresh real objects; states = distinct (switch label, running task, runnable set, step) digests; non-trivial = a producer really blocked on a full pipe or two producers/consumers raced; oracle = deadlock (all tasks blocked with an item committed) / exactly-once / per-pipe FIFO / counters consistent at quiescence / rzmq's own debug assertions".into();
  let hs = harnesses(tier);
  sub.bounds = json!({"preemption_bound": tier.pick(2, 4), "harnesses": hs.iter().map(|h| h.name.clone()).collect::<Vec<_>>()});
  e2::explore_all(&mut sub, hs);
  rep.add(sub);
  rep
}

pub fn replay(_sub: &str, w: &Value) -> Result<String, String> {
  let name = w["harness"].as_str().ok_or("no harness in witness")?;
  let choices: Vec<usize> = w["choices"].as_array().ok_or("no choices")?.iter().map(|x| x.as_u64().unwrap_or(0) as usize).collect();
  let h = harnesses(Tier::Thorough).into_iter().find(|h| h.name == name).ok_or("unknown harness")?;
  let rt = tokio::runtime::Builder::new_current_thread().enable_time().start_paused(true).build().unwrap();
  let _g = rt.enter();
  let (fail, trace, div) = e2::replay(h.body.clone(), &choices, 3000);
  if let Some(d) = div {
    return Err(format!("replay diverged: {}", d));
  }
  match fail {
    Some((clause, class, detail)) => Err(format!("{}/{}: {} (schedule {:?})", clause, class, detail, trace)),
    None => Ok("schedule completes without violation".into()),
  }
}
