//! C12 — SUB delivers exactly the messages its current subscriptions match.
//!
//! E1: every subscribe/unsubscribe history on the real `SubscriptionTrie` against a multiset
//! reference, with `matches` probed for every message topic after every step.
//! E2: `matches` racing `subscribe`/`unsubscribe` — every answer must be correct for some
//! subscription set that was current during the call.
//! (End-to-end PUB/SUB, slow/stalled subscribers: E3 part.)

use mc_core::bfs::{bfs, Visit};
use mc_core::e2::{self, E2Cfg, Harness};
use mc_core::{Report, Sub, Tier};
use rzmq::verif::patterns::Trie;
use serde_json::{json, Value};
use shuttle::future::{block_on, spawn};
use std::collections::BTreeMap;
use std::time::Duration;

const TOPICS: [&[u8]; 6] = [b"", b"a", b"ab", b"b", &[0x00], &[0xFF, 0x00]];
const PROBES: [&[u8]; 9] = [b"", b"a", b"ab", b"abc", b"b", b"ba", &[0x00], &[0xFF], &[0xFF, 0x00, 0x01]];

#[derive(Clone, Copy, Debug, PartialEq, Eq, Hash)]
enum Op {
  Sub(usize),
  Unsub(usize),
}

fn ref_matches(subs: &BTreeMap<Vec<u8>, usize>, m: &[u8]) -> bool {
  subs.iter().any(|(t, c)| *c > 0 && m.starts_with(t))
}

fn trie_sub(depth: usize) -> Sub {
  let mut sub = Sub::new("trie-histories", "E1");
  sub.rule = "state = subscribe/unsubscribe history replayed on a fresh real SubscriptionTrie; key = reference multiset (counts capped at 3); non-trivial = some topic subscribed more than once or unsubscribed when absent; oracle: after every step matches(m) for all 9 probe topics equals 'some active subscription is a prefix of m', unsubscribe's return value equals 'count reached zero', get_all_topics equals the active set".into();
  let mut alpha = vec![];
  for i in 0..TOPICS.len() {
    alpha.push(Op::Sub(i));
    alpha.push(Op::Unsub(i));
  }
  sub.bounds = json!({"depth": depth, "topics": TOPICS.iter().map(|t| format!("{:?}", t)).collect::<Vec<_>>(), "probes": PROBES.len()});
  let alpha2 = alpha.clone();
  bfs(&mut sub, depth, 3_000_000, move |hist: &[Op]| {
    let t = Trie::new();
    let mut subs: BTreeMap<Vec<u8>, usize> = BTreeMap::new();
    let mut violations = vec![];
    let mut nontrivial = false;
    for (i, op) in hist.iter().enumerate() {
      let last = i + 1 == hist.len();
      match *op {
        Op::Sub(k) => {
          t.subscribe(TOPICS[k]);
          let c = subs.entry(TOPICS[k].to_vec()).or_insert(0);
          *c += 1;
          if *c > 1 {
            nontrivial = true;
          }
        }
        Op::Unsub(k) => {
          let r = t.unsubscribe(TOPICS[k]);
          let c = subs.entry(TOPICS[k].to_vec()).or_insert(0);
          let want = *c == 1;
          if *c > 0 {
            *c -= 1;
          } else {
            nontrivial = true;
          }
          if last && r != want {
            violations.push(("unsubscribe-return-wrong".into(), "trie".into(), format!("unsubscribe({:?}) returned {} want {}", TOPICS[k], r, want)));
          }
        }
      }
      if last {
        for m in PROBES {
          let got = t.matches(m);
          let want = ref_matches(&subs, m);
          if got != want {
            violations.push((if got { "spurious-match".into() } else { "missed-match".into() }, "trie".into(), format!("matches({:?}) = {} but reference says {} with subscriptions {:?}", m, got, want, subs)));
          }
        }
        let mut all = t.get_all_topics();
        all.sort();
        let want: Vec<Vec<u8>> = subs.iter().filter(|(_, c)| **c > 0).map(|(t, _)| t.clone()).collect();
        if all != want {
          violations.push(("topic-list-wrong".into(), "trie".into(), format!("get_all_topics {:?} want {:?}", all, want)));
        }
      }
    }
    let key: Vec<(Vec<u8>, usize)> = subs.iter().map(|(t, c)| (t.clone(), (*c).min(3))).collect();
    Visit { key: key.clone(), enabled: alpha2.clone(), nontrivial, outcome: mc_core::digest(&key), violations }
  });
  sub
}

// ---- E2 races ------------------------------------------------------------------------------------

/// One writer performs `ops` in order; one reader calls matches(probe) once. The answer must equal
/// the reference on one of the subscription sets that were current during the call (any prefix of
/// the writer's ops, since the call overlaps an unknown part of them).
fn h_race(initial: Vec<usize>, ops: Vec<Op>, probe: &'static [u8]) -> impl Fn() + Send + Sync + 'static {
  move || {
    let t = Trie::new();
    let mut subs: BTreeMap<Vec<u8>, usize> = BTreeMap::new();
    for &k in &initial {
      t.subscribe(TOPICS[k]);
      *subs.entry(TOPICS[k].to_vec()).or_insert(0) += 1;
    }
    // all reference answers along the writer's history
    let mut answers = vec![ref_matches(&subs, probe)];
    let mut s2 = subs.clone();
    for op in &ops {
      match *op {
        Op::Sub(k) => *s2.entry(TOPICS[k].to_vec()).or_insert(0) += 1,
        Op::Unsub(k) => {
          let c = s2.entry(TOPICS[k].to_vec()).or_insert(0);
          if *c > 0 {
            *c -= 1;
          }
        }
      }
      answers.push(ref_matches(&s2, probe));
    }
    let tw = t.clone();
    let ops2 = ops.clone();
    let writer = spawn(async move {
      for op in &ops2 {
        match *op {
          Op::Sub(k) => tw.subscribe(TOPICS[k]),
          Op::Unsub(k) => {
            tw.unsubscribe(TOPICS[k]);
          }
        }
      }
    });
    let tr = t.clone();
    let reader = spawn(async move { tr.matches(probe) });
    let got = block_on(reader).unwrap();
    block_on(writer).unwrap();
    e2::check(answers.contains(&got), if got { "spurious-match-under-race" } else { "missed-match-under-race" }, "trie-race", || {
      format!("matches({:?}) = {} but every subscription set current during the call gives {:?}", probe, got, answers)
    });
    // and once quiescent the trie must agree with the final reference
    for m in PROBES {
      let g = t.matches(m);
      let w = ref_matches(&s2, m);
      e2::check(g == w, "wrong-after-race", "trie-race", || format!("after the race matches({:?}) = {} want {}", m, g, w));
    }
    e2::nontrivial();
    e2::outcome(got as u64);
  }
}

pub fn harnesses(tier: Tier) -> Vec<Harness> {
  let cfg = E2Cfg { max_preemptions: tier.pick(2, 3), max_schedules: 1_000_000, max_steps: 2_000, time_cap: tier.pick(Duration::from_secs(20), Duration::from_secs(300)) };
  // NOTE: concurrent subscribe of a strict extension of a topic being unsubscribed is excluded:
  // the hook between fetch_sub and the compensating fetch_add sits under a read guard of the final
  // node, and a subscriber walking through that node takes its write lock — on the single exploring
  // OS thread that would block the harness itself (a real-lock artefact of the explorer, not a bug).
  vec![
    // unsubscribe of a never-subscribed (zero-count) existing node while matching its extension
    Harness::new("unsub-zero-count-vs-match", cfg.clone(), h_race(vec![2], vec![Op::Unsub(1)], b"ab")),
    Harness::new("unsub-zero-count-vs-match-exact", cfg.clone(), h_race(vec![2], vec![Op::Unsub(1)], b"a")),
    Harness::new("unsub-zero-root-vs-match", cfg.clone(), h_race(vec![1], vec![Op::Unsub(0)], b"b")),
    Harness::new("unsub-then-sub-vs-match", cfg.clone(), h_race(vec![1], vec![Op::Unsub(1), Op::Sub(1)], b"ab")),
    Harness::new("sub-vs-match", cfg.clone(), h_race(vec![], vec![Op::Sub(2)], b"abc")),
    Harness::new("double-unsub-vs-match", cfg.clone(), h_race(vec![1, 1], vec![Op::Unsub(1), Op::Unsub(1)], b"a")),
    Harness::new("unsub-binary-vs-match", cfg.clone(), h_race(vec![5], vec![Op::Unsub(5), Op::Unsub(5)], &[0xFF, 0x00, 0x01])),
  ]
}

pub fn run(tier: Tier) -> Report {
  let mut rep = Report::new("C12", tier, "model_checking");
  rep.assume("concurrent clause: an answer is accepted if it is right for any subscription set that was current during the call");
  rep.assume("E2 trie harnesses exclude a concurrent subscribe that walks through the node an unsubscribe is holding (real parking_lot lock on the single exploring thread)");
  rep.add(trie_sub(tier.pick(6, 8)));
  let mut sub = Sub::new("trie-races", "E2");
  sub.rule = "evaluation = one complete schedule of (writer: subscribe/unsubscribe sequence) || (reader: one matches call) on the real trie, switch points inside matches (per trie level), between unsubscribe's fetch_sub and its compensation, and before subscribe's increment".into();
  let hs = harnesses(tier);
  sub.bounds = json!({"preemption_bound": tier.pick(2, 3), "harnesses": hs.iter().map(|h| h.name.clone()).collect::<Vec<_>>()});
  e2::explore_all(&mut sub, hs);
  rep.add(sub);
  crate::c12_world::add_world_subs(&mut rep, tier);
  rep
}

pub fn replay(_sub: &str, w: &Value) -> Result<String, String> {
  if w["explorer"] == "e3" {
    return crate::c12_world::replay(w);
  }
  let name = w["harness"].as_str().ok_or("no harness in witness (E1 witnesses: re-run ./check C12)")?;
  let choices: Vec<usize> = w["choices"].as_array().ok_or("no choices")?.iter().map(|x| x.as_u64().unwrap_or(0) as usize).collect();
  let h = harnesses(Tier::Thorough).into_iter().find(|h| h.name == name).ok_or("unknown harness")?;
  let rt = tokio::runtime::Builder::new_current_thread().enable_time().start_paused(true).build().unwrap();
  let _g = rt.enter();
  let (fail, trace, div) = e2::replay(h.body.clone(), &choices, 3000);
  if let Some(d) = div {
    return Err(format!("replay diverged: {}", d));
  }
  match fail {
    Some((clause, class, detail)) => Err(format!("{}/{}: {} (schedule {:?})", clause, class, detail, trace)),
    None => Ok("schedule completes without violation".into()),
  }
}
