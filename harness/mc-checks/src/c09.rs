//! C09 — dropping a send or recv future is safe at every await point.
//!
//! E2 part: the queue-level cancellation harnesses (blocked pop / timed recv dropped at each Pending)
//! are C08's F4/F7 families and are re-run here. E3 part: for each socket type and operation, in each
//! situation (idle, traffic arriving, full pipe, no peer yet), the real API future is wrapped in
//! `CancelAt(k)` — it counts polls and drops the future at its k-th `Pending` — for EVERY k until the
//! operation completes uncancelled; a fixed follow-up then checks the socket is fully usable, nothing
//! queued was lost, nothing delivered twice, nothing delivered in part.

use crate::c08::CancelAt;
use crate::stack::{self, msg};
use mc_core::e2;
use mc_core::par::{self, Case};
use mc_core::world::{self, settle_n, Way};
use mc_core::{Report, Sub, Tier};
use rzmq::socket::options as o;
use rzmq::{Context, Msg, Socket, SocketType};
use serde_json::{json, Value};

#[derive(Clone, Copy, Debug, PartialEq, Eq, Hash)]
enum Kind {
  /// recv()/recv_multipart() on an idle socket; the peer then sends 3 messages (2nd is 3-frame)
  RecvThenTraffic { ty: Ty, multipart: bool, rcvtimeo: i32 },
  /// send()/send_multipart() towards a peer that is not reading (SNDHWM=RCVHWM=1); the peer then reads
  SendFullPipe { ty: Ty, multipart: bool, sndtimeo: i32 },
  /// send() before any peer exists; the peer connects afterwards
  SendNoPeer { ty: Ty },
  /// ROUTER frame-wise send: identity frame (MORE) then payload via send(), pipe full
  RouterFramewise,
  /// REQ: request sent, recv() pending, cancelled, then the reply arrives
  ReqRecvReply { multipart: bool },
  /// REP: recv() pending, cancelled, then a request arrives; and REP.send on a full pipe
  RepRecvRequest { multipart: bool },
  /// REQ.send() on a full pipe (SNDHWM=1, stalled network, earlier requests abandoned by RCVTIMEO)
  ReqSendFullPipe { sndtimeo: i32 },
  /// REP.send() (the reply) on a full pipe: the requester's network is stalled
  RepSendFullPipe { sndtimeo: i32 },
}

#[derive(Clone, Copy, Debug, PartialEq, Eq, Hash)]
enum Ty {
  PushPull,
  DealerRouter,
  RouterDealer,
  PubSub,
  DealerDealer,
}

fn types(ty: Ty) -> (SocketType, SocketType) {
  match ty {
    Ty::PushPull => (SocketType::Push, SocketType::Pull),
    Ty::DealerRouter => (SocketType::Dealer, SocketType::Router),
    Ty::RouterDealer => (SocketType::Router, SocketType::Dealer),
    Ty::PubSub => (SocketType::Pub, SocketType::Sub),
    Ty::DealerDealer => (SocketType::Dealer, SocketType::Dealer),
  }
}

#[derive(Debug, Default, Clone)]
struct Obs {
  /// did the wrapped operation complete before the k-th Pending?
  completed: bool,
  op_result: String,
  /// flat frames seen by the receiving application afterwards: (bytes, more)
  flat: Vec<(Vec<u8>, bool)>,
  /// what was offered for sending, message by message (frames), with a note whether it was the cancelled one
  offered: Vec<(Vec<Vec<u8>>, bool)>,
  followup_errors: Vec<String>,
}

async fn recv_flat(s: &Socket, max: usize) -> Vec<(Vec<u8>, bool)> {
  let mut out = vec![];
  let mut idle = 0;
  while out.len() < max && idle < 2 {
    match s.recv().await {
      Ok(m) => {
        idle = 0;
        out.push((m.data().unwrap_or(&[]).to_vec(), m.is_more()));
      }
      Err(_) => idle += 1,
    }
  }
  out
}

fn frames(tag: &str, n: usize) -> Vec<Vec<u8>> {
  (0..n).map(|i| format!("{}.{}", tag, i).into_bytes()).collect()
}

async fn send_frames(s: &Socket, prefix: Option<&[u8]>, f: &[Vec<u8>]) -> Result<(), rzmq::ZmqError> {
  let mut v: Vec<Msg> = vec![];
  if let Some(p) = prefix {
    v.push(msg(p, true));
  }
  let n = f.len();
  v.extend(f.iter().enumerate().map(|(i, d)| msg(d, i + 1 < n)));
  if v.len() == 1 {
    s.send(v.remove(0)).await
  } else {
    s.send_multipart(v).await
  }
}

fn run_case(kind: Kind, k: usize) -> world::WorldResult<Obs> {
  world::run(1, move || async move {
    let ctx = Context::new().expect("context");
    let mut obs = Obs::default();
    match kind {
      Kind::RecvThenTraffic { ty, multipart, rcvtimeo } => {
        let (ta, tb) = types(ty);
        let a = stack::mk(&ctx, ta, &[(o::SNDTIMEO, 200), (o::LINGER, 0)]).await;
        let b = stack::mk(&ctx, tb, &[(o::RCVTIMEO, rcvtimeo), (o::LINGER, 0)]).await;
        let mut prefix: Option<&[u8]> = None;
        if ty == Ty::RouterDealer {
          a.set_option(o::ROUTER_MANDATORY, 1i32).await.unwrap();
          b.set_option(o::ROUTING_ID, &b"rx"[..]).await.unwrap();
          prefix = Some(b"rx");
        }
        if ty == Ty::PubSub {
          b.set_option(o::SUBSCRIBE, &b""[..]).await.unwrap();
        }
        let l = stack::link_pair(&a, &b, 1 << 16).await;
        settle_n(4).await;
        // the operation under test, wrapped
        let b2 = b.clone();
        let op = tokio::spawn(async move {
          let r = if multipart {
            CancelAt::new(async { b2.recv_multipart().await.map(|v| v.iter().map(|m| (m.data().unwrap_or(&[]).to_vec(), m.is_more())).collect::<Vec<_>>()) }, k).await
          } else {
            CancelAt::new(async { b2.recv().await.map(|m| vec![(m.data().unwrap_or(&[]).to_vec(), m.is_more())]) }, k).await
          };
          r
        });
        settle_n(2).await;
        // traffic: 3 messages, the second one multipart
        for (i, n) in [(0usize, 1usize), (1, 3), (2, 1)] {
          let f = frames(&format!("m{}", i), n);
          if send_frames(&a, prefix, &f).await.is_ok() {
            obs.offered.push((f, false));
          }
          settle_n(2).await;
        }
        match tokio::time::timeout(std::time::Duration::from_secs(600), op).await.unwrap_or(Ok(Some(Err(rzmq::ZmqError::Internal("operation still blocked after 600 s virtual".into()))))) {
          Ok(Some(Ok(fr))) => {
            obs.completed = true;
            obs.op_result = "ok".into();
            obs.flat.extend(fr);
          }
          Ok(Some(Err(e))) => {
            obs.completed = true;
            obs.op_result = format!("err:{}", e);
          }
          Ok(None) => obs.op_result = "cancelled".into(),
          Err(_) => obs.op_result = "task-panicked".into(),
        }
        b.set_option(o::RCVTIMEO, 50i32).await.unwrap();
        obs.flat.extend(recv_flat(&b, 32).await);
        drop(l);
      }
      Kind::SendFullPipe { ty, multipart, sndtimeo } => {
        let (ta, tb) = types(ty);
        let a = stack::mk(&ctx, ta, &[(o::SNDTIMEO, sndtimeo), (o::SNDHWM, 1), (o::RCVHWM, 1), (o::LINGER, 0)]).await;
        let b = stack::mk(&ctx, tb, &[(o::RCVTIMEO, 50), (o::SNDHWM, 1), (o::RCVHWM, 1), (o::LINGER, 0)]).await;
        let mut prefix: Option<Vec<u8>> = None;
        if ty == Ty::RouterDealer {
          a.set_option(o::ROUTER_MANDATORY, 1i32).await.unwrap();
          b.set_option(o::ROUTING_ID, &b"rx"[..]).await.unwrap();
          prefix = Some(b"rx".to_vec());
        }
        let l = stack::link_pair(&a, &b, 256).await;
        settle_n(4).await;
        l.stall(Way::AtoB, true);
        let dbg = std::env::var_os("MC_DEBUG").is_some();
        if dbg { eprintln!("c09: stalled, filling"); }
        // fill until a non-blocking probe would block: use a short timeout probe loop
        // (SNDTIMEO is snapshotted per connection when it is attached, so it cannot be switched to 0 for
        // the fill phase; a fill send that does not finish within 5 ms virtual is dropped instead — it is
        // then itself a cancelled send and may or may not arrive)
        for i in 0..64 {
          let f = frames(&format!("fill{}", i), 1);
          let body = payload_big(&f[0]);
          match tokio::time::timeout(std::time::Duration::from_millis(5), send_frames(&a, prefix.as_deref(), &[body.clone()])).await {
            Ok(Ok(())) => obs.offered.push((vec![body], false)),
            Ok(Err(_)) => break,
            Err(_) => {
              obs.offered.push((vec![body], true));
              break;
            }
          }
        }
        if dbg { eprintln!("c09: filled {}", obs.offered.len()); }
        // the operation under test
        let f = if multipart { frames("X", 3) } else { frames("X", 1) };
        let (a2, f2, p2) = (a.clone(), f.clone(), prefix.clone());
        let op = tokio::spawn(async move { CancelAt::new(async { send_frames(&a2, p2.as_deref(), &f2).await }, k).await });
        settle_n(3).await;
        // the peer starts reading
        if dbg { eprintln!("c09: op spawned, unstalling"); }
        l.stall(Way::AtoB, false);
        settle_n(2).await;
        let mut flat = recv_flat(&b, 200).await;
        if dbg { eprintln!("c09: first drain {}", flat.len()); }
        match tokio::time::timeout(std::time::Duration::from_secs(600), op).await.unwrap_or(Ok(Some(Err(rzmq::ZmqError::Internal("operation still blocked after 600 s virtual".into()))))) {
          Ok(Some(Ok(()))) => {
            obs.completed = true;
            obs.op_result = "ok".into();
            obs.offered.push((f.clone(), false));
          }
          Ok(Some(Err(e))) => {
            obs.completed = true;
            obs.op_result = format!("err:{}", e);
          }
          Ok(None) => {
            obs.op_result = "cancelled".into();
            obs.offered.push((f.clone(), true));
          }
          Err(_) => obs.op_result = "task-panicked".into(),
        }
        // follow-up: two more messages must go through whole (bounded so that a wedged socket shows as an error)
        for i in 0..2 {
          let g = frames(&format!("after{}", i), 2);
          match tokio::time::timeout(std::time::Duration::from_secs(5), send_frames(&a, prefix.as_deref(), &g)).await {
            Ok(Ok(())) => obs.offered.push((g, false)),
            Ok(Err(e)) => obs.followup_errors.push(format!("follow-up send {}: {}", i, e)),
            Err(_) => obs.followup_errors.push(format!("follow-up send {} still blocked after 5 s virtual although the peer is reading", i)),
          }
          settle_n(2).await;
          flat.extend(recv_flat(&b, 64).await);
        }
        flat.extend(recv_flat(&b, 64).await);
        obs.flat = flat;
        drop(l);
      }
      Kind::SendNoPeer { ty } => {
        let (ta, tb) = types(ty);
        let a = stack::mk(&ctx, ta, &[(o::SNDTIMEO, -1), (o::LINGER, 0)]).await;
        let b = stack::mk(&ctx, tb, &[(o::RCVTIMEO, 50), (o::LINGER, 0)]).await;
        let f = frames("X", 1);
        let (a2, f2) = (a.clone(), f.clone());
        let op = tokio::spawn(async move { CancelAt::new(async { send_frames(&a2, None, &f2).await }, k).await });
        settle_n(3).await;
        let l = stack::link_pair(&a, &b, 1 << 16).await;
        settle_n(4).await;
        match tokio::time::timeout(std::time::Duration::from_secs(600), op).await.unwrap_or(Ok(Some(Err(rzmq::ZmqError::Internal("operation still blocked after 600 s virtual".into()))))) {
          Ok(Some(Ok(()))) => {
            obs.completed = true;
            obs.op_result = "ok".into();
            obs.offered.push((f.clone(), false));
          }
          Ok(Some(Err(e))) => {
            obs.completed = true;
            obs.op_result = format!("err:{}", e);
          }
          Ok(None) => {
            obs.op_result = "cancelled".into();
            obs.offered.push((f.clone(), true));
          }
          Err(_) => obs.op_result = "task-panicked".into(),
        }
        for i in 0..2 {
          let g = frames(&format!("after{}", i), 1);
          match tokio::time::timeout(std::time::Duration::from_secs(5), send_frames(&a, None, &g)).await {
            Ok(Ok(())) => obs.offered.push((g, false)),
            Ok(Err(e)) => obs.followup_errors.push(format!("follow-up send {}: {}", i, e)),
            Err(_) => obs.followup_errors.push(format!("follow-up send {} still blocked after 5 s virtual", i)),
          }
          settle_n(2).await;
        }
        obs.flat = recv_flat(&b, 32).await;
        if ty == Ty::DealerRouter {
          // strip the identity frames the ROUTER prepends
          obs.flat = strip_router_identity(obs.flat.clone());
        }
        drop(l);
      }
      Kind::RouterFramewise => {
        let a = stack::mk(&ctx, SocketType::Router, &[(o::SNDTIMEO, -1), (o::SNDHWM, 1), (o::RCVHWM, 1), (o::LINGER, 0)]).await;
        a.set_option(o::ROUTER_MANDATORY, 1i32).await.unwrap();
        let b = stack::mk(&ctx, SocketType::Dealer, &[(o::RCVTIMEO, 50), (o::SNDHWM, 1), (o::RCVHWM, 1), (o::LINGER, 0)]).await;
        b.set_option(o::ROUTING_ID, &b"rx"[..]).await.unwrap();
        let l = stack::link_pair(&b, &a, 256).await;
        settle_n(4).await;
        l.stall(Way::BtoA, true);
        for i in 0..64 {
          let body = payload_big(format!("fill{}", i).as_bytes());
          match tokio::time::timeout(std::time::Duration::from_millis(5), a.send_multipart(vec![msg(b"rx", true), msg(&body, false)])).await {
            Ok(Ok(())) => obs.offered.push((vec![body], false)),
            Ok(Err(_)) => break,
            Err(_) => {
              obs.offered.push((vec![body], true));
              break;
            }
          }
        }
        // frame-wise: identity (MORE), then two payload frames
        let a2 = a.clone();
        let op = tokio::spawn(async move {
          CancelAt::new(
            async {
              a2.send(msg(b"rx", true)).await?;
              a2.send(msg(b"X.0", true)).await?;
              a2.send(msg(b"X.1", false)).await
            },
            k,
          )
          .await
        });
        settle_n(3).await;
        l.stall(Way::BtoA, false);
        settle_n(2).await;
        let mut flat = recv_flat(&b, 200).await;
        match tokio::time::timeout(std::time::Duration::from_secs(600), op).await.unwrap_or(Ok(Some(Err(rzmq::ZmqError::Internal("operation still blocked after 600 s virtual".into()))))) {
          Ok(Some(Ok(()))) => {
            obs.completed = true;
            obs.op_result = "ok".into();
            obs.offered.push((vec![b"X.0".to_vec(), b"X.1".to_vec()], false));
          }
          Ok(Some(Err(e))) => {
            obs.completed = true;
            obs.op_result = format!("err:{}", e);
          }
          Ok(None) => {
            obs.op_result = "cancelled".into();
            obs.offered.push((vec![b"X.0".to_vec(), b"X.1".to_vec()], true));
          }
          Err(_) => obs.op_result = "task-panicked".into(),
        }
        for i in 0..2 {
          let g = frames(&format!("after{}", i), 2);
          match tokio::time::timeout(std::time::Duration::from_secs(5), send_frames(&a, Some(b"rx"), &g)).await {
            Ok(Ok(())) => obs.offered.push((g, false)),
            Ok(Err(e)) => obs.followup_errors.push(format!("follow-up send {}: {}", i, e)),
            Err(_) => obs.followup_errors.push(format!("follow-up send {} still blocked after 5 s virtual although the peer is reading", i)),
          }
          settle_n(2).await;
          flat.extend(recv_flat(&b, 64).await);
        }
        obs.flat = flat;
        drop(l);
      }
      Kind::ReqRecvReply { multipart } => {
        let q = stack::mk(&ctx, SocketType::Req, &[(o::RCVTIMEO, -1), (o::SNDTIMEO, 200), (o::LINGER, 0)]).await;
        let p = stack::mk(&ctx, SocketType::Rep, &[(o::RCVTIMEO, 50), (o::SNDTIMEO, 200), (o::LINGER, 0)]).await;
        let l = stack::link_pair(&q, &p, 1 << 16).await;
        settle_n(4).await;
        if let Err(e) = q.send(msg(b"req0", false)).await {
          obs.followup_errors.push(format!("initial send: {}", e));
        }
        let q2 = q.clone();
        let op = tokio::spawn(async move {
          if multipart {
            CancelAt::new(async { q2.recv_multipart().await.map(|v| v.first().map(|m| m.data().unwrap_or(&[]).to_vec()).unwrap_or_default()) }, k).await
          } else {
            CancelAt::new(async { q2.recv().await.map(|m| m.data().unwrap_or(&[]).to_vec()) }, k).await
          }
        });
        settle_n(2).await;
        // the REP answers
        if let Ok(m) = p.recv().await {
          let mut r = b"re:".to_vec();
          r.extend_from_slice(m.data().unwrap_or(&[]));
          let _ = p.send(msg(&r, false)).await;
        }
        settle_n(3).await;
        let mut got_reply: Option<Vec<u8>> = None;
        match tokio::time::timeout(std::time::Duration::from_secs(600), op).await.unwrap_or(Ok(Some(Err(rzmq::ZmqError::Internal("operation still blocked after 600 s virtual".into()))))) {
          Ok(Some(Ok(d))) => {
            obs.completed = true;
            obs.op_result = "ok".into();
            got_reply = Some(d);
          }
          Ok(Some(Err(e))) => {
            obs.completed = true;
            obs.op_result = format!("err:{}", e);
          }
          Ok(None) => obs.op_result = "cancelled".into(),
          Err(_) => obs.op_result = "task-panicked".into(),
        }
        // the next valid call: if the reply was not taken yet, recv must return it
        q.set_option(o::RCVTIMEO, 100i32).await.unwrap();
        if got_reply.is_none() {
          match q.recv().await {
            Ok(m) => got_reply = Some(m.data().unwrap_or(&[]).to_vec()),
            Err(e) => obs.followup_errors.push(format!("recv after cancelled recv: {}", e)),
          }
        }
        if got_reply.as_deref() != Some(&b"re:req0"[..]) {
          obs.followup_errors.push(format!("reply was {:?}", got_reply.map(|r| String::from_utf8_lossy(&r).to_string())));
        }
        // and a complete second round trip must work
        match q.send(msg(b"req1", false)).await {
          Ok(()) => {
            if let Ok(m) = p.recv().await {
              let mut r = b"re:".to_vec();
              r.extend_from_slice(m.data().unwrap_or(&[]));
              let _ = p.send(msg(&r, false)).await;
            }
            match q.recv().await {
              Ok(m) if m.data() == Some(&b"re:req1"[..]) => {}
              other => obs.followup_errors.push(format!("second round trip: {:?}", other.map(|m| String::from_utf8_lossy(m.data().unwrap_or(&[])).to_string()))),
            }
          }
          Err(e) => obs.followup_errors.push(format!("send after recv: {}", e)),
        }
        drop(l);
      }
      Kind::RepRecvRequest { multipart } => {
        let p = stack::mk(&ctx, SocketType::Rep, &[(o::RCVTIMEO, -1), (o::SNDTIMEO, 200), (o::LINGER, 0)]).await;
        let q = stack::mk(&ctx, SocketType::Req, &[(o::RCVTIMEO, 100), (o::SNDTIMEO, 200), (o::LINGER, 0)]).await;
        let l = stack::link_pair(&q, &p, 1 << 16).await;
        settle_n(4).await;
        let p2 = p.clone();
        let op = tokio::spawn(async move {
          if multipart {
            CancelAt::new(async { p2.recv_multipart().await.map(|v| v.first().map(|m| m.data().unwrap_or(&[]).to_vec()).unwrap_or_default()) }, k).await
          } else {
            CancelAt::new(async { p2.recv().await.map(|m| m.data().unwrap_or(&[]).to_vec()) }, k).await
          }
        });
        settle_n(2).await;
        let _ = q.send(msg(b"req0", false)).await;
        settle_n(3).await;
        let mut got: Option<Vec<u8>> = None;
        match tokio::time::timeout(std::time::Duration::from_secs(600), op).await.unwrap_or(Ok(Some(Err(rzmq::ZmqError::Internal("operation still blocked after 600 s virtual".into()))))) {
          Ok(Some(Ok(d))) => {
            obs.completed = true;
            obs.op_result = "ok".into();
            got = Some(d);
          }
          Ok(Some(Err(e))) => {
            obs.completed = true;
            obs.op_result = format!("err:{}", e);
          }
          Ok(None) => obs.op_result = "cancelled".into(),
          Err(_) => obs.op_result = "task-panicked".into(),
        }
        p.set_option(o::RCVTIMEO, 100i32).await.unwrap();
        if got.is_none() {
          match p.recv().await {
            Ok(m) => got = Some(m.data().unwrap_or(&[]).to_vec()),
            Err(e) => obs.followup_errors.push(format!("recv after cancelled recv: {}", e)),
          }
        }
        if got.as_deref() != Some(&b"req0"[..]) {
          obs.followup_errors.push(format!("request was {:?}", got.map(|r| String::from_utf8_lossy(&r).to_string())));
        }
        match p.send(msg(b"rep0", false)).await {
          Ok(()) => match q.recv().await {
            Ok(m) if m.data() == Some(&b"rep0"[..]) => {}
            other => obs.followup_errors.push(format!("reply did not reach the requester: {:?}", other.map(|m| String::from_utf8_lossy(m.data().unwrap_or(&[])).to_string()))),
          },
          Err(e) => obs.followup_errors.push(format!("REP.send after recv: {}", e)),
        }
        drop(l);
      }
      Kind::ReqSendFullPipe { sndtimeo } => {
        // REQ -> ROUTER peer over a link whose REQ->peer direction is stalled after the handshake.
        // Requests are abandoned through RCVTIMEO, which puts the REQ back into 'ready to send'.
        let q = stack::mk(&ctx, SocketType::Req, &[(o::RCVTIMEO, 20), (o::SNDTIMEO, sndtimeo), (o::SNDHWM, 1), (o::LINGER, 0)]).await;
        let p = stack::mk(&ctx, SocketType::Router, &[(o::RCVTIMEO, 20), (o::RCVHWM, 1), (o::LINGER, 0)]).await;
        let l = stack::link_pair(&q, &p, 256).await;
        settle_n(6).await;
        l.stall(world::Way::AtoB, true);
        let mut accepted: Vec<Vec<u8>> = vec![];
        // fill: each accepted request is abandoned; stop when a send does not complete at once
        let mut filled = false;
        for i in 0..40 {
          let body = payload_big(format!("fill{}", i).as_bytes());
          let q2 = q.clone();
          let b2 = body.clone();
          // poll once: a send that would wait is the one we are after (it is dropped here exactly
          // like the cancelled one would be, so the probe uses a fresh message that is never judged)
          let mut probe = Box::pin(async move { q2.send(msg(&b2, false)).await });
          match futures_poll_once(&mut probe).await {
            Some(Ok(())) => {
              accepted.push(body);
              let _ = q.recv().await; // times out: request abandoned
            }
            Some(Err(_)) => {
              filled = true;
              break;
            }
            None => {
              // would block: let it run to its own (internal) conclusion if SNDTIMEO is finite
              if sndtimeo >= 0 {
                let _ = probe.await;
              } else {
                // infinite SNDTIMEO: this probe can only be got rid of by dropping it — which is a
                // cancellation at the first Pending, i.e. the k=1 case itself. Keep it pending and
                // judge it as the operation under test instead.
                drop(probe);
              }
              filled = true;
              break;
            }
          }
        }
        if !filled {
          obs.followup_errors.push("harness: the REQ pipe never filled".into());
        }
        let body = payload_big(b"cancelled-request");
        let q2 = q.clone();
        let b2 = body.clone();
        let op = tokio::spawn(async move { CancelAt::new(async move { q2.send(msg(&b2, false)).await }, k).await });
        settle_n(3).await;
        // the network moves again and the peer drains
        l.stall(world::Way::AtoB, false);
        settle_n(6).await;
        let res = tokio::time::timeout(std::time::Duration::from_secs(600), op).await.unwrap_or(Ok(Some(Err(rzmq::ZmqError::Internal("operation still blocked after 600 s virtual".into())))));
        let mut op_ok = false;
        match res {
          Ok(Some(Ok(()))) => {
            obs.completed = true;
            obs.op_result = "ok".into();
            op_ok = true;
          }
          Ok(Some(Err(e))) => {
            obs.completed = true;
            obs.op_result = format!("err:{}", e);
          }
          Ok(None) => obs.op_result = "cancelled".into(),
          Err(_) => obs.op_result = "task-panicked".into(),
        }
        if op_ok {
          let _ = q.recv().await; // abandon it like the others
        }
        // the next request must be accepted and must arrive
        let follow = payload_big(b"follow-up-request");
        match tokio::time::timeout(std::time::Duration::from_secs(5), q.send(msg(&follow, false))).await {
          Ok(Ok(())) => {}
          Ok(Err(e)) => obs.followup_errors.push(format!("send after the cancelled send: {}", e)),
          Err(_) => obs.followup_errors.push("send after the cancelled send blocks".into()),
        }
        settle_n(6).await;
        let mut got: Vec<Vec<u8>> = vec![];
        while let Ok(fr) = p.recv_multipart().await {
          if let Some(last) = fr.last() {
            got.push(last.data().unwrap_or(&[]).to_vec());
          }
        }
        // accepted requests (+ the follow-up) must arrive once each, in order; the cancelled one may be absent
        let mut want: Vec<(Vec<u8>, bool)> = accepted.iter().map(|a| (a.clone(), false)).collect();
        want.push((body.clone(), !op_ok));
        want.push((follow.clone(), false));
        let mut gi = 0;
        for (w, optional) in &want {
          if got.get(gi) == Some(w) {
            gi += 1;
          } else if !*optional {
            obs.followup_errors.push(format!("request {:?} was accepted but the peer received {:?}", String::from_utf8_lossy(&w[..w.len().min(18)]), got.iter().map(|g| String::from_utf8_lossy(&g[..g.len().min(18)]).to_string()).collect::<Vec<_>>()));
            break;
          }
        }
        if gi != got.len() && obs.followup_errors.is_empty() {
          obs.followup_errors.push(format!("peer received unexpected extra/duplicate requests: {:?}", got.iter().map(|g| String::from_utf8_lossy(&g[..g.len().min(18)]).to_string()).collect::<Vec<_>>()));
        }
        drop(l);
      }
      Kind::RepSendFullPipe { sndtimeo } => {
        // REP <- DEALER peer; the REP->peer direction is stalled, replies pile up
        let p = stack::mk(&ctx, SocketType::Rep, &[(o::RCVTIMEO, 50), (o::SNDTIMEO, sndtimeo), (o::SNDHWM, 1), (o::LINGER, 0)]).await;
        let d = stack::mk(&ctx, SocketType::Dealer, &[(o::RCVTIMEO, 20), (o::SNDTIMEO, 100), (o::RCVHWM, 1), (o::LINGER, 0)]).await;
        let l = stack::link_pair(&d, &p, 256).await;
        settle_n(6).await;
        l.stall(world::Way::BtoA, true);
        let mut accepted: Vec<Vec<u8>> = vec![];
        let mut filled = false;
        let mut req_no = 0;
        for i in 0..40 {
          // the DEALER sends a request envelope [empty, body]
          let _ = d.send_multipart(vec![msg(b"", true), msg(format!("rq{}", i).as_bytes(), false)]).await;
          req_no = i + 1;
          settle_n(3).await;
          if p.recv().await.is_err() {
            obs.followup_errors.push("harness: REP did not get the request".into());
            break;
          }
          let body = payload_big(format!("reply{}", i).as_bytes());
          let p2 = p.clone();
          let b2 = body.clone();
          let mut probe = Box::pin(async move { p2.send(msg(&b2, false)).await });
          match futures_poll_once(&mut probe).await {
            Some(Ok(())) => accepted.push(body),
            Some(Err(_)) => {
              filled = true;
              break;
            }
            None => {
              if sndtimeo >= 0 {
                let _ = probe.await;
              } else {
                drop(probe);
              }
              filled = true;
              break;
            }
          }
        }
        if !filled {
          obs.followup_errors.push("harness: the REP pipe never filled".into());
        }
        // after a failed/dropped reply the REP may be in either state; bring it to 'must send' with a fresh request
        let _ = d.send_multipart(vec![msg(b"", true), msg(format!("rq{}", req_no).as_bytes(), false)]).await;
        settle_n(3).await;
        let _ = p.recv().await;
        let body = payload_big(b"cancelled-reply");
        let p2 = p.clone();
        let b2 = body.clone();
        let op = tokio::spawn(async move { CancelAt::new(async move { p2.send(msg(&b2, false)).await }, k).await });
        settle_n(3).await;
        l.stall(world::Way::BtoA, false);
        settle_n(6).await;
        let res = tokio::time::timeout(std::time::Duration::from_secs(600), op).await.unwrap_or(Ok(Some(Err(rzmq::ZmqError::Internal("operation still blocked after 600 s virtual".into())))));
        match res {
          Ok(Some(Ok(()))) => {
            obs.completed = true;
            obs.op_result = "ok".into();
          }
          Ok(Some(Err(e))) => {
            obs.completed = true;
            obs.op_result = format!("err:{}", e);
          }
          Ok(None) => obs.op_result = "cancelled".into(),
          Err(_) => obs.op_result = "task-panicked".into(),
        }
        // drain what the DEALER got so far, then a complete fresh round trip must work
        settle_n(6).await;
        let mut got: Vec<Vec<u8>> = vec![];
        while let Ok(fr) = d.recv_multipart().await {
          if let Some(last) = fr.last() {
            got.push(last.data().unwrap_or(&[]).to_vec());
          }
        }
        for g in &got {
          let whole = accepted.contains(g) || *g == body || g.starts_with(b"probe");
          if !whole && !g.starts_with(b"reply") {
            obs.followup_errors.push(format!("requester received a reply that was never offered whole: {:?}", String::from_utf8_lossy(&g[..g.len().min(18)])));
          }
        }
        for a in &accepted {
          if got.iter().filter(|g| *g == a).count() != 1 {
            obs.followup_errors.push(format!("accepted reply {:?} arrived {} times", String::from_utf8_lossy(&a[..a.len().min(18)]), got.iter().filter(|g| *g == a).count()));
            break;
          }
        }
        // fresh round trip: whatever state the REP is in, within two requests it must answer again
        let mut ok = false;
        for r in 0..2 {
          let _ = d.send_multipart(vec![msg(b"", true), msg(format!("fresh{}", r).as_bytes(), false)]).await;
          settle_n(3).await;
          match p.recv().await {
            Ok(_) => {
              if p.send(msg(b"fresh-reply", false)).await.is_ok() {
                settle_n(3).await;
                while let Ok(fr) = d.recv_multipart().await {
                  if fr.last().map(|m| m.data() == Some(&b"fresh-reply"[..])).unwrap_or(false) {
                    ok = true;
                  }
                }
              }
            }
            Err(rzmq::ZmqError::InvalidState(_)) => {
              // a reply is still owed (the cancelled one never went out): send it now
              let _ = p.send(msg(b"owed-reply", false)).await;
            }
            Err(_) => {}
          }
          if ok {
            break;
          }
        }
        if !ok {
          obs.followup_errors.push("no complete request/reply round trip possible after the cancelled REP.send".into());
        }
        drop(l);
      }
    }
    let _ = tokio::time::timeout(std::time::Duration::from_secs(30), ctx.term()).await;
    obs
  })
}

/// Polls a future exactly once; Some(output) if it completed.
async fn futures_poll_once<F: std::future::Future + Unpin>(f: &mut F) -> Option<F::Output> {
  use std::task::Poll;
  std::future::poll_fn(|cx| match std::pin::Pin::new(&mut *f).poll(cx) {
    Poll::Ready(v) => Poll::Ready(Some(v)),
    Poll::Pending => Poll::Ready(None),
  })
  .await
}

fn payload_big(tag: &[u8]) -> Vec<u8> {
  let mut v = tag.to_vec();
  v.resize(600, b'.');
  v
}

fn strip_router_identity(flat: Vec<(Vec<u8>, bool)>) -> Vec<(Vec<u8>, bool)> {
  // ROUTER output: [identity(MORE), payload...]; remove the first frame of each message
  let mut out = vec![];
  let mut at_start = true;
  for (d, more) in flat {
    if at_start {
      at_start = !more; // identity frame itself: skip; if it had no MORE the message was empty
      if more {
        at_start = false;
        continue;
      }
      continue;
    }
    let m = more;
    out.push((d, more));
    if !m {
      at_start = true;
    }
  }
  out
}

fn judge(kind: Kind, obs: &Obs) -> Vec<(String, String, String)> {
  let mut v = vec![];
  let class = format!("{:?}", kind).chars().take(60).collect::<String>();
  if obs.op_result == "task-panicked" {
    v.push(("panic".into(), class.clone(), "the operation panicked".into()));
  }
  for e in &obs.followup_errors {
    v.push(("socket-unusable-after-cancel".into(), class.clone(), format!("op result {}: {}", obs.op_result, e)));
  }
  if matches!(kind, Kind::ReqRecvReply { .. } | Kind::RepRecvRequest { .. } | Kind::ReqSendFullPipe { .. } | Kind::RepSendFullPipe { .. }) {
    return v;
  }
  // reconstruct messages from the flat stream
  let mut flat = obs.flat.clone();
  if let Kind::RecvThenTraffic { ty: Ty::DealerRouter, .. } | Kind::SendFullPipe { ty: Ty::DealerRouter, .. } = kind {
    flat = strip_router_identity(flat);
  }
  let mut msgs: Vec<Vec<Vec<u8>>> = vec![];
  let mut cur = vec![];
  for (d, more) in &flat {
    cur.push(d.clone());
    if !*more {
      msgs.push(std::mem::take(&mut cur));
    }
  }
  if !cur.is_empty() {
    v.push(("partial-message-delivered".into(), class.clone(), format!("the stream seen by the application ends inside a message: {:?}", cur.iter().map(|f| String::from_utf8_lossy(&f[..f.len().min(12)]).to_string()).collect::<Vec<_>>())));
  }
  // every delivered message must be one of the offered ones, whole; order preserved; no duplicates
  let mut idx = 0usize;
  for m in &msgs {
    let mut found = None;
    for (j, (f, _)) in obs.offered.iter().enumerate().skip(idx) {
      if f == m {
        found = Some(j);
        break;
      }
    }
    match found {
      Some(j) => {
        // everything skipped over must have been the cancelled message (allowed to be absent)
        for (f, cancelled) in &obs.offered[idx..j] {
          if !*cancelled {
            v.push(("queued-message-lost".into(), class.clone(), format!("message {:?} was accepted/queued but never delivered (op result {})", f.iter().map(|x| String::from_utf8_lossy(&x[..x.len().min(12)]).to_string()).collect::<Vec<_>>(), obs.op_result)));
          }
        }
        idx = j + 1;
      }
      None => {
        v.push((
          "partial-or-foreign-message-delivered".into(),
          class.clone(),
          format!("application saw {:?} which is not a whole offered message (or is a duplicate / out of order); op result {}", m.iter().map(|x| String::from_utf8_lossy(&x[..x.len().min(12)]).to_string()).collect::<Vec<_>>(), obs.op_result),
        ));
        break;
      }
    }
  }
  if v.is_empty() {
    for (f, cancelled) in &obs.offered[idx..] {
      if !*cancelled {
        v.push(("queued-message-lost".into(), class.clone(), format!("message {:?} was accepted but never delivered (op result {})", f.iter().map(|x| String::from_utf8_lossy(&x[..x.len().min(12)]).to_string()).collect::<Vec<_>>(), obs.op_result)));
      }
    }
  }
  v
}

fn kinds(tier: Tier) -> Vec<Kind> {
  let mut v = vec![];
  for ty in [Ty::PushPull, Ty::DealerRouter, Ty::RouterDealer, Ty::PubSub, Ty::DealerDealer] {
    for multipart in [false, true] {
      for rcvtimeo in [-1, 40] {
        v.push(Kind::RecvThenTraffic { ty, multipart, rcvtimeo });
      }
    }
  }
  for ty in [Ty::PushPull, Ty::DealerRouter, Ty::RouterDealer, Ty::DealerDealer] {
    for multipart in [false, true] {
      for sndtimeo in [-1, 40] {
        v.push(Kind::SendFullPipe { ty, multipart, sndtimeo });
      }
    }
  }
  v.push(Kind::SendNoPeer { ty: Ty::PushPull });
  v.push(Kind::SendNoPeer { ty: Ty::DealerRouter });
  v.push(Kind::RouterFramewise);
  for multipart in [false, true] {
    v.push(Kind::ReqRecvReply { multipart });
    v.push(Kind::RepRecvRequest { multipart });
  }
  for sndtimeo in [-1, 40] {
    v.push(Kind::ReqSendFullPipe { sndtimeo });
    v.push(Kind::RepSendFullPipe { sndtimeo });
  }
  let _ = tier;
  v
}


// ------------------------------------------------------------------------------------------------
// E3: draining a deep backlog with every recv cancelled at its k-th Pending
// ------------------------------------------------------------------------------------------------

#[derive(Clone, Copy, Debug, PartialEq, Eq)]
enum DrainRx {
  Pull,
  Sub,
  Dealer,
  Router,
  /// REP fed by a DEALER that pipelines [delimiter, body] requests; every request is answered
  Rep,
}

#[derive(Clone, Copy, Debug)]
struct DrainCell {
  rx: DrainRx,
  inproc: bool,
  multipart_call: bool,
  backlog: usize,
  /// the peer keeps sending while the application drains (false: everything is queued first)
  live_traffic: bool,
  k: usize,
}

#[derive(Debug, Default, Clone)]
struct DrainOut {
  sent: usize,
  got: Vec<u64>,
  torn: Option<String>,
  cancelled: usize,
  errors: Vec<String>,
}

fn drain_world(c: DrainCell) -> world::WorldResult<DrainOut> {
  world::run(1, move || async move {
    let ctx = Context::new().expect("context");
    let (ta, tb) = match c.rx {
      DrainRx::Pull => (SocketType::Push, SocketType::Pull),
      DrainRx::Sub => (SocketType::Pub, SocketType::Sub),
      DrainRx::Dealer => (SocketType::Dealer, SocketType::Dealer),
      DrainRx::Router => (SocketType::Dealer, SocketType::Router),
      DrainRx::Rep => (SocketType::Dealer, SocketType::Rep),
    };
    let a = stack::mk(&ctx, ta, &[(o::SNDTIMEO, 500), (o::SNDHWM, 5000), (o::RCVHWM, 5000), (o::LINGER, 0)]).await;
    let b = stack::mk(&ctx, tb, &[(o::RCVTIMEO, 60), (o::RCVHWM, 5000), (o::SNDHWM, 5000), (o::SNDTIMEO, 200), (o::LINGER, 0)]).await;
    if c.rx == DrainRx::Sub {
      b.set_option(o::SUBSCRIBE, &b""[..]).await.unwrap();
    }
    let mut out = DrainOut::default();
    let link = if c.inproc {
      b.bind("inproc://c09-drain").await.expect("bind");
      a.connect("inproc://c09-drain").await.expect("connect");
      None
    } else {
      Some(stack::link_pair(&a, &b, 1 << 16).await)
    };
    settle_n(6).await;
    let send_one = |a: Socket, i: u64, rep: bool| async move {
      let mut body = format!("d{:08}", i).into_bytes();
      body.resize(24, b'.');
      if rep {
        // (rzmq's DEALER prepends the empty delimiter itself)
        a.send(msg(&body, false)).await
      } else if i % 5 == 3 {
        // some messages are multipart so that a torn message would show
        a.send_multipart(vec![msg(&body, true), msg(b"tail", false)]).await
      } else {
        a.send(msg(&body, false)).await
      }
    };
    let is_rep = c.rx == DrainRx::Rep;
    let pre = if c.live_traffic { c.backlog / 2 } else { c.backlog };
    for i in 0..pre as u64 {
      if send_one(a.clone(), i, is_rep).await.is_ok() {
        out.sent += 1;
      }
      if i % 64 == 63 {
        settle_n(1).await;
      }
    }
    settle_n(8).await;
    let feeder = if c.live_traffic {
      let a2 = a.clone();
      let (from, to) = (pre as u64, c.backlog as u64);
      Some(tokio::spawn(async move {
        let mut n = 0usize;
        for i in from..to {
          if send_one(a2.clone(), i, is_rep).await.is_ok() {
            n += 1;
          }
          if i % 7 == 0 {
            tokio::task::yield_now().await;
          }
        }
        n
      }))
    } else {
      None
    };
    // the application: every receive call is dropped at its k-th Pending and simply issued again
    let mut idle = 0;
    let mut guard = 0usize;
    while idle < 3 && guard < 40 * c.backlog + 1000 {
      guard += 1;
      let r: Option<Result<Vec<Msg>, rzmq::ZmqError>> = if c.multipart_call {
        CancelAt::new(async { b.recv_multipart().await.map(|v| v.into_iter().collect::<Vec<Msg>>()) }, c.k).await
      } else {
        // frame by frame: a whole message is assembled from consecutive recv() calls, each of them cancellable
        CancelAt::new(async { b.recv().await.map(|m| vec![m]) }, c.k).await
      };
      match r {
        None => {
          out.cancelled += 1;
          // a dropped call that was parked on an empty queue: let the world move
          tokio::time::sleep(std::time::Duration::from_millis(1)).await;
          if out.cancelled > 20 * c.backlog + 500 {
            break;
          }
        }
        Some(Ok(mut frames)) => {
          idle = 0;
          if !c.multipart_call {
            while frames.last().map(|m| m.is_more()).unwrap_or(false) {
              match b.recv().await {
                Ok(m) => frames.push(m),
                Err(e) => {
                  out.torn = Some(format!("message ends with MORE and the next recv() fails: {}", e));
                  break;
                }
              }
            }
          }
          let mut fr: Vec<Vec<u8>> = frames.iter().map(|m| m.data().unwrap_or(&[]).to_vec()).collect();
          if c.rx == DrainRx::Router && !fr.is_empty() {
            fr.remove(0);
          }
          let body = fr.first().cloned().unwrap_or_default();
          let seq = std::str::from_utf8(&body).ok().and_then(|t| t.get(1..9)).and_then(|t| t.parse::<u64>().ok());
          match seq {
            Some(i) if body.first() == Some(&b'd') => {
              let want_tail = !is_rep && i % 5 == 3;
              let ok_shape = if want_tail { fr.len() == 2 && fr[1] == b"tail" } else { fr.len() == 1 };
              if !ok_shape && out.torn.is_none() {
                out.torn = Some(format!("message {} arrived as {} frames", i, fr.len()));
              }
              out.got.push(i);
            }
            _ => {
              if out.torn.is_none() {
                out.torn = Some(format!("unexpected message of {} frames, first {:?}", fr.len(), String::from_utf8_lossy(&body)));
              }
            }
          }
          if is_rep {
            if let Err(e) = b.send(msg(b"ok", false)).await {
              out.errors.push(format!("REP send: {}", e));
            }
          }
        }
        Some(Err(e)) => {
          if stack::is_would_block(&e) {
            idle += 1;
          } else {
            out.errors.push(e.to_string());
            idle += 1;
          }
        }
      }
    }
    if let Some(f) = feeder {
      out.sent += tokio::time::timeout(std::time::Duration::from_secs(30), f).await.ok().and_then(|r| r.ok()).unwrap_or(0);
    }
    drop(link);
    let _ = tokio::time::timeout(std::time::Duration::from_secs(30), ctx.term()).await;
    out
  })
}

fn drain_cells(tier: Tier) -> Vec<DrainCell> {
  let mut v = vec![];
  for rx in [DrainRx::Pull, DrainRx::Sub, DrainRx::Dealer, DrainRx::Router, DrainRx::Rep] {
    for inproc in [false, true] {
      for multipart_call in [false, true] {
        for backlog in if tier == Tier::Thorough { vec![3usize, 150, 700, 2100] } else { vec![150usize, 700] } {
          for live_traffic in [false, true] {
            for k in if tier == Tier::Thorough { vec![1usize, 2, 3, 5] } else { vec![1usize, 2] } {
              if tier == Tier::Quick && backlog == 700 && (k != 1 || live_traffic) {
                continue;
              }
              if matches!(rx, DrainRx::Rep | DrainRx::Dealer) && inproc {
                continue; // rzmq's inproc accepts only PUSH-PULL, PUB-SUB, REQ-REP, DEALER-ROUTER (and a REQ cannot pipeline)
              }
              v.push(DrainCell { rx, inproc, multipart_call, backlog, live_traffic, k });
            }
          }
        }
      }
    }
  }
  v
}

fn drain_sub(tier: Tier) -> Sub {
  let mut sub = Sub::new("backlog-drain-cancellation", "E3");
  sub.rule = "case = one world: a peer queues N numbered messages (every fifth one multipart) for a PULL / SUB / DEALER / ROUTER / REP socket, all before the application starts or half of them while it drains; the application drains with recv() or recv_multipart(), and EVERY call is dropped at its k-th Pending and issued again; non-trivial = all N were accepted for sending; oracle: the application sees exactly 0..N in order, whole, once; no call fails with anything but a timeout".into();
  let list = drain_cells(tier);
  sub.bounds = json!({"cells": list.len(), "backlogs": if tier == Tier::Thorough { vec![3, 150, 700, 2100] } else { vec![150, 700] }, "k": if tier == Tier::Thorough { vec![1, 2, 3, 5] } else { vec![1, 2] }});
  par::enumerate(&mut sub, list.len(), |i| {
    let c = list[i];
    let r = drain_world(c);
    let wit = json!({"explorer": "e3", "sub": "backlog-drain-cancellation", "index": i, "cell": format!("{:?}", c)});
    let class = format!("{:?}:{}:{}", c.rx, if c.inproc { "inproc" } else { "zmtp" }, if c.multipart_call { "recv_multipart" } else { "recv" });
    let mut case = Case { steps: c.backlog as u64, ..Default::default() };
    for p in &r.panics {
      case.violations.push(("panic".into(), p.rsplit(" @ ").next().map(mc_core::short_loc).unwrap_or_default(), p.clone(), wit.clone()));
    }
    if let Some(o) = r.result {
      case.nontrivial = o.sent == c.backlog;
      case.outcome = mc_core::digest(&(o.got.len() == o.sent, o.cancelled > 0, o.torn.is_some(), o.errors.len()));
      case.state = mc_core::digest(&(format!("{:?}", c), o.cancelled));
      let want: Vec<u64> = (0..o.sent as u64).collect();
      if o.got != want {
        let missing: Vec<u64> = want.iter().filter(|i| !o.got.contains(i)).cloned().take(12).collect();
        let mut seen = std::collections::HashSet::new();
        let dups: Vec<u64> = o.got.iter().filter(|i| !seen.insert(**i)).cloned().take(12).collect();
        let clause = if !dups.is_empty() { "message-delivered-twice" } else if !missing.is_empty() { "queued-message-lost" } else { "messages-reordered" };
        case.violations.push((clause.into(), class.clone(), format!("{} sent, {} received with every call dropped at its Pending #{} ({} calls dropped): missing {:?}, duplicated {:?}", o.sent, o.got.len(), c.k, o.cancelled, missing, dups), wit.clone()));
      }
      if let Some(t) = &o.torn {
        case.violations.push(("partial-message-delivered".into(), class.clone(), t.clone(), wit.clone()));
      }
      if let Some(e) = o.errors.first() {
        case.violations.push(("call-fails-after-cancellation".into(), class.clone(), e.clone(), wit.clone()));
      }
      if i % 17 == 0 {
        case.sample = Some(json!({"cell": format!("{:?}", c), "sent": o.sent, "received": o.got.len(), "calls_dropped": o.cancelled}));
      }
    }
    case
  });
  sub
}

pub fn run(tier: Tier) -> Report {
  let mut rep = Report::new("C09", tier, "model_checking");
  rep.assume("cancellation = dropping the API future at one of its Pending points; every such point is tried (k = 1, 2, ... until the operation completes before its k-th Pending)");
  rep.assume("a cancelled send may be absent or delivered whole; everything else offered and accepted must be delivered whole, once, in order");
  // E2: queue-level cancellation (shared with C08)
  let mut sub = Sub::new("queue-cancellation", "E2");
  sub.rule = "C08's F4 (blocked pop dropped at its k-th Pending) and F7 (timed recv dropped) harness families under the preemption-bounded scheduler".into();
  let hs: Vec<_> = crate::c08::harnesses(tier).into_iter().filter(|h| h.name.starts_with("F4") || h.name.starts_with("F7")).collect();
  sub.bounds = json!({"harnesses": hs.iter().map(|h| h.name.clone()).collect::<Vec<_>>()});
  e2::explore_all(&mut sub, hs);
  rep.add(sub);
  // E3: API-level, every k
  let ks = kinds(tier);
  let max_k = 24usize;
  let mut sub = Sub::new("api-cancellation", "E3");
  sub.rule = "case = one world per (situation, k): the real API future is dropped at its k-th Pending, for every k until the operation completes uncancelled; then traffic and follow-up calls; non-trivial = the future really was dropped; oracle: follow-up calls succeed, every delivered message is a whole offered message, in order, once; only the cancelled one may be missing".into();
  sub.bounds = json!({"situations": ks.len(), "max_k": max_k});
  let covered: std::sync::Mutex<Vec<(usize, usize)>> = std::sync::Mutex::new(vec![]);
  par::enumerate(&mut sub, ks.len(), |i| {
    let kind = ks[i];
    let mut c = Case { nontrivial: false, ..Default::default() };
    let mut evals = 0u64;
    let mut states = vec![];
    let mut last_k = 0;
    for k in 1..=max_k {
      let r = run_case(kind, k);
      evals += 1;
      last_k = k;
      let wit = json!({"explorer": "e3", "situation": format!("{:?}", kind), "cancel_at_pending": k});
      for p in &r.panics {
        c.violations.push(("panic".into(), p.rsplit(" @ ").next().map(mc_core::short_loc).unwrap_or_default(), p.clone(), wit.clone()));
      }
      let Some(obs) = r.result else { break };
      states.push(mc_core::digest(&(i, k, obs.op_result.clone(), obs.flat.len())));
      if obs.op_result == "cancelled" {
        c.nontrivial = true;
      }
      for (clause, class, detail) in judge(kind, &obs) {
        c.violations.push((clause, format!("{}@k{}", class, if obs.op_result == "cancelled" { k.to_string() } else { "none".into() }), detail, wit.clone()));
      }
      if obs.completed {
        break;
      }
    }
    covered.lock().unwrap().push((i, last_k));
    c.evals = evals;
    c.steps = evals;
    c.more_states = states;
    c.outcome = mc_core::digest(&(i, last_k));
    c.sample = Some(json!({"situation": format!("{:?}", kind), "cancellation_points_tried": last_k}));
    c
  });
  let cov = covered.into_inner().unwrap();
  sub.notes.push(format!("cancellation points tried per situation: {:?}", cov.iter().map(|(i, k)| format!("{:?}:{}", ks[*i], k)).collect::<Vec<_>>()));
  if cov.iter().any(|(_, k)| *k >= max_k) {
    sub.exhaustive = false;
    sub.caps_hit.push(format!("some situation still had Pending points after k={}", max_k));
  }
  rep.add(sub);
  rep.add(drain_sub(tier));
  rep
}

pub fn replay(sub: &str, w: &Value) -> Result<String, String> {
  Err(format!("replay of {}: re-run ./check C09 (witness {})", sub, w))
}
