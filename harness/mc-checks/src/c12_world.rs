//! C12 stack-level part (E3).
//!
//! (a) pubsub-histories: every script over {subscribe t, unsubscribe t, publish m (single or
//!     multipart)} on a real PUB and a real SUB connected over the ZMTP session path or inproc,
//!     against the two-line reference (some active subscription is a byte-prefix of the first frame).
//! (b) subscriber-isolation: one PUB, 2-3 SUBs of which one does not read / is stalled / vanishes /
//!     is stuck in the handshake; the publisher must never block and the healthy subscribers must
//!     receive everything, in order, without duplicates.

use crate::stack::{self, msg};
use mc_core::par::{self, Case};
use mc_core::world::{self, settle_n, Way};
use mc_core::{Report, Sub, Tier};
use rzmq::socket::options as o;
use rzmq::{Context, Socket, SocketType};
use serde_json::{json, Value};
use std::collections::BTreeMap;
use std::time::Duration;
use tokio::time::Instant;

const TOPICS: [&[u8]; 4] = [b"", b"a", b"ab", &[0x00]];
const FIRST: [&[u8]; 5] = [b"", b"a", b"ab", b"b", &[0x00, 0x01]];

#[derive(Clone, Copy, Debug, PartialEq, Eq, Hash)]
enum Ev {
  Sub(usize),
  Unsub(usize),
  /// publish FIRST[i]; multipart adds two more frames (the second one matching every topic, to show
  /// that only the first frame is filtered on)
  Pub(usize, bool),
}

#[derive(Clone, Copy, Debug, PartialEq, Eq, Hash)]
enum Tr {
  Zmtp,
  Inproc,
}

#[derive(Debug, Default, Clone)]
struct HOut {
  /// per Pub event: what the subscriber got for it (frames), in arrival order
  got: Vec<Vec<Vec<u8>>>,
  want: Vec<Vec<Vec<u8>>>,
  send_errors: Vec<String>,
}

/// When the SUB and the PUB get connected relative to the script.
#[derive(Clone, Copy, Debug, PartialEq, Eq, Hash)]
enum Conn {
  /// before the first event
  AtStart,
  /// just before event k (k >= 1): the subscriptions made so far must be synced to the new publisher
  LateAt(usize),
  /// connected at the start; just before event k the connection is destroyed and a new one is made
  /// (what a reconnect does): the subscription multiset must be replayed to the new connection
  RelinkAt(usize),
  /// connected at the start; just before event k a SECOND publisher connects (it publishes a copy of
  /// every later publication under its own tag)
  SecondPubAt(usize),
}

fn history_world(tr: Tr, script: &[Ev]) -> world::WorldResult<HOut> {
  history_world_conn(tr, script, Conn::AtStart)
}

fn history_world_conn(tr: Tr, script: &[Ev], conn: Conn) -> world::WorldResult<HOut> {
  let script = script.to_vec();
  world::run(1, move || async move {
    let ctx = Context::new().expect("context");
    let p = stack::mk(&ctx, SocketType::Pub, &[(o::LINGER, 0), (o::SNDTIMEO, 100)]).await;
    let p2 = stack::mk(&ctx, SocketType::Pub, &[(o::LINGER, 0), (o::SNDTIMEO, 100)]).await;
    let s = stack::mk(&ctx, SocketType::Sub, &[(o::LINGER, 0), (o::RCVTIMEO, 20)]).await;
    if tr == Tr::Inproc {
      p.bind("inproc://c12").await.expect("bind");
      p2.bind("inproc://c12-second").await.expect("bind");
    }
    let mut links: Vec<mc_core::world::Link> = vec![];
    let mut connected = false;
    let mut second = false;
    if !matches!(conn, Conn::LateAt(_)) {
      match tr {
        Tr::Zmtp => links.push(stack::link_pair(&s, &p, 1 << 16).await),
        Tr::Inproc => s.connect("inproc://c12").await.expect("connect"),
      }
      connected = true;
    }
    settle_n(6).await;
    let mut out = HOut::default();
    let mut subs: BTreeMap<Vec<u8>, usize> = BTreeMap::new();
    let mut seq = 0u32;
    for (idx, e) in script.iter().enumerate() {
      match conn {
        Conn::LateAt(k) if k == idx => {
          match tr {
            Tr::Zmtp => links.push(stack::link_pair(&s, &p, 1 << 16).await),
            Tr::Inproc => s.connect("inproc://c12").await.expect("connect"),
          }
          connected = true;
          settle_n(8).await;
        }
        Conn::RelinkAt(k) if k == idx => {
          match tr {
            Tr::Zmtp => {
              links[0].destroy();
              settle_n(8).await;
              links.push(stack::link_pair(&s, &p, 1 << 16).await);
            }
            Tr::Inproc => {
              s.disconnect("inproc://c12").await.expect("disconnect");
              settle_n(8).await;
              s.connect("inproc://c12").await.expect("connect");
            }
          }
          settle_n(8).await;
        }
        Conn::SecondPubAt(k) if k == idx => {
          match tr {
            Tr::Zmtp => links.push(stack::link_pair(&s, &p2, 1 << 16).await),
            Tr::Inproc => s.connect("inproc://c12-second").await.expect("connect"),
          }
          second = true;
          settle_n(8).await;
        }
        _ => {}
      }
      match *e {
        Ev::Sub(i) => {
          s.set_option(o::SUBSCRIBE, TOPICS[i]).await.expect("subscribe");
          *subs.entry(TOPICS[i].to_vec()).or_insert(0) += 1;
        }
        Ev::Unsub(i) => {
          // unsubscribing something never subscribed must change nothing (an error return is fine)
          let _ = s.set_option(o::UNSUBSCRIBE, TOPICS[i]).await;
          let c = subs.entry(TOPICS[i].to_vec()).or_insert(0);
          *c = c.saturating_sub(1);
        }
        Ev::Pub(i, mp) => {
          seq += 1;
          let mut first = FIRST[i].to_vec();
          // make every message unique without changing which topics match: append after the topic bytes
          first.extend_from_slice(format!("#{}", seq).as_bytes());
          let frames: Vec<Vec<u8>> = if mp { vec![first.clone(), b"ab-second-frame".to_vec(), vec![]] } else { vec![first.clone()] };
          let r = if mp {
            let n = frames.len();
            p.send_multipart(frames.iter().enumerate().map(|(k, f)| msg(f, k + 1 < n)).collect()).await
          } else {
            p.send(msg(&first, false)).await
          };
          if let Err(e) = r {
            out.send_errors.push(e.to_string());
          }
          let matches = subs.iter().any(|(t, c)| *c > 0 && first.starts_with(t));
          if connected && matches {
            out.want.push(frames.clone());
          }
          if second {
            // the second publisher's copy: same first frame (same verdict), an extra tag frame
            settle_n(4).await;
            let mut f2 = frames.clone();
            f2.push(b"from-second".to_vec());
            let n = f2.len();
            if let Err(e) = p2.send_multipart(f2.iter().enumerate().map(|(k, f)| msg(f, k + 1 < n)).collect()).await {
              out.send_errors.push(format!("second publisher: {}", e));
            }
            if matches {
              out.want.push(f2);
            }
          }
        }
      }
      settle_n(4).await;
      // drain what arrived
      loop {
        match s.recv_multipart().await {
          Ok(fr) => out.got.push(fr.iter().map(|m| m.data().unwrap_or(&[]).to_vec()).collect()),
          Err(_) => break,
        }
      }
    }
    for l in &links {
      l.destroy();
    }
    let _ = tokio::time::timeout(Duration::from_secs(30), ctx.term()).await;
    out
  })
}

fn scripts(depth: usize) -> Vec<Vec<Ev>> {
  let mut alpha = vec![];
  for i in 0..TOPICS.len() {
    alpha.push(Ev::Sub(i));
  }
  for i in 0..TOPICS.len() {
    alpha.push(Ev::Unsub(i));
  }
  for i in 0..FIRST.len() {
    alpha.push(Ev::Pub(i, false));
  }
  alpha.push(Ev::Pub(1, true));
  alpha.push(Ev::Pub(3, true));
  let mut out = vec![];
  let mut level: Vec<Vec<Ev>> = vec![vec![]];
  for d in 0..depth {
    let mut next = vec![];
    for s in &level {
      for a in &alpha {
        // the last event of a script is always a publication (anything else is unobservable)
        if d + 1 == depth && !matches!(a, Ev::Pub(..)) {
          continue;
        }
        let mut s2 = s.clone();
        s2.push(*a);
        next.push(s2);
      }
    }
    level = next;
  }
  out.extend(level);
  out
}

fn histories_sub(tier: Tier) -> Sub {
  let mut sub = Sub::new("pubsub-histories", "E3");
  let depth = tier.pick(4, 6);
  sub.rule = "case = one world per script of exactly `depth` events over {subscribe/unsubscribe one of 4 topics, publish one of 5 first frames as a single frame, publish 2 of them as a 3-frame message} x transport, each event followed by quiescence; non-trivial = some subscription was active when something was published; oracle: the SUB application receives exactly the publications whose first frame has an active subscription as a byte-prefix, whole, in publication order, once".into();
  let sc = scripts(depth);
  let mut work = vec![];
  for tr in [Tr::Zmtp, Tr::Inproc] {
    for i in 0..sc.len() {
      work.push((tr, i));
    }
  }
  sub.bounds = json!({"depth": depth, "scripts": sc.len(), "worlds": work.len(), "topics": TOPICS.len(), "first_frames": FIRST.len()});
  par::enumerate(&mut sub, work.len(), |k| {
    let (tr, i) = work[k];
    let script = &sc[i];
    let r = history_world(tr, script);
    let wit = json!({"explorer": "e3", "sub": "pubsub-histories", "transport": format!("{:?}", tr), "script": format!("{:?}", script)});
    let mut c = Case { steps: script.len() as u64, ..Default::default() };
    let class = format!("{:?}", tr);
    for p in &r.panics {
      c.violations.push(("panic".into(), p.rsplit(" @ ").next().map(mc_core::short_loc).unwrap_or_default(), p.clone(), wit.clone()));
    }
    if let Some(o) = r.result {
      c.nontrivial = !o.want.is_empty();
      c.outcome = mc_core::digest(&(o.want.len(), o.got.len()));
      c.state = mc_core::digest(&(k, o.got.len()));
      if !o.send_errors.is_empty() {
        c.violations.push(("publisher-send-failed".into(), class.clone(), format!("{:?}", o.send_errors), wit.clone()));
      }
      if o.got != o.want {
        let show = |v: &Vec<Vec<Vec<u8>>>| v.iter().map(|m| m.iter().map(|f| String::from_utf8_lossy(f).to_string()).collect::<Vec<_>>()).collect::<Vec<_>>();
        let clause = if o.got.len() < o.want.len() {
          "matching-message-not-delivered"
        } else if o.got.len() > o.want.len() {
          "non-matching-or-duplicate-message-delivered"
        } else {
          "delivered-messages-differ"
        };
        c.violations.push((clause.into(), class.clone(), format!("delivered {:?}, reference {:?}", show(&o.got), show(&o.want)), wit.clone()));
      }
    }
    c
  });
  sub
}

/// (a2) the same histories with the connection made late, remade, or joined by a second publisher.
fn connection_histories_sub(tier: Tier) -> Sub {
  let mut sub = Sub::new("pubsub-connection-histories", "E3");
  let depth = tier.pick(3, 4);
  sub.rule = "case = one world per (script of exactly `depth` events as in pubsub-histories) x (connection made just before event k / destroyed and remade just before event k / a second publisher connected just before event k, k = 1..depth-1) x transport; a publication made while no connection exists is owed to nobody; non-trivial = something was owed; oracle: as pubsub-histories - in particular the subscription multiset built before the (new) connection existed governs what that connection delivers".into();
  let sc = scripts(depth);
  let mut work = vec![];
  for tr in [Tr::Zmtp, Tr::Inproc] {
    for k in 1..depth {
      for conn in [Conn::LateAt(k), Conn::RelinkAt(k), Conn::SecondPubAt(k)] {
        // inproc has no connection loss, and disconnect() of an inproc endpoint is a no-op at the pinned
        // commit (transport/inproc/mod.rs disconnect_inproc: "nothing to clean up"), so disconnect +
        // connect yields two connections to the publisher and, as in libzmq, two copies of everything:
        // that is disconnect() semantics, not something C12 states - remaking is explored on ZMTP only
        if tr == Tr::Inproc && matches!(conn, Conn::RelinkAt(_)) {
          continue;
        }
        for i in 0..sc.len() {
          work.push((tr, conn, i));
        }
      }
    }
  }
  sub.bounds = json!({"depth": depth, "scripts": sc.len(), "worlds": work.len(), "connection_modes": ["LateAt(k)", "RelinkAt(k)", "SecondPubAt(k)"], "k": format!("1..{}", depth)});
  par::enumerate(&mut sub, work.len(), |n| {
    let (tr, conn, i) = work[n];
    let script = &sc[i];
    let r = history_world_conn(tr, script, conn);
    let wit = json!({"explorer": "e3", "sub": "pubsub-connection-histories", "transport": format!("{:?}", tr), "conn": format!("{:?}", conn), "script": format!("{:?}", script)});
    let mut c = Case { steps: script.len() as u64 + 1, ..Default::default() };
    let class = format!("{:?}:{}", tr, format!("{:?}", conn).split('(').next().unwrap_or(""));
    for p in &r.panics {
      c.violations.push(("panic".into(), p.rsplit(" @ ").next().map(mc_core::short_loc).unwrap_or_default(), p.clone(), wit.clone()));
    }
    if let Some(o) = r.result {
      c.nontrivial = !o.want.is_empty();
      c.outcome = mc_core::digest(&(o.want.len(), o.got.len()));
      c.state = mc_core::digest(&(n, o.got.len()));
      if !o.send_errors.is_empty() {
        c.violations.push(("publisher-send-failed".into(), class.clone(), format!("{:?}", o.send_errors), wit.clone()));
      }
      if o.got != o.want {
        let show = |v: &Vec<Vec<Vec<u8>>>| v.iter().map(|m| m.iter().map(|f| String::from_utf8_lossy(f).to_string()).collect::<Vec<_>>()).collect::<Vec<_>>();
        let clause = if o.got.len() < o.want.len() {
          "matching-message-not-delivered"
        } else if o.got.len() > o.want.len() {
          "non-matching-or-duplicate-message-delivered"
        } else {
          "delivered-messages-differ"
        };
        c.violations.push((clause.into(), class.clone(), format!("delivered {:?}, reference {:?}", show(&o.got), show(&o.want)), wit.clone()));
      }
    }
    c
  });
  sub
}

// ------------------------------------------------------------------------------------------------
// (b) isolation
// ------------------------------------------------------------------------------------------------

#[derive(Clone, Copy, Debug, PartialEq, Eq, Hash)]
enum Bad {
  /// application never calls recv
  NotReading,
  /// network towards it stops moving after the handshake
  LinkStalled,
  /// connection cut in the middle of the publications
  Vanishes,
  /// never gets past the first bytes of the handshake
  HandshakeHeld,
  /// inproc peer whose application never reads
  InprocNotReading,
}

#[derive(Clone, Copy, Debug)]
struct Iso {
  bad: Bad,
  hwm: i32,
  n: usize,
  size: usize,
  healthy_inproc: bool,
  two_healthy: bool,
  /// SNDTIMEO of the publisher (-1 = the default)
  sndtimeo: i32,
}

#[derive(Debug, Default, Clone)]
struct IOut {
  slowest_send_ms: u64,
  send_errors: usize,
  healthy_got: Vec<Vec<u32>>,
  corrupt: bool,
}

fn iso_world(c: Iso) -> world::WorldResult<IOut> {
  world::run(1, move || async move {
    let ctx = Context::new().expect("context");
    let p = stack::mk(&ctx, SocketType::Pub, &[(o::LINGER, 0), (o::SNDHWM, c.hwm)]).await;
    if c.sndtimeo != -1 {
      p.set_option(o::SNDTIMEO, c.sndtimeo).await.expect("sndtimeo");
    }
    p.bind("inproc://c12-iso").await.expect("bind");
    let mut links = vec![];
    let mk_sub = |rcvhwm: i32| {
      let ctx = ctx.clone();
      async move {
        let s = stack::mk(&ctx, SocketType::Sub, &[(o::LINGER, 0), (o::RCVTIMEO, 20), (o::RCVHWM, rcvhwm)]).await;
        s.set_option(o::SUBSCRIBE, &b""[..]).await.expect("subscribe");
        s
      }
    };
    // healthy subscribers
    let mut healthy: Vec<Socket> = vec![];
    for _ in 0..(if c.two_healthy { 2 } else { 1 }) {
      let s = mk_sub(100_000).await;
      if c.healthy_inproc {
        s.connect("inproc://c12-iso").await.expect("connect");
      } else {
        links.push(stack::link_pair(&s, &p, 1 << 16).await);
      }
      healthy.push(s);
    }
    // the bad one
    let bad = mk_sub(c.hwm).await;
    let mut bad_link = None;
    match c.bad {
      Bad::InprocNotReading => bad.connect("inproc://c12-iso").await.expect("connect"),
      Bad::HandshakeHeld => {
        let (s_end, la) = tokio::io::duplex(256);
        let (lb, p_end) = tokio::io::duplex(256);
        let l = world::Link::spawn(la, lb);
        l.hold_both();
        l.allow(Way::AtoB, 12);
        l.allow(Way::BtoA, 12);
        let (u1, u2) = (stack::fresh_uri(), stack::fresh_uri());
        rzmq::verif::session::attach_stream(&bad, s_end, false, &u1, &u1).await;
        rzmq::verif::session::attach_stream(&p, p_end, true, &u2, &u2).await;
        bad_link = Some(l);
      }
      _ => {
        // small stream buffers so that a stalled network really backs up
        let l = stack::link_pair(&bad, &p, 512).await;
        bad_link = Some(l);
      }
    }
    settle_n(8).await;
    if let (Bad::LinkStalled, Some(l)) = (c.bad, &bad_link) {
      l.stall(Way::BtoA, true);
    }
    let mut out = IOut::default();
    out.healthy_got = vec![vec![]; healthy.len()];
    for i in 0..c.n {
      if let (Bad::Vanishes, Some(l)) = (c.bad, &bad_link) {
        if i == c.n / 2 {
          l.cut();
        }
      }
      let mut body = crate::common::payload(i as u32 + 1, c.size.max(8));
      body[..4].copy_from_slice(&(i as u32).to_be_bytes());
      let t = Instant::now();
      let r = tokio::time::timeout(Duration::from_secs(3600), p.send(msg(&body, false))).await;
      let ms = t.elapsed().as_millis() as u64;
      out.slowest_send_ms = out.slowest_send_ms.max(ms);
      if !matches!(r, Ok(Ok(()))) {
        out.send_errors += 1;
      }
      settle_n(2).await;
      // healthy subscribers read promptly
      for (k, h) in healthy.iter().enumerate() {
        while let Ok(m) = h.recv().await {
          let d = m.data().unwrap_or(&[]).to_vec();
          if d.len() < 4 {
            out.corrupt = true;
            continue;
          }
          let seq = u32::from_be_bytes(d[..4].try_into().unwrap());
          let mut want = crate::common::payload(seq + 1, d.len());
          want[..4].copy_from_slice(&seq.to_be_bytes());
          if want != d {
            out.corrupt = true;
          }
          out.healthy_got[k].push(seq);
        }
      }
    }
    for l in &links {
      l.destroy();
    }
    if let Some(l) = &bad_link {
      l.destroy();
    }
    drop(bad);
    let _ = tokio::time::timeout(Duration::from_secs(30), ctx.term()).await;
    out
  })
}

fn iso_cells(tier: Tier) -> Vec<Iso> {
  let mut v = vec![];
  for bad in [Bad::NotReading, Bad::LinkStalled, Bad::Vanishes, Bad::HandshakeHeld, Bad::InprocNotReading] {
    for hwm in [1, 4, 1000] {
      for (n, size) in [(1usize, 8usize), (12, 8), (60, 300), (12, 70_000)] {
        if tier == Tier::Quick && hwm == 1000 && size == 70_000 {
          continue;
        }
        for healthy_inproc in [false, true] {
          for two_healthy in [false, true] {
            if tier == Tier::Quick && two_healthy && (size != 300) {
              continue;
            }
            for sndtimeo in [-1, 0, 100] {
              if sndtimeo != -1 && (two_healthy || (tier == Tier::Quick && size == 70_000)) {
                continue;
              }
              v.push(Iso { bad, hwm, n, size, healthy_inproc, two_healthy, sndtimeo });
            }
          }
        }
      }
    }
  }
  v
}

fn isolation_sub(tier: Tier) -> Sub {
  let mut sub = Sub::new("subscriber-isolation", "E3");
  sub.rule = "case = one world per (bad-subscriber kind x HWM x publications x size x healthy transport x 1-2 healthy subscribers x publisher SNDTIMEO in {-1, 0, 100 ms}) cell: a PUB with healthy subscribers that read after every publication and one subscriber that does not read / whose network is stalled / that vanishes half-way / that is stuck in the handshake; non-trivial = more publications than the bad subscriber's queues hold; oracle: every PUB send returns Ok within 50 ms virtual, each healthy subscriber receives all publications in order, once, intact".into();
  let list = iso_cells(tier);
  sub.bounds = json!({"cells": list.len(), "hwm": [1, 4, 1000], "publications": [1, 12, 60], "sizes": [8, 300, 70000]});
  par::enumerate(&mut sub, list.len(), |i| {
    let c = list[i];
    let r = iso_world(c);
    let wit = json!({"explorer": "e3", "sub": "subscriber-isolation", "cell": format!("{:?}", c)});
    let class = format!("{:?}:healthy-{}:sndtimeo{}", c.bad, if c.healthy_inproc { "inproc" } else { "zmtp" }, c.sndtimeo);
    let mut case = Case { steps: c.n as u64 + 3, nontrivial: c.n > 2 * c.hwm as usize, ..Default::default() };
    for p in &r.panics {
      case.violations.push(("panic".into(), p.rsplit(" @ ").next().map(mc_core::short_loc).unwrap_or_default(), p.clone(), wit.clone()));
    }
    if let Some(o) = r.result {
      case.outcome = mc_core::digest(&(o.slowest_send_ms > 0, o.send_errors, o.healthy_got.iter().map(|g| g.len()).collect::<Vec<_>>()));
      case.state = mc_core::digest(&(i, o.slowest_send_ms));
      if o.slowest_send_ms > 50 {
        case.violations.push(("publisher-blocked-by-subscriber".into(), class.clone(), format!("a PUB send took {} ms virtual (HWM {}, {} publications of {} bytes)", o.slowest_send_ms, c.hwm, c.n, c.size), wit.clone()));
      }
      if o.send_errors > 0 {
        case.violations.push(("publisher-send-failed".into(), class.clone(), format!("{} of {} PUB sends returned an error or never returned", o.send_errors, c.n), wit.clone()));
      }
      let want: Vec<u32> = (0..c.n as u32).collect();
      for (k, g) in o.healthy_got.iter().enumerate() {
        if *g != want {
          case.violations.push(("healthy-subscriber-missed-or-reordered".into(), class.clone(), format!("healthy subscriber {} received {} of {} publications: {:?}", k, g.len(), c.n, g.iter().take(20).collect::<Vec<_>>()), wit.clone()));
          break;
        }
      }
      if o.corrupt {
        case.violations.push(("corrupted-message".into(), class.clone(), "a healthy subscriber received a message that does not match what was published".into(), wit.clone()));
      }
      if i % 37 == 0 {
        case.sample = Some(json!({"cell": format!("{:?}", c), "slowest_send_ms_virtual": o.slowest_send_ms, "healthy_received": o.healthy_got.iter().map(|g| g.len()).collect::<Vec<_>>()}));
      }
    }
    case
  });
  sub
}


// ------------------------------------------------------------------------------------------------
// (c) a slow subscriber with a topic filter: order and filtering while its queue is full
// ------------------------------------------------------------------------------------------------

#[derive(Clone, Copy, Debug)]
struct Slow {
  inproc: bool,
  rcvhwm: i32,
  n: usize,
  /// which publications carry the subscribed topic "A": index % period < matching
  period: usize,
  matching: usize,
  /// the subscriber drains `burst` messages after every `every` publications (0 = only at the end)
  every: usize,
  multipart: bool,
}

fn slow_world(c: Slow) -> world::WorldResult<(Vec<u32>, bool, usize)> {
  world::run(1, move || async move {
    let ctx = Context::new().expect("context");
    let p = stack::mk(&ctx, SocketType::Pub, &[(o::LINGER, 0), (o::SNDHWM, 1000)]).await;
    let s = stack::mk(&ctx, SocketType::Sub, &[(o::LINGER, 0), (o::RCVTIMEO, 20), (o::RCVHWM, c.rcvhwm)]).await;
    s.set_option(o::SUBSCRIBE, &b"A"[..]).await.expect("subscribe");
    let link = if c.inproc {
      p.bind("inproc://c12-slow").await.expect("bind");
      s.connect("inproc://c12-slow").await.expect("connect");
      None
    } else {
      Some(stack::link_pair(&s, &p, 1 << 16).await)
    };
    settle_n(8).await;
    let mut got: Vec<u32> = vec![];
    let mut foreign = false;
    let mut published_a = 0usize;
    let mut take = |fr: Vec<rzmq::Msg>, got: &mut Vec<u32>, foreign: &mut bool| {
      let first = fr.first().map(|m| m.data().unwrap_or(&[]).to_vec()).unwrap_or_default();
      if first.len() >= 5 && first[0] == b'A' {
        got.push(u32::from_be_bytes(first[1..5].try_into().unwrap()));
      } else {
        *foreign = true;
      }
    };
    for i in 0..c.n {
      let is_a = i % c.period < c.matching;
      let mut first = vec![if is_a { b'A' } else { b'B' }];
      first.extend_from_slice(&(i as u32).to_be_bytes());
      if is_a {
        published_a += 1;
      }
      let _ = if c.multipart { p.send_multipart(vec![msg(&first, true), msg(b"Abody", false)]).await } else { p.send(msg(&first, false)).await };
      if c.every > 0 && (i + 1) % c.every == 0 {
        settle_n(2).await;
        for _ in 0..2 {
          if let Ok(fr) = s.recv_multipart().await {
            take(fr, &mut got, &mut foreign);
          }
        }
      }
    }
    settle_n(6).await;
    while let Ok(fr) = s.recv_multipart().await {
      take(fr, &mut got, &mut foreign);
    }
    if let Some(l) = &link {
      l.destroy();
    }
    let _ = tokio::time::timeout(Duration::from_secs(30), ctx.term()).await;
    (got, foreign, published_a)
  })
}

fn slow_cells(tier: Tier) -> Vec<Slow> {
  let mut v = vec![];
  for inproc in [false, true] {
    for rcvhwm in [1, 4, 16] {
      for n in tier.pick(vec![40usize, 300], vec![40, 300, 2000]) {
        for (period, matching) in [(2usize, 1usize), (3, 2), (3, 1), (1, 1), (8, 7)] {
          for every in [0usize, 5, 50] {
            for multipart in [false, true] {
              if tier == Tier::Quick && multipart && (period != 2 || every == 50) {
                continue;
              }
              v.push(Slow { inproc, rcvhwm, n, period, matching, every, multipart });
            }
          }
        }
      }
    }
  }
  v
}

fn slow_sub(tier: Tier) -> Sub {
  let mut sub = Sub::new("slow-subscriber-order", "E3");
  sub.rule = "case = one world per (transport x RCVHWM x publications x topic interleaving x drain pattern x single/multipart) cell: a PUB publishes n messages whose first frame is 'A'+seq or 'B'+seq back-to-back to a SUB subscribed to 'A' whose queue (RCVHWM 1..16) overflows; the SUB drains a little now and then and completely at the end; non-trivial = more matching publications than the queue holds; oracle: the application sees only topic A, with strictly increasing sequence numbers (gaps allowed: a PUB may drop for a full subscriber)".into();
  let list = slow_cells(tier);
  sub.bounds = json!({"cells": list.len()});
  par::enumerate(&mut sub, list.len(), |i| {
    let c = list[i];
    let r = slow_world(c);
    let wit = json!({"explorer": "e3", "sub": "slow-subscriber-order", "cell": format!("{:?}", c)});
    let class = format!("{}:hwm{}", if c.inproc { "inproc" } else { "zmtp" }, c.rcvhwm);
    let mut case = Case { steps: c.n as u64, ..Default::default() };
    for p in &r.panics {
      case.violations.push(("panic".into(), p.rsplit(" @ ").next().map(mc_core::short_loc).unwrap_or_default(), p.clone(), wit.clone()));
    }
    if let Some((got, foreign, published_a)) = r.result {
      case.nontrivial = published_a > c.rcvhwm as usize;
      case.outcome = mc_core::digest(&(got.len() == published_a, foreign));
      case.state = mc_core::digest(&(i, got.len()));
      if foreign {
        case.violations.push(("non-matching-message-delivered".into(), class.clone(), "a message of topic B (or a malformed one) reached the application".into(), wit.clone()));
      }
      if let Some(w) = got.windows(2).find(|w| w[1] <= w[0]) {
        case.violations.push(("out-of-order-or-duplicate".into(), class.clone(), format!("sequence {} delivered after {} ({} of {} matching publications delivered: {:?}...)", w[1], w[0], got.len(), published_a, got.iter().take(24).collect::<Vec<_>>()), wit.clone()));
      }
      if i % 41 == 0 {
        case.sample = Some(json!({"cell": format!("{:?}", c), "matching_published": published_a, "delivered": got.len()}));
      }
    }
    case
  });
  sub
}

pub fn add_world_subs(rep: &mut Report, tier: Tier) {
  rep.assume("E3: events of a pub/sub history are separated by quiescence, so 'when the message reaches the subscriber' is the subscription set at publication time; healthy subscribers have a large RCVHWM and read after every publication");
  rep.add(histories_sub(tier));
  rep.add(connection_histories_sub(tier));
  rep.add(isolation_sub(tier));
  rep.add(slow_sub(tier));
}

pub fn replay(w: &Value) -> Result<String, String> {
  if w["sub"] == "pubsub-histories" {
    let tr = if w["transport"] == "Zmtp" { Tr::Zmtp } else { Tr::Inproc };
    for d in [4usize, 5, 6] {
      if let Some(sc) = scripts(d).into_iter().find(|s| w["script"] == format!("{:?}", s)) {
        let r = history_world(tr, &sc);
        if !r.panics.is_empty() {
          return Err(format!("panics: {:?}", r.panics));
        }
        let o = r.result.ok_or("world did not finish")?;
        return if o.got == o.want && o.send_errors.is_empty() { Ok("delivered == reference".into()) } else { Err(format!("{:?}", o)) };
      }
    }
    return Err("script not found".into());
  }
  if w["sub"] == "pubsub-connection-histories" {
    let tr = if w["transport"] == "Zmtp" { Tr::Zmtp } else { Tr::Inproc };
    for d in [3usize, 4] {
      if let Some(sc) = scripts(d).into_iter().find(|s| w["script"] == format!("{:?}", s)) {
        let conn = (1..d).flat_map(|k| [Conn::LateAt(k), Conn::RelinkAt(k), Conn::SecondPubAt(k)]).find(|c| w["conn"] == format!("{:?}", c)).ok_or("connection mode not found")?;
        let r = history_world_conn(tr, &sc, conn);
        if !r.panics.is_empty() {
          return Err(format!("panics: {:?}", r.panics));
        }
        let o = r.result.ok_or("world did not finish")?;
        return if o.got == o.want && o.send_errors.is_empty() { Ok("delivered == reference".into()) } else { Err(format!("{:?}", o)) };
      }
    }
    return Err("script not found".into());
  }
  let c = iso_cells(Tier::Thorough).into_iter().find(|c| w["cell"] == format!("{:?}", c)).ok_or("cell not found")?;
  let r = iso_world(c);
  if !r.panics.is_empty() {
    return Err(format!("panics: {:?}", r.panics));
  }
  let o = r.result.ok_or("world did not finish")?;
  let want: Vec<u32> = (0..c.n as u32).collect();
  if o.slowest_send_ms <= 50 && o.send_errors == 0 && o.healthy_got.iter().all(|g| *g == want) && !o.corrupt {
    Ok(format!("no violation: {:?}", (o.slowest_send_ms, o.send_errors)))
  } else {
    Err(format!("slowest_send_ms={} send_errors={} healthy_got={:?}", o.slowest_send_ms, o.send_errors, o.healthy_got.iter().map(|g| g.len()).collect::<Vec<_>>()))
  }
}
