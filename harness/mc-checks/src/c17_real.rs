//! C17, real-clock part (E4): the reconnect path reads std::time::Instant and dials real tcp
//! sockets, so it cannot run in a paused-clock world. A small matrix of loopback scenarios, each a
//! single real-time execution; every oracle is one-sided in the direction that machine load cannot
//! falsify (reported intervals are exact values; observed gaps have lower bounds only; "traffic
//! resumes" has a generous upper bound).

use crate::stack::msg;
use mc_core::par::{self, Case};
use mc_core::{Sub, Tier};
use rzmq::socket::options as o;
use rzmq::socket::SocketEvent;
use rzmq::{Context, Socket, SocketType};
use serde_json::json;
use std::time::{Duration, Instant};

#[derive(Clone, Copy, Debug, PartialEq, Eq)]
enum Kind {
  /// nobody listens at first; retry events are collected; then a real peer binds
  RefusedThenListener,
  /// connected and talking; the peer's socket closes; after a gap a new peer binds the same port
  ListenerGoneAndBack,
  /// a raw listener accepts and immediately resets every connection, then a real peer takes over
  ResetByPeer,
}

#[derive(Clone, Copy, Debug)]
struct Cell {
  kind: Kind,
  base: i32,
  max: Option<i32>,
  dealer: bool,
}

fn free_port() -> Option<u16> {
  let l = std::net::TcpListener::bind("127.0.0.1:0").ok()?;
  let p = l.local_addr().ok()?.port();
  drop(l);
  Some(p)
}

#[derive(Default, Debug, Clone)]
struct Out {
  skipped: Option<String>,
  reported: Vec<u64>,
  gaps_ms: Vec<u64>,
  accept_gaps_ms: Vec<u64>,
  resumed_after_ms: Option<u64>,
  violations: Vec<(String, String)>,
}

async fn mk(ctx: &Context, ty: SocketType, c: &Cell) -> Socket {
  let s = ctx.socket(ty).expect("socket");
  s.set_option(o::RECONNECT_IVL, c.base).await.expect("ivl");
  if let Some(m) = c.max {
    s.set_option(o::RECONNECT_IVL_MAX, m).await.expect("ivl max");
  }
  s.set_option(o::SNDTIMEO, 100i32).await.unwrap();
  s.set_option(o::RCVTIMEO, 100i32).await.unwrap();
  s.set_option(o::LINGER, 0i32).await.unwrap();
  s
}

async fn bind_retry(s: &Socket, uri: &str) -> bool {
  for _ in 0..50 {
    if s.bind(uri).await.is_ok() {
      return true;
    }
    tokio::time::sleep(Duration::from_millis(100)).await;
  }
  false
}

/// keep sending fresh messages from x until y receives one; returns elapsed ms
async fn resumes(x: &Socket, y: &Socket, dealer: bool, limit: Duration) -> Option<u64> {
  let t0 = Instant::now();
  let mut i = 0u32;
  while t0.elapsed() < limit {
    i += 1;
    let _ = x.send(msg(format!("r-{}", i).as_bytes(), false)).await;
    let got = if dealer { y.recv_multipart().await.map(|_| ()) } else { y.recv().await.map(|_| ()) };
    if got.is_ok() {
      return Some(t0.elapsed().as_millis() as u64);
    }
  }
  None
}

fn judge_reported(c: &Cell, out: &mut Out) {
  let base = c.base as u64;
  let max = c.max.unwrap_or(0) as u64;
  let r = out.reported.clone();
  let cls = format!("{:?}", c.kind);
  if let Some(f) = r.first() {
    if (max == 0 || max >= base) && *f != base && c.kind == Kind::RefusedThenListener {
      out.violations.push(("first-retry-interval-not-reconnect-ivl".into(), format!("{}: first reported interval {} ms, RECONNECT_IVL {} ms (max {})", cls, f, base, max)));
    }
  }
  for w in r.windows(2) {
    if w[1] > 2 * w[0] {
      out.violations.push(("growth-more-than-geometric".into(), format!("{}: reported intervals {:?}", cls, r)));
      break;
    }
  }
  if max >= base && max > 0 {
    if let Some(b) = r.iter().find(|d| **d > max) {
      out.violations.push(("exceeds-reconnect-ivl-max".into(), format!("{}: reported interval {} ms > RECONNECT_IVL_MAX {} ms ({:?})", cls, b, max, r)));
    }
  }
  // (the time between two announcements is recorded in the evidence but not judged: the stamps are
  // taken when this task receives the monitor event, and a late receipt under machine load would
  // shrink the next gap)
}

async fn run_cell(c: Cell) -> Out {
  let mut out = Out::default();
  let Some(port) = free_port() else {
    out.skipped = Some("no free loopback port".into());
    return out;
  };
  let uri = format!("tcp://127.0.0.1:{}", port);
  let ctx = Context::new().expect("ctx");
  let pctx = Context::new().expect("pctx");
  let (tx, ty) = if c.dealer { (SocketType::Dealer, SocketType::Router) } else { (SocketType::Push, SocketType::Pull) };
  let x = mk(&ctx, tx, &c).await;
  let mon = match x.monitor_default().await {
    Ok(m) => m,
    Err(e) => {
      out.skipped = Some(format!("monitor: {}", e));
      return out;
    }
  };
  let base = c.base.max(1) as u64;
  let cap = c.max.filter(|m| *m > 0).map(|m| m as u64);
  let resume_limit = Duration::from_millis(10_000 + 4 * cap.unwrap_or(base).max(base));
  match c.kind {
    Kind::RefusedThenListener => {
      if let Err(e) = x.connect(&uri).await {
        out.violations.push(("connect-to-refusing-port-fails-hard".into(), e.to_string()));
        return out;
      }
      // collect retry announcements: enough time for 5 of them
      let mut budget_ms = 0u64;
      let mut d = base;
      for _ in 0..5 {
        budget_ms += d + 30;
        d = cap.map(|m| (d * 2).min(m.max(base))).unwrap_or(d);
      }
      let t_end = Instant::now() + Duration::from_millis(budget_ms + 1500);
      let mut last: Option<Instant> = None;
      while Instant::now() < t_end && out.reported.len() < 6 {
        match tokio::time::timeout(Duration::from_millis(200), mon.recv()).await {
          Ok(Ok(SocketEvent::ConnectRetried { interval, .. })) => {
            let now = Instant::now();
            if let Some(l) = last {
              out.gaps_ms.push(now.duration_since(l).as_millis() as u64);
            }
            last = Some(now);
            out.reported.push(interval.as_millis() as u64);
          }
          Ok(Ok(_)) => {}
          Ok(Err(_)) => break,
          Err(_) => {}
        }
      }
      if out.reported.len() < 2 {
        out.violations.push(("no-retries-announced".into(), format!("only {} ConnectRetried events within {} ms for RECONNECT_IVL={} max={:?}", out.reported.len(), budget_ms + 1500, c.base, c.max)));
      }
      judge_reported(&c, &mut out);
      let y = mk(&pctx, ty, &c).await;
      if !bind_retry(&y, &uri).await {
        out.skipped = Some("cannot bind the port".into());
        return out;
      }
      out.resumed_after_ms = resumes(&x, &y, c.dealer, resume_limit).await;
    }
    Kind::ListenerGoneAndBack => {
      let y = mk(&pctx, ty, &c).await;
      if !bind_retry(&y, &uri).await {
        out.skipped = Some("cannot bind the port".into());
        return out;
      }
      let _ = x.connect(&uri).await;
      if resumes(&x, &y, c.dealer, Duration::from_secs(10)).await.is_none() {
        out.violations.push(("initial-traffic-never-flows".into(), "no message arrived within 10 s of connect".into()));
        return out;
      }
      let _ = y.close().await;
      drop(y);
      tokio::time::sleep(Duration::from_millis(3 * base + 50)).await;
      let pctx2 = Context::new().expect("pctx2");
      let y2 = mk(&pctx2, ty, &c).await;
      if !bind_retry(&y2, &uri).await {
        out.skipped = Some("cannot re-bind the port".into());
        return out;
      }
      out.resumed_after_ms = resumes(&x, &y2, c.dealer, resume_limit).await;
      while let Ok(Ok(ev)) = tokio::time::timeout(Duration::from_millis(1), mon.recv()).await {
        if let SocketEvent::ConnectRetried { interval, .. } = ev {
          out.reported.push(interval.as_millis() as u64);
        }
      }
      judge_reported(&c, &mut out);
      let _ = tokio::time::timeout(Duration::from_secs(5), pctx2.term()).await;
    }
    Kind::ResetByPeer => {
      let Ok(l) = std::net::TcpListener::bind(("127.0.0.1", port)) else {
        out.skipped = Some("cannot bind raw listener".into());
        return out;
      };
      let (txa, rxa) = std::sync::mpsc::channel::<Instant>();
      let stop = std::sync::Arc::new(std::sync::atomic::AtomicBool::new(false));
      let stop2 = stop.clone();
      l.set_nonblocking(true).ok();
      // with a ceiling configured, watch enough attempts for an unbounded back-off to show
      let capped = matches!(c.max, Some(m) if m > 0 && m >= c.base);
      let want_accepts: usize = if capped { 8 } else { 4 };
      let th = std::thread::spawn(move || {
        let mut n = 0;
        while !stop2.load(std::sync::atomic::Ordering::SeqCst) && n < want_accepts {
          match l.accept() {
            Ok((s, _)) => {
              let _ = txa.send(Instant::now());
              // SO_LINGER 0: close() sends RST
              let sock = socket2_linger_zero(s);
              drop(sock);
              n += 1;
            }
            Err(_) => std::thread::sleep(Duration::from_millis(1)),
          }
        }
        drop(l);
      });
      let _ = x.connect(&uri).await;
      let t_end = Instant::now() + Duration::from_millis(8 * base.max(100) + 6000 + if capped { 8 * (c.max.unwrap_or(0) as u64 + 300) } else { 0 });
      let mut stamps = vec![];
      while Instant::now() < t_end && stamps.len() < want_accepts {
        if let Ok(t) = rxa.try_recv() {
          stamps.push(t);
        } else {
          tokio::time::sleep(Duration::from_millis(5)).await;
        }
      }
      stop.store(true, std::sync::atomic::Ordering::SeqCst);
      let _ = th.join();
      for w in stamps.windows(2) {
        out.accept_gaps_ms.push(w[1].duration_since(w[0]).as_millis() as u64);
      }
      if stamps.len() < 2 {
        out.violations.push(("connection-reset-not-retried".into(), format!("{} connection attempts reached the resetting listener in {} ms", stamps.len(), 8 * base.max(100) + 6000)));
      }
      if capped {
        // the time between two attempts is the scheduled delay plus detection latency (maintenance
        // tick 100 ms, scheduling): far below max + 1.5 s unless the delay itself outgrew the ceiling
        let max = c.max.unwrap_or(0) as u64;
        if let Some(g) = out.accept_gaps_ms.iter().find(|g| **g > max + 1500) {
          out.violations.push(("retry-delay-exceeds-reconnect-ivl-max".into(), format!("{} ms between two connection attempts with RECONNECT_IVL={} RECONNECT_IVL_MAX={} (gaps {:?})", g, c.base, max, out.accept_gaps_ms)));
        }
        if stamps.len() < want_accepts {
          out.violations.push(("retry-delay-exceeds-reconnect-ivl-max".into(), format!("only {} of {} connection attempts arrived in time with RECONNECT_IVL={} RECONNECT_IVL_MAX={} (gaps {:?})", stamps.len(), want_accepts, c.base, max, out.accept_gaps_ms)));
        }
      }
      // a retry loop that ignores RECONNECT_IVL dials back-to-back; accept stamps taken by a polling
      // thread can be late under load, so only several gaps far below the interval count
      let hot = out.accept_gaps_ms.iter().filter(|g| **g * 4 < c.base as u64).count();
      if hot >= 2 {
        out.violations.push(("reconnected-faster-than-reconnect-ivl".into(), format!("{} of {} gaps between connection attempts are below a quarter of RECONNECT_IVL {} ms (gaps {:?})", hot, out.accept_gaps_ms.len(), c.base, out.accept_gaps_ms)));
      }
      let y = mk(&pctx, ty, &c).await;
      if !bind_retry(&y, &uri).await {
        out.skipped = Some("cannot bind the port after the raw listener".into());
        return out;
      }
      out.resumed_after_ms = resumes(&x, &y, c.dealer, resume_limit).await;
    }
  }
  if out.skipped.is_none() && out.resumed_after_ms.is_none() {
    out.violations.push(("traffic-does-not-resume".into(), format!("{:?}: peer reachable again, nothing delivered within {} ms (RECONNECT_IVL={} max={:?})", c.kind, resume_limit.as_millis(), c.base, c.max)));
  }
  let _ = tokio::time::timeout(Duration::from_secs(5), ctx.term()).await;
  let _ = tokio::time::timeout(Duration::from_secs(5), pctx.term()).await;
  out
}

/// set SO_LINGER {on, 0} through libc so that dropping the stream resets the connection
fn socket2_linger_zero(s: std::net::TcpStream) -> std::net::TcpStream {
  use std::os::fd::AsRawFd;
  #[repr(C)]
  struct Linger {
    l_onoff: i32,
    l_linger: i32,
  }
  extern "C" {
    fn setsockopt(fd: i32, level: i32, name: i32, val: *const std::ffi::c_void, len: u32) -> i32;
  }
  let l = Linger { l_onoff: 1, l_linger: 0 };
  // SOL_SOCKET = 1, SO_LINGER = 13 on Linux
  unsafe {
    setsockopt(s.as_raw_fd(), 1, 13, &l as *const _ as *const std::ffi::c_void, std::mem::size_of::<Linger>() as u32);
  }
  s
}

fn cells(tier: Tier) -> Vec<Cell> {
  let mut v = vec![];
  let grid: Vec<(i32, Option<i32>)> = match tier {
    Tier::Quick => vec![(20, Some(0)), (20, Some(80)), (50, Some(50)), (10, None)],
    Tier::Thorough => vec![(20, Some(0)), (20, Some(80)), (50, Some(50)), (10, None), (1, Some(7)), (100, Some(150)), (200, Some(0)), (30, Some(1000))],
  };
  for (base, max) in grid {
    for kind in [Kind::RefusedThenListener, Kind::ListenerGoneAndBack, Kind::ResetByPeer] {
      for dealer in [false, true] {
        if tier == Tier::Quick && dealer && kind != Kind::ListenerGoneAndBack {
          continue;
        }
        v.push(Cell { kind, base, max, dealer });
      }
    }
  }
  v
}

pub fn retry_sub(tier: Tier) -> Sub {
  let mut sub = Sub::new("reconnect-real-clock", "E4");
  sub.rule = "case = one real-time loopback-tcp execution per (scenario kind, RECONNECT_IVL, RECONNECT_IVL_MAX, socket pair) cell; non-trivial = at least one retry was observed or traffic resumed; oracle: reported ConnectRetried intervals start at RECONNECT_IVL, at most double, never exceed RECONNECT_IVL_MAX (when it is >= RECONNECT_IVL); connection attempts against a resetting peer are not back-to-back (gaps not below RECONNECT_IVL/4) and, with a ceiling configured, never further apart than RECONNECT_IVL_MAX + 1.5 s over 8 attempts; after the peer is reachable again a freshly sent message arrives within 10 s + 4 x the largest interval".into();
  let list = cells(tier);
  sub.bounds = json!({"cells": list.len(), "note": "single real-time execution per cell; OS scheduling is not enumerated"});
  sub.notes.push("a violation in a real-clock cell is reported only if it shows again when the cell is executed a second time; E4 cells are real-clock executions: the matrix is enumerated completely, the schedules inside a cell are not".into());
  // real-time scenarios: little CPU, mostly sleeping; run them 8 at a time
  let prev = par::threads();
  let _ = prev;
  par::enumerate(&mut sub, list.len(), |i| par::confirmed(|| {
    let c = list[i];
    let rt = tokio::runtime::Builder::new_multi_thread().worker_threads(2).enable_all().build().expect("runtime");
    let out = rt.block_on(async move { tokio::time::timeout(Duration::from_secs(90), run_cell(c)).await });
    rt.shutdown_timeout(Duration::from_secs(2));
    let wit = json!({"explorer": "e4", "cell": format!("{:?}", c)});
    let mut case = Case { steps: 4, ..Default::default() };
    let class = format!("{:?}:ivl{}:max{:?}:{}", c.kind, c.base, c.max, if c.dealer { "DealerRouter" } else { "PushPull" });
    match out {
      Err(_) => case.violations.push(("scenario-hangs".into(), class, "the scenario did not finish within 90 s".into(), wit)),
      Ok(o) => {
        case.nontrivial = o.skipped.is_none() && (!o.reported.is_empty() || o.resumed_after_ms.is_some() || !o.accept_gaps_ms.is_empty());
        case.outcome = mc_core::digest(&(o.reported.clone(), o.resumed_after_ms.is_some()));
        case.state = mc_core::digest(&format!("{:?}", c));
        for (clause, d) in &o.violations {
          case.violations.push((clause.clone(), class.clone(), d.clone(), wit.clone()));
        }
        case.sample = Some(json!({"cell": format!("{:?}", c), "reported_ms": o.reported, "announcement_gaps_ms": o.gaps_ms, "accept_gaps_ms": o.accept_gaps_ms, "resumed_after_ms": o.resumed_after_ms, "skipped": o.skipped}));
      }
    }
    case
  }));
  sub
}

pub fn replay(w: &serde_json::Value) -> Result<String, String> {
  let c = cells(Tier::Thorough).into_iter().find(|c| w["cell"] == format!("{:?}", c)).ok_or("unknown cell")?;
  let rt = tokio::runtime::Builder::new_multi_thread().worker_threads(2).enable_all().build().expect("runtime");
  let out = rt.block_on(async move { tokio::time::timeout(Duration::from_secs(90), run_cell(c)).await }).map_err(|_| "scenario hangs".to_string())?;
  rt.shutdown_timeout(Duration::from_secs(2));
  if out.violations.is_empty() {
    Ok(format!("no violation: {:?}", out))
  } else {
    Err(format!("{:?}", out))
  }
}
