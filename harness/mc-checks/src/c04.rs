//! C04 — what a connection delivers depends on the bytes sent, not on read boundaries.
//!
//! E1 (engine): every segmentation with up to 2 (3) cuts at every byte position of static
//! transcripts (v3 NULL, v3 PLAIN, v2) and of CURVE/NOISE partner streams (live partner), fed to the
//! real engine; delivered messages must equal the unsegmented reference.
//! E3 (session): a real socket with a raw scripted peer attached through the same code path the
//! tcp/ipc transports use; every single cut and every pair of cuts around the handshake/data border,
//! each chunk followed by a settle so the session actor really performs separate reads.

use crate::common::*;
use crate::engines::*;
use crate::stack::{self, frame, ready, v2_greeting, v3_greeting};
use mc_core::par::{self, Case};
use mc_core::world;
use mc_core::{Report, Sub, Tier};
use rzmq::protocol::zmtp::engine::ZmtpPhase;
use rzmq::socket::options as o;
use rzmq::verif::engine::{EngineSpec, Mech};
use rzmq::{Context, SocketType};
use serde_json::{json, Value};

#[derive(Clone)]
struct Transcript {
  name: &'static str,
  /// engine-level config
  local: EngineSpec,
  is_server: bool,
  /// socket-level config for the E3 part
  socket: SocketType,
  plain_server_creds: bool,
  handshake: Vec<u8>,
  data: Vec<u8>,
  /// expected application messages as (payload, more) frames, flattened, at the socket API (E3)
  expect_frames: usize,
  expect_msgs: usize,
}

fn data_frames() -> Vec<u8> {
  let mut d = vec![];
  d.extend(frame(0, b"first"));
  d.extend(frame(1, b"part-a"));
  d.extend(frame(1, b""));
  d.extend(frame(0, &payload(9, 300)));
  d.extend(frame(0, b"last"));
  d
}

fn transcripts() -> Vec<Transcript> {
  let mut plain_hello = b"\x05HELLO".to_vec();
  plain_hello.push(4);
  plain_hello.extend_from_slice(b"user");
  plain_hello.push(6);
  plain_hello.extend_from_slice(b"secret");
  vec![
    Transcript {
      name: "v3-null:pull-listener",
      local: spec("PULL", Mech::Null),
      is_server: true,
      socket: SocketType::Pull,
      plain_server_creds: false,
      handshake: [v3_greeting("NULL", false), ready("PUSH", None)].concat(),
      data: data_frames(),
      expect_frames: 5,
      expect_msgs: 3,
    },
    Transcript {
      name: "v3-null:pull-connector",
      local: spec("PULL", Mech::Null),
      is_server: false,
      socket: SocketType::Pull,
      plain_server_creds: false,
      handshake: [v3_greeting("NULL", true), ready("PUSH", Some(b"srv"))].concat(),
      data: data_frames(),
      expect_frames: 5,
      expect_msgs: 3,
    },
    Transcript {
      name: "v3-plain:pull-listener",
      local: spec("PULL", mech_for(MechKind::Plain, true, Creds::Good)),
      is_server: true,
      socket: SocketType::Pull,
      plain_server_creds: true,
      handshake: [v3_greeting("PLAIN", false), frame(0x04, &plain_hello), ready("PUSH", None)].concat(),
      data: data_frames(),
      expect_frames: 5,
      expect_msgs: 3,
    },
    Transcript {
      name: "v2:pull-listener",
      local: spec("PULL", Mech::Null),
      is_server: true,
      socket: SocketType::Pull,
      plain_server_creds: false,
      handshake: v2_greeting(8, b"old-peer"),
      data: data_frames(),
      expect_frames: 5,
      expect_msgs: 3,
    },
  ]
}

fn feed_cuts(s: &mut Side, stream: &[u8], cuts: &[usize]) {
  for chunk in cut(stream, cuts) {
    s.feed(&chunk);
  }
}

fn engine_static_sub(tier: Tier) -> Sub {
  let mut sub = Sub::new("engine-static", "E1");
  sub.rule = "case = (transcript, set of cut positions) fed chunk by chunk to one real engine; non-trivial = some cut falls inside the transcript; oracle: HandshakeComplete once, delivered messages == the transcript's data messages == the unsegmented run".into();
  let ts = transcripts();
  // work items
  let mut work: Vec<(usize, Vec<usize>)> = vec![];
  for (ti, t) in ts.iter().enumerate() {
    let n = t.handshake.len() + t.data.len();
    work.push((ti, vec![]));
    for a in 1..n {
      work.push((ti, vec![a]));
    }
    for a in 1..n {
      for b in a + 1..n {
        work.push((ti, vec![a, b]));
      }
    }
    if tier == Tier::Thorough {
      // triples restricted to the 24 bytes on either side of the handshake/data border
      let h = t.handshake.len();
      let lo = h.saturating_sub(24).max(1);
      let hi = (h + 24).min(n - 1);
      for a in lo..=hi {
        for b in a + 1..=hi {
          for c in b + 1..=hi {
            work.push((ti, vec![a, b, c]));
          }
        }
      }
    }
    work.push((ti, (1..n).collect())); // byte at a time
  }
  sub.bounds = json!({"transcripts": ts.iter().map(|t| format!("{} ({}+{} bytes)", t.name, t.handshake.len(), t.data.len())).collect::<Vec<_>>(), "cuts": tier.pick("all singles and pairs, byte-at-a-time", "all singles and pairs, triples within 24 bytes of the handshake/data border, byte-at-a-time"), "work_items": work.len()});
  // reference per transcript
  let refs: Vec<Vec<Vec<FrameSpec>>> = ts
    .iter()
    .map(|t| {
      let mut s = Side::from_spec(t.is_server, &t.local);
      s.feed(&[t.handshake.clone(), t.data.clone()].concat());
      s.delivered()
    })
    .collect();
  par::enumerate(&mut sub, work.len(), |i| {
    let (ti, cuts) = &work[i];
    let t = &ts[*ti];
    let stream = [t.handshake.clone(), t.data.clone()].concat();
    let wit = json!({"transcript": t.name, "cuts": if cuts.len() > 8 { json!("byte-at-a-time") } else { json!(cuts) }, "handshake_len": t.handshake.len()});
    let mut c = Case { steps: cuts.len() as u64 + 1, nontrivial: !cuts.is_empty(), ..Default::default() };
    match mc_core::catch(|| {
      let mut s = Side::from_spec(t.is_server, &t.local);
      feed_cuts(&mut s, &stream, cuts);
      s
    }) {
      Ok(s) => {
        let got = s.delivered();
        c.outcome = mc_core::digest(&(got.len(), s.errored()));
        c.state = mc_core::digest(&(ti, cuts.first().copied().unwrap_or(0) / 8, cuts.len()));
        let class = format!("{}:{}", t.name, border_class(cuts, t.handshake.len()));
        if s.errored() || s.phase() != ZmtpPhase::Data {
          c.violations.push(("honest-stream-rejected".into(), class.clone(), format!("error {:?} phase {:?}", s.first_error(), s.phase()), wit.clone()));
        }
        if got.len() != t.expect_msgs || got != refs[*ti] {
          c.violations.push(("delivery-depends-on-cuts".into(), class, format!("delivered {} messages, reference {} (expected {})", got.len(), refs[*ti].len(), t.expect_msgs), wit.clone()));
        }
        if i % 7919 == 0 {
          c.sample = Some(json!({"case": wit, "delivered": got.len()}));
        }
      }
      Err(msg) => c.violations.push(("panic".into(), mc_core::loc_of(&msg), msg, wit)),
    }
    c
  });
  sub
}

fn border_class(cuts: &[usize], h: usize) -> &'static str {
  // what matters is whether the read that completes the handshake also carries data bytes
  if cuts.iter().any(|c| *c == h) {
    "handshake-and-data-in-separate-reads"
  } else {
    "handshake-tail-shares-a-read-with-data"
  }
}

/// CURVE / NOISE: the partner's stream is produced live; `cuts` are absolute offsets in the
/// partner -> target byte stream (handshake tokens, READY, then three encrypted records).
fn run_live_cut(kind: MechKind, target_is_server: bool, cuts: &[usize]) -> (Side, usize, usize) {
  let cs = spec(if target_is_server { "PUSH" } else { "PULL" }, mech_for(kind, false, Creds::Good));
  let ss = spec(if target_is_server { "PULL" } else { "PUSH" }, mech_for(kind, true, Creds::Good));
  let mut p = Pair::new(&cs, &ss);
  let mut off = 0usize;
  let mut sent_app = false;
  let mut hs_len = 0usize;
  for _ in 0..20_000 {
    // target -> partner honest
    if target_is_server {
      let n = p.in_flight_s2c();
      p.deliver_s2c(n);
    } else {
      let n = p.in_flight_c2s();
      p.deliver_c2s(n);
    }
    let partner_in_data = if target_is_server { p.c.phase() == ZmtpPhase::Data } else { p.s.phase() == ZmtpPhase::Data };
    if partner_in_data && !sent_app {
      sent_app = true;
      let partner = if target_is_server { &mut p.c } else { &mut p.s };
      hs_len = partner.sent.len();
      for (k, sizes) in [vec![5usize], vec![6, 0, 300], vec![4]].iter().enumerate() {
        let specs: Vec<FrameSpec> = sizes.iter().enumerate().map(|(j, l)| (payload((k * 4 + j) as u32, *l), j + 1 < sizes.len(), false)).collect();
        let out = partner.eng.on_app_message(batch_of(&specs));
        partner.absorb(out);
      }
    }
    let in_flight = if target_is_server { p.in_flight_c2s() } else { p.in_flight_s2c() };
    if in_flight == 0 {
      let back = if target_is_server { p.in_flight_s2c() } else { p.in_flight_c2s() };
      if back == 0 && sent_app {
        break;
      }
      if back == 0 && !sent_app && (p.c.errored() || p.s.errored()) {
        break;
      }
      continue;
    }
    // deliver up to the next cut (or everything in flight)
    let next_cut = cuts.iter().copied().find(|c| *c > off).unwrap_or(usize::MAX);
    let n = in_flight.min(next_cut.saturating_sub(off)).max(1);
    if target_is_server {
      p.deliver_c2s(n);
    } else {
      p.deliver_s2c(n);
    }
    off += n;
  }
  let total = if target_is_server { p.c.sent.len() } else { p.s.sent.len() };
  (if target_is_server { p.s } else { p.c }, total, hs_len)
}

fn engine_live_sub(tier: Tier) -> Sub {
  let mut sub = Sub::new("engine-live-crypto", "E1");
  sub.rule = "case = (CURVE|NOISE, role, cut positions in the live partner's byte stream: handshake + 3 encrypted messages); oracle: 3 messages delivered, identical to the uncut run".into();
  let mut configs = vec![];
  for kind in [MechKind::Curve, MechKind::Noise] {
    for tsrv in [true, false] {
      let (t, total, hs) = run_live_cut(kind, tsrv, &[]);
      assert_eq!(t.delivered().len(), 3, "uncut live run must deliver 3 messages");
      configs.push((kind, tsrv, total, hs, t.delivered()));
    }
  }
  let mut work = vec![];
  for (ci, (_k, _s, total, hs, _)) in configs.iter().enumerate() {
    work.push((ci, vec![]));
    for a in 1..*total {
      work.push((ci, vec![a]));
    }
    // pairs around the handshake/data border
    let lo = hs.saturating_sub(tier.pick(24, 96)).max(1);
    let hi = (hs + tier.pick(24, 96)).min(total - 1);
    for a in lo..=hi {
      for b in a + 1..=hi {
        work.push((ci, vec![a, b]));
      }
    }
    work.push((ci, (1..*total).collect()));
  }
  sub.bounds = json!({"configs": configs.iter().map(|(k, s, t, h, _)| format!("{:?}/{}/{}B(handshake {}B)", k, if *s { "listener" } else { "connector" }, t, h)).collect::<Vec<_>>(), "work_items": work.len()});
  par::enumerate(&mut sub, work.len(), |i| {
    let (ci, cuts) = &work[i];
    let (kind, tsrv, _total, hs, reference) = &configs[*ci];
    let wit = json!({"mechanism": format!("{:?}", kind), "target": if *tsrv { "listener" } else { "connector" }, "cuts": if cuts.len() > 8 { json!("byte-at-a-time") } else { json!(cuts) }, "handshake_len": hs});
    let mut c = Case { steps: cuts.len() as u64 + 1, nontrivial: !cuts.is_empty(), ..Default::default() };
    match mc_core::catch(|| run_live_cut(*kind, *tsrv, cuts)) {
      Ok((t, _, _)) => {
        let got = t.delivered();
        c.outcome = mc_core::digest(&(got.len(), t.errored()));
        c.state = mc_core::digest(&(ci, cuts.first().copied().unwrap_or(0) / 8, cuts.len()));
        let class = format!("{:?}:{}", kind, border_class(cuts, *hs));
        if t.errored() {
          c.violations.push(("honest-stream-rejected".into(), class.clone(), format!("{:?}", t.first_error()), wit.clone()));
        }
        if &got != reference {
          c.violations.push(("delivery-depends-on-cuts".into(), class, format!("delivered {} messages, reference {}", got.len(), reference.len()), wit.clone()));
        }
        if i % 3001 == 0 {
          c.sample = Some(json!({"case": wit, "delivered": got.len()}));
        }
      }
      Err(msg) => c.violations.push(("panic".into(), mc_core::loc_of(&msg), msg, wit)),
    }
    c
  });
  sub
}

// ------------------------------------------------------------------------------------------------
// E3: the session actor on a real socket
// ------------------------------------------------------------------------------------------------

/// Runs one world: socket of the transcript's type, raw peer attached, chunks written with a
/// settle after each, then everything is received. Returns the received frames.
fn session_world(t: &Transcript, cuts: &[usize], seed: u64) -> world::WorldResult<Vec<(Vec<u8>, bool)>> {
  let stream = [t.handshake.clone(), t.data.clone()].concat();
  let chunks = cut(&stream, cuts);
  let t = t.clone();
  world::run(seed, move || async move {
    let ctx = Context::new().expect("context");
    let sock = stack::mk(&ctx, t.socket, &[(o::RCVTIMEO, 50), (o::LINGER, 0)]).await;
    if t.plain_server_creds {
      sock.set_option(o::PLAIN_SERVER, true).await.expect("plain server");
      sock.set_option(o::PLAIN_USERNAME, "user").await.expect("user");
      sock.set_option(o::PLAIN_PASSWORD, "secret").await.expect("pass");
    }
    let mut peer = stack::raw_peer(&sock, t.is_server, 1 << 16).await;
    world::settle().await;
    for ch in &chunks {
      if !stack::write_settle(&mut peer, ch).await {
        break;
      }
    }
    world::settle_n(2).await;
    let got = stack::recv_all(&sock, 16).await;
    let _ = ctx.term().await;
    got
  })
}

fn session_sub(tier: Tier) -> Sub {
  let mut sub = Sub::new("session-actor", "E3");
  sub.rule = "case = one deterministic world: a real rzmq socket, a raw scripted peer attached through verif::attach_stream (the tcp/ipc post-accept path on an in-memory stream), the transcript written in chunks with quiescence after each chunk, then recv() until it would block; non-trivial = a cut inside the transcript; oracle: frames returned by recv() == the transcript's data frames == the uncut-with-settles reference, no panic in any task".into();
  let ts = transcripts();
  let mut work: Vec<(usize, Vec<usize>)> = vec![];
  for (ti, t) in ts.iter().enumerate() {
    let h = t.handshake.len();
    let n = h + t.data.len();
    work.push((ti, vec![])); // everything in one write
    work.push((ti, vec![h])); // handshake, then data
    for a in 1..n {
      work.push((ti, vec![a]));
    }
    let w = tier.pick(12, 80);
    let lo = h.saturating_sub(w).max(1);
    let hi = (h + w).min(n - 1);
    for a in lo..=hi {
      for b in a + 1..=hi {
        work.push((ti, vec![a, b]));
      }
    }
  }
  sub.bounds = json!({"transcripts": ts.iter().map(|t| t.name).collect::<Vec<_>>(), "cuts": format!("all single cuts; all pairs within {} bytes of the handshake/data border", tier.pick(12, 40)), "worlds": work.len()});
  par::enumerate(&mut sub, work.len(), |i| {
    let (ti, cuts) = &work[i];
    let t = &ts[*ti];
    let wit = json!({"explorer": "e3", "transcript": t.name, "cuts": cuts, "handshake_len": t.handshake.len()});
    let mut c = Case { steps: cuts.len() as u64 + 2, nontrivial: !cuts.is_empty(), ..Default::default() };
    let r = session_world(t, cuts, 1);
    let class = format!("{}:{}", t.name, border_class(cuts, t.handshake.len()));
    for p in &r.panics {
      c.violations.push(("panic".into(), p.rsplit(" @ ").next().map(mc_core::short_loc).unwrap_or_default(), p.clone(), wit.clone()));
    }
    match r.result {
      Some(got) => {
        c.outcome = mc_core::digest(&got.len());
        c.state = mc_core::digest(&(ti, cuts.first().copied().unwrap_or(0) / 8, got.len()));
        // expected frames from the transcript
        let want: Vec<(Vec<u8>, bool)> = vec![(b"first".to_vec(), false), (b"part-a".to_vec(), true), (vec![], true), (payload(9, 300), false), (b"last".to_vec(), false)];
        if got != want {
          c.violations.push(("delivery-depends-on-cuts".into(), class, format!("recv() returned {} frames, the transcript carries {}: got sizes {:?}", got.len(), want.len(), got.iter().map(|g| g.0.len()).collect::<Vec<_>>()), wit.clone()));
        }
        if i % 499 == 0 {
          c.sample = Some(json!({"case": wit, "frames_received": got.len()}));
        }
      }
      None => {
        if r.panics.is_empty() {
          c.violations.push(("panic".into(), "world".into(), "scenario did not complete".into(), wit));
        }
      }
    }
    c
  });
  sub
}

pub fn run(tier: Tier) -> Report {
  let mut rep = Report::new("C04", tier, "model_checking");
  rep.assume("E3 worlds replace only the kernel socket by an in-memory duplex stream (attach_stream performs the same steps as the tcp/ipc listener/connecter after accept/connect); a settle after each chunk makes the session perform separate reads; real kernel coalescing and the io_uring handler are out of reach here (C20)");
  rep.add(engine_static_sub(tier));
  rep.add(engine_live_sub(tier));
  rep.add(session_sub(tier));
  rep.add(crate::c04_real::fin_sub(tier));
  rep
}

pub fn replay(sub: &str, w: &Value) -> Result<String, String> {
  if w["explorer"] == "e4" {
    return crate::c04_real::replay(w);
  }
  if sub == "session-actor" {
    let name = w["transcript"].as_str().unwrap_or("");
    let t = transcripts().into_iter().find(|t| t.name == name).ok_or("unknown transcript")?;
    let cuts: Vec<usize> = w["cuts"].as_array().map(|a| a.iter().map(|x| x.as_u64().unwrap_or(0) as usize).collect()).unwrap_or_default();
    let r1 = session_world(&t, &cuts, 1);
    let r2 = session_world(&t, &cuts, 1);
    let (a, b) = (r1.result.unwrap_or_default(), r2.result.unwrap_or_default());
    if a != b {
      return Err("replay not deterministic".into());
    }
    return if a.len() == 5 { Ok("5 frames received".into()) } else { Err(format!("{} frames received instead of 5 (panics {:?})", a.len(), r1.panics)) };
  }
  Err(format!("replay of {}: re-run ./check C04 (witness {})", sub, w))
}
