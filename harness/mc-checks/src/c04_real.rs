//! C04, real-kernel part (E4): the end of the stream is a read boundary too. A raw tcp peer writes a
//! valid handshake and n messages and closes the connection at once / after a pause / after a
//! half-close; what the socket delivers must be the n messages either way (the FIN may be seen in
//! the same read burst as the last data). Cells run concurrently on purpose: the loss window only
//! opens when the reading session lags behind the writer.

use crate::stack::{ready, v3_greeting};
use mc_core::par::{self, Case};
use mc_core::{Sub, Tier};
use rzmq::socket::options as o;
use rzmq::{Context, SocketType};
use serde_json::json;
use std::io::Write;
use std::time::Duration;

#[derive(Clone, Copy, Debug)]
struct Cell {
  n: usize,
  size: usize,
  /// ms the raw peer waits between its last write and close (0 = close at once)
  pause_ms: u64,
  half_close: bool,
  rep: usize,
}

async fn run_cell(c: Cell) -> Result<(usize, bool), String> {
  let ctx = Context::new().map_err(|e| e.to_string())?;
  let x = ctx.socket(SocketType::Pull).map_err(|e| e.to_string())?;
  for (k, v) in [(o::RCVTIMEO, 400), (o::LINGER, 0), (o::RCVHWM, 100_000)] {
    x.set_option(k, v).await.map_err(|e| e.to_string())?;
  }
  x.bind("tcp://127.0.0.1:0").await.map_err(|e| e.to_string())?;
  let ep = String::from_utf8(x.get_option(o::LAST_ENDPOINT).await.map_err(|e| e.to_string())?).unwrap();
  let addr = ep.trim_start_matches("tcp://").to_string();
  let peer_done = std::sync::Arc::new(std::sync::atomic::AtomicBool::new(false));
  let peer_done2 = peer_done.clone();
  let th = std::thread::spawn(move || -> Result<(), String> {
    struct Done(std::sync::Arc<std::sync::atomic::AtomicBool>);
    impl Drop for Done {
      fn drop(&mut self) {
        self.0.store(true, std::sync::atomic::Ordering::SeqCst);
      }
    }
    let _done = Done(peer_done2);
    let mut s = std::net::TcpStream::connect(&addr).map_err(|e| e.to_string())?;
    s.set_nodelay(true).ok();
    let mut bytes = v3_greeting("NULL", false);
    bytes.extend_from_slice(&ready("PUSH", None));
    for i in 0..c.n {
      let mut body = crate::common::payload(i as u32 + 1, c.size.max(8));
      body[..8].copy_from_slice(&(i as u64).to_be_bytes());
      bytes.extend_from_slice(&crate::stack::frame(0, &body));
    }
    // a well-behaved peer: it consumes what the socket sends (greeting, READY), otherwise closing
    // with unread data would reset the connection and legitimately destroy data in flight
    let mut rd = s.try_clone().map_err(|e| e.to_string())?;
    let seen = std::sync::Arc::new(std::sync::atomic::AtomicUsize::new(0));
    let seen2 = seen.clone();
    let reader = std::thread::spawn(move || {
      use std::io::Read;
      let mut buf = [0u8; 4096];
      while let Ok(n) = rd.read(&mut buf) {
        if n == 0 {
          break;
        }
        seen2.fetch_add(n, std::sync::atomic::Ordering::SeqCst);
      }
    });
    s.write_all(&bytes).map_err(|e| e.to_string())?;
    // a peer that closes before the socket has even sent its greeting and READY would answer them
    // with a RST, which legitimately destroys the data still unread on the socket's side: wait (up
    // to 30 s on a loaded machine) until the socket's handshake (64 + 28 bytes) has been consumed
    let t_hs = std::time::Instant::now();
    while seen.load(std::sync::atomic::Ordering::SeqCst) < 92 && t_hs.elapsed() < Duration::from_secs(30) {
      std::thread::sleep(Duration::from_millis(2));
    }
    if c.pause_ms > 0 {
      std::thread::sleep(Duration::from_millis(c.pause_ms));
    }
    if c.half_close {
      let _ = s.shutdown(std::net::Shutdown::Write);
      std::thread::sleep(Duration::from_millis(300));
    }
    if !c.half_close {
      let _ = s.shutdown(std::net::Shutdown::Write);
    }
    // the read side ends when the socket closes its end; do not wait for ever
    let t = std::time::Instant::now();
    while !reader.is_finished() && t.elapsed() < Duration::from_millis(1500) {
      std::thread::sleep(Duration::from_millis(5));
    }
    drop(s);
    Ok(())
  });
  let mut got = 0usize;
  let mut in_order = true;
  let mut idle = 0;
  let t_start = std::time::Instant::now();
  // idle time only counts once the peer has finished writing and closing (a loaded machine may take
  // seconds to get that far); hard stop after 45 s
  while got < c.n && idle < 5 && t_start.elapsed() < Duration::from_secs(45) {
    match x.recv().await {
      Ok(m) => {
        idle = 0;
        let d = m.data().unwrap_or(&[]);
        if d.len() >= 8 {
          let seq = u64::from_be_bytes(d[..8].try_into().unwrap());
          if seq != got as u64 {
            in_order = false;
          }
        }
        got += 1;
      }
      Err(_) => {
        if peer_done.load(std::sync::atomic::Ordering::SeqCst) {
          idle += 1;
        }
      }
    }
  }
  let _ = tokio::task::spawn_blocking(move || th.join()).await;
  let _ = tokio::time::timeout(Duration::from_secs(12), ctx.term()).await;
  Ok((got, in_order))
}

pub fn fin_sub(tier: Tier) -> Sub {
  let mut sub = Sub::new("fin-behind-data", "E4");
  sub.rule = "case = one real-time execution: a raw tcp peer writes handshake + n messages in one write and closes immediately / after a pause / half-closes; cells run 16 at a time so that readers lag; oracle: the PULL application receives all n messages in order".into();
  let mut list = vec![];
  for (n, size) in [(50usize, 4096usize), (400, 1000), (3, 70_000)] {
    for (pause_ms, half_close) in [(0u64, false), (0, true), (30, false)] {
      for rep in 0..tier.pick(4, 16) {
        list.push(Cell { n, size, pause_ms, half_close, rep });
      }
    }
  }
  sub.bounds = json!({"cells": list.len(), "shapes": ["50 x 4 KiB", "400 x 1000 B", "3 x 70 kB"], "endings": ["close at once", "half-close", "close after 30 ms"]});
  sub.notes.push("a violation in a real-clock cell is reported only if it shows again when the cell is executed a second time; E4 cells are real-clock executions: the matrix is enumerated completely, the schedules inside a cell are not; repetitions exist because the window is timing dependent".into());
  par::enumerate(&mut sub, list.len(), |i| par::confirmed(|| {
    let c = list[i];
    let rt = tokio::runtime::Builder::new_multi_thread().worker_threads(2).enable_all().build().expect("runtime");
    let r = rt.block_on(async move { tokio::time::timeout(Duration::from_secs(60), run_cell(c)).await });
    rt.shutdown_timeout(Duration::from_secs(2));
    let wit = json!({"explorer": "e4", "sub": "fin-behind-data", "cell": format!("{:?}", c)});
    let class = format!("{}x{}:{}", c.n, c.size, if c.half_close { "half-close" } else if c.pause_ms == 0 { "close-at-once" } else { "close-after-pause" });
    let mut case = Case { steps: 2, nontrivial: true, ..Default::default() };
    match r {
      Err(_) => case.violations.push(("scenario-hangs".into(), class, "did not finish within 60 s".into(), wit)),
      Ok(Err(e)) => {
        case.nontrivial = false;
        case.sample = Some(json!({"skipped": e}));
      }
      Ok(Ok((got, in_order))) => {
        case.outcome = mc_core::digest(&(got == c.n));
        case.state = mc_core::digest(&(i, got));
        if got != c.n || !in_order {
          case.violations.push(("data-before-fin-lost".into(), class, format!("peer wrote {} messages of {} bytes and closed ({}): {} delivered{}", c.n, c.size, if c.half_close { "half-close" } else if c.pause_ms == 0 { "at once" } else { "after 30 ms" }, got, if in_order { "" } else { ", out of order" }), wit));
        }
      }
    }
    case
  }));
  sub
}

pub fn replay(w: &serde_json::Value) -> Result<String, String> {
  let want = w["cell"].as_str().unwrap_or("").to_string();
  let mut found = None;
  for (n, size) in [(50usize, 4096usize), (400, 1000), (3, 70_000)] {
    for (pause_ms, half_close) in [(0u64, false), (0, true), (30, false)] {
      for rep in 0..16 {
        let c = Cell { n, size, pause_ms, half_close, rep };
        if format!("{:?}", c) == want {
          found = Some(c);
        }
      }
    }
  }
  let c = found.ok_or("unknown cell")?;
  let rt = tokio::runtime::Builder::new_multi_thread().worker_threads(2).enable_all().build().expect("runtime");
  let r = rt.block_on(async move { tokio::time::timeout(Duration::from_secs(60), run_cell(c)).await }).map_err(|_| "hangs".to_string())?;
  rt.shutdown_timeout(Duration::from_secs(2));
  match r {
    Ok((got, ord)) if got == c.n && ord => Ok(format!("all {} delivered", got)),
    other => Err(format!("{:?}", other)),
  }
}
