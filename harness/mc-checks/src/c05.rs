//! C05 — handshakes converge, agree, and give one verdict on compatibility.
//!
//! E1 on the real engine pair: the pair (client engine, server engine, bytes in flight) is a finite
//! transition system; every lattice point (bytes delivered c→s, bytes delivered s→c) is visited by
//! BFS with re-execution, with a confluence oracle; the whole configuration matrix is run under
//! four endpoint schedules; the three compatibility tables are compared with the ZeroMQ table.

use crate::common::*;
use crate::engines::*;
use mc_core::bfs::{bfs, Visit};
use mc_core::par::{self, Case};
use mc_core::{Report, Sub, Tier};
use rzmq::protocol::zmtp::engine::{ZmtpPhase, ZmtpVersion};
use rzmq::verif::engine::EngineSpec;
use rzmq::SocketType;
use serde_json::{json, Value};
use std::collections::HashMap;
use std::sync::Mutex;

pub const WIRE_TYPES: [&str; 11] = ["PAIR", "PUB", "SUB", "REQ", "REP", "DEALER", "ROUTER", "PULL", "PUSH", "XPUB", "XSUB"];

/// The ZeroMQ socket pairing table (RFC 28-31 / libzmq), written out independently of rzmq.
pub fn zmq_compatible(a: &str, b: &str) -> bool {
  matches!(
    (a, b),
    ("PAIR", "PAIR")
      | ("PUB", "SUB") | ("PUB", "XSUB")
      | ("SUB", "PUB") | ("SUB", "XPUB")
      | ("XPUB", "SUB") | ("XPUB", "XSUB")
      | ("XSUB", "PUB") | ("XSUB", "XPUB")
      | ("REQ", "REP") | ("REQ", "ROUTER")
      | ("REP", "REQ") | ("REP", "DEALER")
      | ("DEALER", "REP") | ("DEALER", "DEALER") | ("DEALER", "ROUTER")
      | ("ROUTER", "REQ") | ("ROUTER", "DEALER") | ("ROUTER", "ROUTER")
      | ("PUSH", "PULL") | ("PULL", "PUSH")
  )
}

#[derive(Clone, Debug)]
pub struct Cfg {
  pub ctype: &'static str,
  pub stype: &'static str,
  pub cmech: MechKind,
  pub smech: MechKind,
  pub creds: Creds,
  /// routing id length on the client (0 = absent)
  pub cid: usize,
  pub sid: usize,
}

impl Cfg {
  fn specs(&self) -> (EngineSpec, EngineSpec) {
    let mut c = spec(self.ctype, mech_for(self.cmech, false, self.creds));
    let mut s = spec(self.stype, mech_for(self.smech, true, self.creds));
    if self.cid > 0 {
      c.routing_id = Some(vec![b'c'; self.cid]);
    }
    if self.sid > 0 {
      s.routing_id = Some(vec![b's'; self.sid]);
    }
    (c, s)
  }
  pub fn mech_compatible(&self) -> bool {
    self.cmech == self.smech && (self.cmech == MechKind::Null || self.creds == Creds::Good)
  }
  pub fn expected_compatible(&self) -> bool {
    self.mech_compatible() && zmq_compatible(self.ctype, self.stype)
  }
  fn describe(&self) -> Value {
    json!({"client": self.ctype, "server": self.stype, "client_mech": format!("{:?}", self.cmech), "server_mech": format!("{:?}", self.smech),
           "creds": format!("{:?}", self.creds), "client_id_len": self.cid, "server_id_len": self.sid})
  }
}

#[derive(Clone, Copy, Debug)]
enum Sched {
  AllAtOnceClientFirst,
  AllAtOnceServerFirst,
  ByteAlternating,
  ClientDrainsFirstBytewise,
}

fn run_schedule(p: &mut Pair, s: Sched) -> u64 {
  let mut steps = 0;
  for _ in 0..200_000 {
    if p.in_flight_c2s() == 0 && p.in_flight_s2c() == 0 {
      return steps;
    }
    steps += 1;
    match s {
      Sched::AllAtOnceClientFirst => {
        let n = p.in_flight_c2s();
        p.deliver_c2s(n);
        let n = p.in_flight_s2c();
        p.deliver_s2c(n);
      }
      Sched::AllAtOnceServerFirst => {
        let n = p.in_flight_s2c();
        p.deliver_s2c(n);
        let n = p.in_flight_c2s();
        p.deliver_c2s(n);
      }
      Sched::ByteAlternating => {
        p.deliver_c2s(1);
        p.deliver_s2c(1);
      }
      Sched::ClientDrainsFirstBytewise => {
        if p.in_flight_c2s() > 0 {
          p.deliver_c2s(1);
        } else {
          p.deliver_s2c(1);
        }
      }
    }
    if p.c.errored() || p.s.errored() {
      return steps;
    }
  }
  panic!("schedule did not terminate");
}

/// Terminal verdict of a quiescent pair. Returns (clause, detail) for each violated oracle clause.
fn judge(cfg: &Cfg, p: &Pair, expect_types: bool) -> Vec<(String, String)> {
  let mut v = vec![];
  let c_done = p.c.completed().cloned();
  let s_done = p.s.completed().cloned();
  let any_err = p.c.errored() || p.s.errored();
  let quiescent = p.in_flight_c2s() == 0 && p.in_flight_s2c() == 0;
  if quiescent && !any_err && !(p.both_data()) {
    v.push((
      "stuck-nonterminal".into(),
      format!("nothing in flight, no error, phases client={:?} server={:?}", p.c.phase(), p.s.phase()),
    ));
  }
  let compat = if expect_types { cfg.expected_compatible() } else { cfg.mech_compatible() };
  if compat {
    if any_err {
      v.push(("compatible-pair-failed".into(), format!("client err {:?}, server err {:?}", p.c.first_error(), p.s.first_error())));
    } else if quiescent {
      match (&c_done, &s_done) {
        (Some(Ev::Complete { identity: ci, socket_type: ct }), Some(Ev::Complete { identity: si, socket_type: st })) => {
          // each side must have learned the other's socket type and identity
          let want_ci = if cfg.sid > 0 { Some(vec![b's'; cfg.sid]) } else { None };
          let want_si = if cfg.cid > 0 { Some(vec![b'c'; cfg.cid]) } else { None };
          if ct.as_deref() != Some(cfg.stype) || st.as_deref() != Some(cfg.ctype) {
            v.push(("disagree-socket-type".into(), format!("client saw {:?} (server is {}), server saw {:?} (client is {})", ct, cfg.stype, st, cfg.ctype)));
          }
          if *ci != want_ci || *si != want_si {
            v.push(("disagree-identity".into(), format!("client saw id len {:?} want {:?}; server saw id len {:?} want {:?}", ci.as_ref().map(|x| x.len()), want_ci.as_ref().map(|x| x.len()), si.as_ref().map(|x| x.len()), want_si.as_ref().map(|x| x.len()))));
          }
          if p.c.eng.verif_version() != Some(ZmtpVersion::V3) || p.s.eng.verif_version() != Some(ZmtpVersion::V3) {
            v.push(("disagree-version".into(), format!("{:?} vs {:?}", p.c.eng.verif_version(), p.s.eng.verif_version())));
          }
        }
        _ => v.push(("compatible-pair-incomplete".into(), format!("client complete={} server complete={}", c_done.is_some(), s_done.is_some()))),
      }
    }
  } else {
    if c_done.is_some() || s_done.is_some() {
      v.push((
        "incompatible-pair-completed".into(),
        format!("client complete={} server complete={} (client {} / server {}, mech {:?}/{:?}, creds {:?})", c_done.is_some(), s_done.is_some(), cfg.ctype, cfg.stype, cfg.cmech, cfg.smech, cfg.creds),
      ));
    } else if quiescent && !any_err {
      v.push(("incompatible-pair-no-error".into(), "quiescent without any PeerError".into()));
    }
  }
  v
}

fn class_of(cfg: &Cfg) -> String {
  let m = if cfg.cmech == cfg.smech { format!("{:?}-{:?}", cfg.cmech, cfg.creds) } else { format!("{:?}-vs-{:?}", cfg.cmech, cfg.smech) };
  let t = if zmq_compatible(cfg.ctype, cfg.stype) { "valid-types" } else { "invalid-types" };
  format!("{}:{}", m, t)
}

fn matrix(tier: Tier) -> Vec<Cfg> {
  let mut out = vec![];
  // (a) all 11x11 type pairs x mechanism pairs with good creds, no ids
  for c in WIRE_TYPES {
    for s in WIRE_TYPES {
      for cm in ALL_MECHS {
        for sm in ALL_MECHS {
          if tier == Tier::Quick && cm != sm && !(c == "DEALER" && s == "ROUTER" || c == "PUSH" && s == "PULL" || c == "PUSH" && s == "PUB") {
            continue;
          }
          out.push(Cfg { ctype: c, stype: s, cmech: cm, smech: sm, creds: Creds::Good, cid: 0, sid: 0 });
        }
      }
    }
  }
  // (b) credentials x routing ids on representative valid pairs
  let reps: &[(&str, &str)] = &[("DEALER", "ROUTER"), ("REQ", "REP"), ("PUSH", "PULL"), ("SUB", "PUB"), ("ROUTER", "ROUTER"), ("REQ", "ROUTER")];
  for (c, s) in reps {
    for m in ALL_MECHS {
      for creds in [Creds::Good, Creds::Bad, Creds::Absent] {
        for cid in [0usize, 1, 255] {
          for sid in [0usize, 1, 255] {
            out.push(Cfg { ctype: c, stype: s, cmech: m, smech: m, creds, cid, sid });
          }
        }
      }
    }
  }
  out
}

fn endpoints_sub(tier: Tier) -> Sub {
  let mut sub = Sub::new("matrix-endpoints", "E1");
  let cfgs = matrix(tier);
  let scheds = [Sched::AllAtOnceClientFirst, Sched::AllAtOnceServerFirst, Sched::ByteAlternating, Sched::ClientDrainsFirstBytewise];
  sub.rule = "case = (endpoint configuration, delivery schedule) run to quiescence on two real engines; non-trivial = at least one side left the Greeting phase; outcome = (phases, completion, error presence)".into();
  sub.bounds = json!({"configurations": cfgs.len(), "schedules": 4, "socket_type_names": WIRE_TYPES, "mechanisms": "NULL, PLAIN, CURVE, NOISE_XX", "credentials": "good/bad/absent", "routing_id_len": [0, 1, 255]});
  par::enumerate(&mut sub, cfgs.len() * scheds.len(), |i| {
    let cfg = &cfgs[i / scheds.len()];
    let sch = scheds[i % scheds.len()];
    let (cs, ss) = cfg.specs();
    let mut c = Case::default();
    match mc_core::catch(|| {
      let mut p = Pair::new(&cs, &ss);
      let steps = run_schedule(&mut p, sch);
      (p, steps)
    }) {
      Ok((p, steps)) => {
        c.steps = steps;
        c.nontrivial = p.c.phase() != ZmtpPhase::Greeting || p.s.phase() != ZmtpPhase::Greeting;
        c.outcome = mc_core::digest(&(format!("{:?}{:?}", p.c.phase(), p.s.phase()), p.c.completed().is_some(), p.s.completed().is_some(), p.c.errored(), p.s.errored()));
        c.state = mc_core::digest(&(i / scheds.len(), p.c2s, p.s2c));
        for (clause, detail) in judge(cfg, &p, true) {
          c.violations.push((clause, class_of(cfg), detail, json!({"config": cfg.describe(), "schedule": format!("{:?}", sch)})));
        }
        if i % 997 == 0 {
          c.sample = Some(json!({"config": cfg.describe(), "schedule": format!("{:?}", sch), "client_bytes": p.c.sent.len(), "server_bytes": p.s.sent.len(), "both_data": p.both_data()}));
        }
      }
      Err(msg) => {
        let loc = mc_core::loc_of(&msg);
        c.violations.push(("panic".into(), loc, msg, json!({"config": cfg.describe(), "schedule": format!("{:?}", sch)})));
      }
    }
    c
  });
  sub
}

// ---------------------------------------------------------------------------------------------
// Full delivery lattice
// ---------------------------------------------------------------------------------------------

#[derive(Clone, Copy, Debug, PartialEq, Eq, Hash)]
enum Ev5 {
  /// deliver n bytes client -> server
  C2S(usize),
  /// deliver n bytes server -> client
  S2C(usize),
}

fn boundaries(stream: &[u8]) -> Vec<usize> {
  let mut b = vec![10, 11, 12, 64];
  let mut off = 64;
  while off + 2 <= stream.len() {
    let fl = stream[off];
    let (h, l) = if fl & 0x02 != 0 {
      if off + 9 > stream.len() {
        break;
      }
      (9, u64::from_be_bytes(stream[off + 1..off + 9].try_into().unwrap()) as usize)
    } else {
      (2, stream[off + 1] as usize)
    };
    b.push(off + h);
    off += h + l;
    b.push(off);
  }
  b.retain(|&x| x <= stream.len());
  b
}

fn next_boundary(stream: &[u8], from: usize) -> usize {
  boundaries(stream).into_iter().find(|&b| b > from).unwrap_or(stream.len())
}

fn lattice_sub(name: &str, cfg: &Cfg, bytewise: bool) -> Sub {
  let mut sub = Sub::new(&format!("lattice:{}", name), "E1");
  sub.rule = "state = (bytes delivered client->server, bytes delivered server->client) reached by re-executing the delivery history on two fresh real engines; transitions = deliver {1 byte, up to the next protocol boundary, everything} in either direction; non-trivial = some engine output was produced in response to input; confluence: two histories reaching the same lattice point must agree on (phases, events, output lengths)".into();
  sub.bounds = json!({"config": cfg.describe(), "step_alphabet": if bytewise { "1 byte | to next boundary | all" } else { "to next boundary | all (+1 byte when within 1 of a boundary)" }});
  let (cs, ss) = cfg.specs();
  let confl: Mutex<HashMap<(usize, usize), (u64, String)>> = Mutex::new(HashMap::new());
  let cfgc = cfg.clone();
  bfs(&mut sub, 100_000, 3_000_000, |hist: &[Ev5]| {
    let r = mc_core::catch(|| {
      let mut p = Pair::new(&cs, &ss);
      for e in hist {
        match *e {
          Ev5::C2S(n) => p.deliver_c2s(n),
          Ev5::S2C(n) => p.deliver_s2c(n),
        }
      }
      p
    });
    let p = match r {
      Ok(p) => p,
      Err(msg) => {
        let loc = mc_core::loc_of(&msg);
        return Visit { key: (usize::MAX, hist.len()), enabled: vec![], nontrivial: true, outcome: 0, violations: vec![("panic".into(), loc, msg)] };
      }
    };
    let mut violations = vec![];
    let abstract_events = |s: &Side| -> Vec<String> {
      s.events
        .iter()
        .map(|e| match e {
          Ev::Complete { identity, socket_type } => format!("complete({:?},{:?})", identity.as_ref().map(|i| i.len()), socket_type),
          Ev::Deliver(d) => format!("deliver({})", d.len()),
          Ev::Error(_) => "error".to_string(),
        })
        .collect()
    };
    let dg_src = (format!("{:?}/{:?}", p.c.phase(), p.s.phase()), abstract_events(&p.c), abstract_events(&p.s), p.c.sent.len(), p.s.sent.len());
    let dg = mc_core::digest(&dg_src);
    {
      let mut m = confl.lock().unwrap();
      match m.get(&(p.c2s, p.s2c)) {
        Some((d0, desc0)) if *d0 != dg => violations.push((
          "confluence".into(),
          class_of(&cfgc),
          format!("lattice point ({}, {}) reached with different results: {:?} vs earlier {}", p.c2s, p.s2c, dg_src, desc0),
        )),
        Some(_) => {}
        None => {
          m.insert((p.c2s, p.s2c), (dg, format!("{:?}", dg_src)));
        }
      }
    }
    for (clause, detail) in judge(&cfgc, &p, true) {
      violations.push((clause, class_of(&cfgc), detail));
    }
    let mut enabled = vec![];
    if !(p.c.errored() || p.s.errored()) {
      let mut add = |mk: fn(usize) -> Ev5, stream: &[u8], from: usize| {
        let fl = stream.len() - from;
        if fl == 0 {
          return;
        }
        let nb = next_boundary(stream, from) - from;
        let mut ns = vec![nb, fl];
        if bytewise || nb <= 2 || boundaries(stream).iter().any(|&b| b + 1 == from || b == from) {
          ns.push(1);
        }
        ns.sort_unstable();
        ns.dedup();
        for n in ns {
          if n >= 1 && n <= fl {
            enabled.push(mk(n));
          }
        }
      };
      add(Ev5::C2S, &p.c.sent, p.c2s);
      add(Ev5::S2C, &p.s.sent, p.s2c);
    }
    Visit {
      key: (p.c2s, p.s2c),
      enabled,
      nontrivial: p.c.sent.len() > 10 || p.s.sent.len() > 10,
      outcome: dg,
      violations,
    }
  });
  sub
}

// ---------------------------------------------------------------------------------------------
// ZMTP/2.0 peer: gated script x delivery lattice (mutual-wait detection)
// ---------------------------------------------------------------------------------------------

#[derive(Clone, Copy, Debug, PartialEq, Eq, Hash)]
enum Gate {
  /// an old v2-only peer: writes its whole greeting + identity at once
  Eager,
  /// libzmq-style staged peer: signature; revision after our signature; the rest after our revision
  Staged,
  /// signature + revision together; socket type and identity only after it has seen our revision
  SigRevThenWait,
  /// signature; revision + socket type after our signature; identity after our revision
  SigThenRevType,
}

/// How many bytes of the peer stream are available once the engine has sent `ours` bytes.
fn available(g: Gate, ours: usize, total: usize) -> usize {
  match g {
    Gate::Eager => total,
    Gate::Staged => {
      if ours >= 11 {
        total
      } else if ours >= 10 {
        11
      } else {
        10
      }
    }
    Gate::SigRevThenWait => {
      if ours >= 11 {
        total
      } else {
        11
      }
    }
    Gate::SigThenRevType => {
      if ours >= 11 {
        total
      } else if ours >= 10 {
        12
      } else {
        10
      }
    }
  }
}

fn lattice_v2_sub(local: &'static str, peer: &'static str, is_server: bool, gate: Gate) -> Sub {
  let mut sub = Sub::new(&format!("lattice-v2:{}-vs-{}:{}:{:?}", local, peer, if is_server { "listener" } else { "connector" }, gate), "E1");
  sub.rule = "state = bytes of a gated ZMTP/2.0 peer script delivered to one real engine (the peer releases later parts of its greeting only after it has seen our signature / revision); transitions = deliver {1, to next boundary, all available}; oracle: the engine completes as ZMTP/2.0 with the peer's type and identity, and never reaches a state where the peer is waiting for us while we wait for the peer".into();
  let code = v2_code(peer).unwrap();
  let mut script = v2_script(code, b"peer");
  // followed by one data frame
  script.extend_from_slice(&[0x00, 0x02, b'h', b'i']);
  let total = script.len();
  let bounds = [10usize, 11, 12, 18, total];
  sub.bounds = json!({"script_bytes": total, "gate": format!("{:?}", gate)});
  let script2 = script.clone();
  bfs(&mut sub, 10_000, 1_000_000, move |hist: &[usize]| {
    let sp = spec(local, rzmq::verif::engine::Mech::Null);
    let r = mc_core::catch(|| {
      let mut s = Side::from_spec(is_server, &sp);
      let mut k = 0;
      for &n in hist {
        s.feed(&script2[k..k + n]);
        k += n;
      }
      (s, k)
    });
    let (s, k) = match r {
      Ok(x) => x,
      Err(msg) => return Visit { key: (usize::MAX, hist.len()), enabled: vec![], nontrivial: true, outcome: 0, violations: vec![("panic".into(), mc_core::loc_of(&msg), msg)] },
    };
    let mut violations = vec![];
    let avail = available(gate, s.sent.len(), total);
    let class = format!("v2:{:?}", gate);
    if s.errored() {
      violations.push(("compatible-pair-failed".into(), class.clone(), format!("after {} bytes: {:?}", k, s.first_error())));
    }
    let mut enabled = vec![];
    if !s.errored() && k < avail {
      let nb = bounds.iter().copied().find(|b| *b > k).unwrap_or(total).min(avail) - k;
      let mut ns = vec![1, nb, avail - k];
      ns.sort_unstable();
      ns.dedup();
      enabled = ns.into_iter().filter(|n| *n >= 1 && k + n <= avail).collect();
    }
    if !s.errored() && k == avail && k < total {
      violations.push(("stuck-nonterminal".into(), class.clone(), format!("mutual wait: engine has sent {} bytes and waits; the peer has delivered {} of {} bytes and waits for more of our greeting", s.sent.len(), k, total)));
    }
    if k == total && !s.errored() {
      match s.completed() {
        Some(Ev::Complete { identity, socket_type }) => {
          if socket_type.as_deref() != Some(peer) || identity.as_deref() != Some(&b"peer"[..]) || s.eng.verif_version() != Some(ZmtpVersion::V2) {
            violations.push(("disagree-socket-type".into(), class.clone(), format!("type {:?} identity {:?} version {:?}", socket_type, identity, s.eng.verif_version())));
          }
          if s.delivered().len() != 1 {
            violations.push(("data-after-handshake-lost".into(), class.clone(), format!("delivered {}", s.delivered().len())));
          }
          // our own v2 greeting must be exactly signature + revision + type + identity frame
          if s.sent.len() < 12 || s.sent[10] != 3 && s.sent[10] != 1 {
            violations.push(("own-greeting-malformed".into(), class.clone(), format!("we sent {}", hex(&s.sent))));
          }
        }
        _ => violations.push(("compatible-pair-incomplete".into(), class.clone(), format!("all {} bytes delivered, phase {:?}", total, s.phase()))),
      }
    }
    Visit { key: (k, s.sent.len()), enabled, nontrivial: k >= 10, outcome: mc_core::digest(&(k, s.sent.len(), format!("{:?}", s.phase()))), violations }
  });
  sub
}

// ---------------------------------------------------------------------------------------------
// Verdict tables
// ---------------------------------------------------------------------------------------------

fn v2_script(type_code: u8, identity: &[u8]) -> Vec<u8> {
  let mut b = vec![0xFF, 0, 0, 0, 0, 0, 0, 0, 0, 0x7F, 0x01, type_code];
  b.push(0x00);
  b.push(identity.len() as u8);
  b.extend_from_slice(identity);
  b
}

fn v2_code(name: &str) -> Option<u8> {
  rzmq::protocol::zmtp::greeting::socket_type_code(name)
}

fn socket_type_of(name: &str) -> Option<SocketType> {
  Some(match name {
    "PUB" => SocketType::Pub,
    "SUB" => SocketType::Sub,
    "REQ" => SocketType::Req,
    "REP" => SocketType::Rep,
    "DEALER" => SocketType::Dealer,
    "ROUTER" => SocketType::Router,
    "PUSH" => SocketType::Push,
    "PULL" => SocketType::Pull,
    _ => return None,
  })
}

fn verdict_sub() -> Sub {
  let mut sub = Sub::new("verdict-tables", "E1");
  sub.rule = "case = ordered pair of socket-type names; the verdict of the real ZMTP/3 engine pair (NULL), of the real engine against a scripted ZMTP/2.0 peer (both roles, all-at-once and byte-at-a-time), and of the inproc compatibility function are compared with each other and with the ZeroMQ pairing table; non-trivial = all pairs".into();
  let mut v3_accepts_invalid = vec![];
  let mut v3_rejects_valid = vec![];
  let mut v2_accepts_invalid = vec![];
  let mut v2_rejects_valid = vec![];
  let mut inproc_accepts_invalid = vec![];
  let mut inproc_rejects_valid = vec![];
  let mut v2_meta_wrong = vec![];
  for a in WIRE_TYPES {
    for b in WIRE_TYPES {
      let want = zmq_compatible(a, b);
      // v3: a = client, b = server
      let cfg = Cfg { ctype: a, stype: b, cmech: MechKind::Null, smech: MechKind::Null, creds: Creds::Good, cid: 0, sid: 0 };
      let (cs, ss) = cfg.specs();
      let mut p = Pair::new(&cs, &ss);
      p.run_to_quiescence();
      sub.evaluations += 1;
      sub.transitions += 1;
      let v3 = p.c.completed().is_some() && p.s.completed().is_some();
      if v3 && !want {
        v3_accepts_invalid.push(format!("{}-{}", a, b));
      }
      if !v3 && want {
        v3_rejects_valid.push(format!("{}-{}", a, b));
      }
      // v2: local engine of type a (both roles) against a scripted v2 peer of type b
      if let Some(code) = v2_code(b) {
        for is_server in [false, true] {
          for bytewise in [false, true] {
            let sp = spec(a, rzmq::verif::engine::Mech::Null);
            let mut s = Side::from_spec(is_server, &sp);
            let script = v2_script(code, b"peer");
            if bytewise {
              for x in &script {
                s.feed(&[*x]);
              }
            } else {
              s.feed(&script);
            }
            sub.evaluations += 1;
            sub.transitions += script.len() as u64;
            let ok = s.completed().is_some();
            if ok && !want {
              v2_accepts_invalid.push(format!("{}-{}", a, b));
            }
            if !ok && want {
              v2_rejects_valid.push(format!("{}-{} ({:?})", a, b, s.first_error()));
            }
            if ok {
              if let Some(Ev::Complete { identity, socket_type }) = s.completed() {
                if socket_type.as_deref() != Some(b) || identity.as_deref() != Some(&b"peer"[..]) || s.eng.verif_version() != Some(ZmtpVersion::V2) {
                  v2_meta_wrong.push(format!("{}-{}: saw type {:?} id {:?} version {:?}", a, b, socket_type, identity, s.eng.verif_version()));
                }
              }
            }
            if !ok && !s.errored() {
              v2_rejects_valid.push(format!("{}-{} stuck without error", a, b));
            }
          }
        }
      }
      // inproc (rzmq's 8 socket types only)
      if let (Some(ta), Some(tb)) = (socket_type_of(a), socket_type_of(b)) {
        sub.evaluations += 1;
        let ip = rzmq::verif::core::inproc_compatible(ta, tb);
        if ip && !want {
          inproc_accepts_invalid.push(format!("{}-{}", a, b));
        }
        if !ip && want {
          inproc_rejects_valid.push(format!("{}-{}", a, b));
        }
      }
      sub.nontrivial += 1;
    }
  }
  sub.states = (WIRE_TYPES.len() * WIRE_TYPES.len()) as u64;
  sub.distinct_outcomes = 2;
  sub.bounds = json!({"socket_type_names": WIRE_TYPES, "tables": ["zmtp3 engine pair", "zmtp2 scripted peer", "inproc", "ZeroMQ reference"]});
  sub.sample(json!({"pair": "DEALER-ROUTER", "zmq": true}));
  let mut put = |clause: &str, list: Vec<String>| {
    if !list.is_empty() {
      let mut l = list;
      l.sort();
      l.dedup();
      sub.violate(clause, "table", format!("{} pairs: {}", l.len(), l.join(", ")), json!({"pairs": l}));
    }
  };
  put("zmtp3-accepts-invalid-pairing", v3_accepts_invalid);
  put("zmtp3-rejects-valid-pairing", v3_rejects_valid);
  put("zmtp2-accepts-invalid-pairing", v2_accepts_invalid);
  put("zmtp2-rejects-valid-pairing", v2_rejects_valid);
  put("inproc-accepts-invalid-pairing", inproc_accepts_invalid);
  put("inproc-rejects-valid-pairing", inproc_rejects_valid);
  put("zmtp2-handshake-metadata-wrong", v2_meta_wrong);
  sub
}

pub fn run(tier: Tier) -> Report {
  let mut rep = Report::new("C05", tier, "model_checking");
  rep.assume("each engine's output is a function of the bytes it has received (checked: the confluence oracle would fire otherwise); crypto byte contents differ between re-executions (fresh ephemeral keys) and are excluded from state digests, lengths and phases are kept");
  rep.assume("a state in which either engine has emitted PeerError is terminal (the transport closes the connection)");
  rep.assume("ZMTP/2.0 peers are a scripted transcript (rzmq never announces v2 itself)");
  rep.add(verdict_sub());
  rep.add(endpoints_sub(tier));
  let mk = |c: &'static str, s: &'static str, cm, sm, creds, cid, sid| Cfg { ctype: c, stype: s, cmech: cm, smech: sm, creds, cid, sid };
  use Creds::*;
  use MechKind::*;
  let mut lattices: Vec<(&str, Cfg, bool)> = vec![
    ("null-dealer-router", mk("DEALER", "ROUTER", Null, Null, Good, 1, 0), true),
    ("null-push-pull-id255", mk("PUSH", "PULL", Null, Null, Good, 255, 0), true),
    ("plain-good", mk("REQ", "REP", Plain, Plain, Good, 0, 0), true),
    ("plain-bad-password", mk("REQ", "REP", Plain, Plain, Bad, 0, 0), true),
    ("null-vs-plain", mk("DEALER", "ROUTER", Null, Plain, Good, 0, 0), true),
    ("curve-good", mk("DEALER", "ROUTER", Curve, Curve, Good, 0, 0), tier == Tier::Thorough),
    ("noise-good", mk("PUSH", "PULL", Noise, Noise, Good, 0, 0), tier == Tier::Thorough),
  ];
  if tier == Tier::Thorough {
    lattices.push(("curve-bad-serverkey", mk("DEALER", "ROUTER", Curve, Curve, Bad, 0, 0), true));
    lattices.push(("noise-bad-serverkey", mk("PUSH", "PULL", Noise, Noise, Bad, 0, 0), true));
    lattices.push(("plain-vs-curve", mk("DEALER", "ROUTER", Plain, Curve, Good, 0, 0), true));
    lattices.push(("null-invalid-types", mk("PUSH", "PUB", Null, Null, Good, 0, 0), true));
    lattices.push(("plain-sub-pub-ids", mk("SUB", "PUB", Plain, Plain, Good, 1, 255), true));
  }
  for (name, cfg, bytewise) in lattices {
    rep.add(lattice_sub(name, &cfg, bytewise));
  }
  for gate in [Gate::Eager, Gate::Staged, Gate::SigRevThenWait, Gate::SigThenRevType] {
    rep.add(lattice_v2_sub("PULL", "PUSH", true, gate));
    rep.add(lattice_v2_sub("DEALER", "ROUTER", false, gate));
    if tier == Tier::Thorough {
      rep.add(lattice_v2_sub("ROUTER", "DEALER", true, gate));
      rep.add(lattice_v2_sub("SUB", "PUB", false, gate));
    }
  }
  rep
}

pub fn replay(sub: &str, w: &Value) -> Result<String, String> {
  if sub == "verdict-tables" {
    let s = verdict_sub();
    return if s.violations.is_empty() { Ok("tables agree".into()) } else { Err(s.violations.iter().map(|v| format!("{}: {}", v.signature, v.detail)).collect::<Vec<_>>().join(" | ")) };
  }
  Err(format!("replay of sub-check {} : re-run ./check C05 (witness {})", sub, w))
}
