//! C20 — the io_uring backend is observably equivalent to the Tokio backend.
//!
//! E4 differential matrix. The io_uring backend is a process-wide singleton whose buffer pools are
//! fixed at initialisation, so each pool configuration runs in its own `mc-uring` process (the only
//! harness binary built with rzmq's `io-uring` feature). Inside a process every workload is executed
//! once with the default backend (the reference) and once per io_uring variant on real loopback tcp;
//! observations must be identical. A difference only counts when it reproduces on a second run of
//! both the reference and the variant.

use mc_core::{Report, Sub, Tier};
use serde_json::{json, Value};
use std::process::Command;

fn uring_bin() -> std::path::PathBuf {
  let me = std::env::current_exe().expect("current exe");
  me.parent().expect("exe dir").join("mc-uring")
}

fn pools(tier: Tier) -> Vec<(usize, usize, usize, usize)> {
  match tier {
    // (recv buffers, recv buffer size, send buffers, send buffer size)
    Tier::Quick => vec![(16, 65536, 16, 65536)],
    Tier::Thorough => vec![(16, 65536, 16, 65536), (2, 4096, 2, 4096), (4, 16384, 8, 65536), (8, 4096, 16, 16384)],
  }
}

pub fn run(tier: Tier) -> Report {
  let mut rep = Report::new("C20", tier, "exploration");
  rep.assume("real kernel, real clock: each (pool configuration, workload, variant) cell is one execution on loopback tcp; the matrix is enumerated completely, OS schedules inside a cell are not; a difference is reported only if it reproduces when the reference and the variant are both run again");
  rep.assume("observations compared: delivered messages (digest per frame, order), send/handshake error kinds, monitor event kinds, whether and by whom a faulty connection is closed, fd count and post-churn throughput; counts that depend on kernel buffer sizes are not compared");
  let mut sub = Sub::new("uring-vs-tokio", "E4");
  sub.rule = "case = one (pool configuration, workload, backend variant) execution; non-trivial = the io_uring variant ran; oracle: its observation equals the observation of the same workload on the default backend".into();
  let bin = uring_bin();
  if !bin.exists() {
    eprintln!("MACHINERY: {}", format!("{} not built", bin.display()));
    mc_core::world::flag_machinery_error();
    sub.exhaustive = false;
    sub.caps_hit.push("mc-uring binary missing".into());
    rep.add(sub);
    return rep;
  }
  let t = if tier == Tier::Quick { "quick" } else { "thorough" };
  let ps = pools(tier);
  sub.bounds = json!({"pools": ps.iter().map(|p| format!("recv {}x{} send {}x{}", p.0, p.1, p.2, p.3)).collect::<Vec<_>>()});
  // one process per pool configuration, all in parallel
  let outs: Vec<(String, Result<Value, String>)> = std::thread::scope(|s| {
    let hs: Vec<_> = ps
      .iter()
      .map(|p| {
        let bin = bin.clone();
        let p = *p;
        s.spawn(move || {
          let name = format!("recv {}x{} send {}x{}", p.0, p.1, p.2, p.3);
          // stderr (panic messages of the subject, if any) is kept next to the binary for diagnosis
          let errp = bin.parent().unwrap().join(format!("c20-{}x{}-{}x{}.stderr", p.0, p.1, p.2, p.3));
          let errf = std::fs::File::create(&errp).map(std::process::Stdio::from).unwrap_or_else(|_| std::process::Stdio::null());
          let o = Command::new(&bin).args([p.0.to_string(), p.1.to_string(), p.2.to_string(), p.3.to_string(), t.to_string()]).stderr(errf).output();
          let r = match o {
            Err(e) => Err(format!("cannot run mc-uring: {}", e)),
            Ok(o) => {
              // mc-uring prints one JSON line per event: "begin" before each cell, "workload_done"
              // with that workload's findings, "summary" at the end
              let text = String::from_utf8_lossy(&o.stdout).to_string();
              let mut cells = 0u64;
              let mut workloads = 0u64;
              let mut violations: Vec<Value> = vec![];
              let mut samples: Vec<Value> = vec![];
              let mut last_begin: Option<(String, String)> = None;
              let mut summary: Option<Value> = None;
              for l in text.lines().filter(|l| l.starts_with('{')) {
                let Ok(v) = serde_json::from_str::<Value>(l) else { continue };
                match v["event"].as_str() {
                  Some("begin") => last_begin = Some((v["workload"].as_str().unwrap_or("").to_string(), v["variant"].as_str().unwrap_or("").to_string())),
                  Some("workload_done") => {
                    cells += v["cells"].as_u64().unwrap_or(0);
                    workloads += 1;
                    violations.extend(v["violations"].as_array().cloned().unwrap_or_default());
                    samples.extend(v["samples"].as_array().cloned().unwrap_or_default());
                  }
                  Some("summary") => summary = Some(v),
                  _ => {
                    if v.get("unavailable").is_some() {
                      summary = Some(v);
                    }
                  }
                }
              }
              let mut out = json!({"cells": cells, "workloads": workloads, "violations": violations, "samples": samples});
              match summary {
                Some(sm) if sm.get("unavailable").is_some() => Ok(sm),
                Some(sm) => {
                  out["unstable_cells_without_verdict"] = sm["unstable_cells_without_verdict"].clone();
                  Ok(out)
                }
                None => {
                  // the process died: a double close of a descriptor aborts it (std's IO-safety check,
                  // active because the harness profile keeps debug assertions on) - that is a verdict
                  let err_text = std::fs::read_to_string(&errp).unwrap_or_default();
                  if err_text.contains("IO Safety violation") && err_text.contains("already closed") {
                    let (wl, var) = last_begin.unwrap_or_default();
                    // (the close happens on the worker thread, possibly for a connection of an earlier
                    // cell: the cell that was running is reported in the detail, not in the class)
                    out["violations"].as_array_mut().unwrap().push(json!({"clause": "file-descriptor-closed-twice", "class": "io_uring-worker", "detail": format!("pool [{}]: the process was aborted by std's IO-safety check ('owned file descriptor already closed') while running workload {} with {}; workloads after this one were not run in this pool", name, wl, var), "witness": {"workload": wl, "variant": var, "pool": name}}));
                    out["incomplete"] = json!(format!("aborted inside {} [{}]", wl, var));
                    Ok(out)
                  } else {
                    Err(format!("mc-uring produced no summary (exit {:?}, {}); stderr kept in {}; stdout tail: {}", o.status.code(), o.status, errp.display(), text.chars().rev().take(300).collect::<String>().chars().rev().collect::<String>()))
                  }
                }
              }
            }
          };
          (name, r)
        })
      })
      .collect();
    hs.into_iter().map(|h| h.join().expect("pool thread")).collect()
  });
  for (name, r) in outs {
    match r {
      Err(e) => {
        eprintln!("MACHINERY: {}", format!("pool [{}]: {}", name, e));
    mc_core::world::flag_machinery_error();
        sub.exhaustive = false;
        sub.caps_hit.push(format!("pool [{}] gave no result", name));
      }
      Ok(v) => {
        if let Some(u) = v.get("unavailable") {
          sub.notes.push(format!("pool [{}]: {}", name, u));
          sub.exhaustive = false;
          sub.caps_hit.push("io_uring unavailable in this environment".into());
          continue;
        }
        if let Some(inc) = v["incomplete"].as_str() {
          sub.exhaustive = false;
          sub.caps_hit.push(format!("pool [{}] {}", name, inc));
        }
        let cells = v["cells"].as_u64().unwrap_or(0);
        sub.evaluations += cells;
        sub.states += cells;
        sub.transitions += cells;
        sub.nontrivial += cells;
        sub.distinct_outcomes += v["workloads"].as_u64().unwrap_or(0);
        for s in v["samples"].as_array().cloned().unwrap_or_default() {
          sub.sample(json!({"pool": name, "sample": s}));
        }
        if let Some(u) = v["unstable_cells_without_verdict"].as_array() {
          if !u.is_empty() {
            sub.notes.push(format!("pool [{}]: {} cell(s) whose difference did not reproduce (no verdict): {:?}", name, u.len(), u));
          }
        }
        for x in v["violations"].as_array().cloned().unwrap_or_default() {
          let clause = x["clause"].as_str().unwrap_or("difference").to_string();
          // class = workload (+ fault) + backend variant; the pool configuration is in the detail and
          // the witness (the first pool in which a difference shows is the one recorded)
          let class = x["class"].as_str().unwrap_or("").to_string();
          let mut w = x["witness"].clone();
          w["explorer"] = json!("e4");
          sub.violate(&clause, &class, x["detail"].as_str().unwrap_or("").to_string(), w);
        }
      }
    }
  }
  rep.add(sub);
  rep
}

pub fn replay(_sub: &str, w: &Value) -> Result<String, String> {
  let pool = w["pool"].as_str().ok_or("no pool in witness")?;
  let nums: Vec<String> = pool.split(|c: char| !c.is_ascii_digit()).filter(|t| !t.is_empty()).map(|s| s.to_string()).collect();
  if nums.len() != 4 {
    return Err("bad pool".into());
  }
  let wl = w["workload"].as_str().ok_or("no workload")?;
  let o = Command::new(uring_bin()).args([nums[0].clone(), nums[1].clone(), nums[2].clone(), nums[3].clone(), "thorough".into(), wl.to_string()]).stderr(std::process::Stdio::null()).output().map_err(|e| e.to_string())?;
  let text = String::from_utf8_lossy(&o.stdout).to_string();
  let mut vs: Vec<Value> = vec![];
  let mut saw_summary = false;
  for l in text.lines().filter(|l| l.starts_with('{')) {
    if let Ok(v) = serde_json::from_str::<Value>(l) {
      if v["event"] == "workload_done" {
        vs.extend(v["violations"].as_array().cloned().unwrap_or_default());
      }
      if v["event"] == "summary" {
        saw_summary = true;
      }
    }
  }
  if !saw_summary {
    return Err(format!("mc-uring did not finish ({}), violations so far: {}", o.status, Value::Array(vs)));
  }
  if vs.is_empty() {
    Ok("observations agree".into())
  } else {
    Err(format!("{}", Value::Array(vs)))
  }
}
