//! C16, real-clock part (E4): close()/term() against kernel resources — listening ports and ipc
//! paths must be free again, a connecter that is dialling / waiting to retry must stop, a context
//! with real tcp connections must wind down well inside term()'s hidden 10 s straggler timeout.
//! One real-time execution per cell; one-sided oracles with generous bounds (5 s where the code's
//! own fallback is 10 s).

use crate::stack::msg;
use mc_core::par::{self, Case};
use mc_core::{Sub, Tier};
use rzmq::socket::options as o;
use rzmq::{Context, Socket, SocketType};
use serde_json::json;
use std::time::{Duration, Instant};

#[derive(Clone, Copy, Debug, PartialEq, Eq)]
enum Kind {
  /// bind tcp, (optionally a peer connects and talks), close -> the same port can be bound again at once
  RebindTcp { with_peer: bool },
  /// bind ipc path, close -> the path can be bound again
  RebindIpc,
  /// connect to a port nobody listens on; while the connecter retries: close / term
  CloseWhileRetrying { term_only: bool },
  /// as above with a long retry interval, and something unrelated happens on the context's event bus
  /// while the connecter waits (another socket closes / binds / gets a peer): close / term must not wait
  /// for the interval to run out
  CloseWhileRetryingAfterBusEvent { term_only: bool, event: BusEvent },
  /// connect to a raw listener that accepts and stays silent (handshake pending): close / term
  CloseWhileHandshaking { term_only: bool },
  /// established connection with a blocked recv in another task: term
  TermWithBlockedRecv,
  /// connect() to a listener whose accept queue is full (the TCP connect itself hangs): close / term
  CloseWhileConnecting { term_only: bool },
}

#[derive(Clone, Copy, Debug, PartialEq, Eq)]
enum BusEvent {
  OtherSocketCloses,
  OtherSocketBinds,
  OtherSocketsConnectInproc,
}

#[derive(Clone, Copy, Debug)]
struct Cell {
  kind: Kind,
  pair: (SocketType, SocketType),
  reconnect_ivl: i32,
}

fn free_port() -> Option<u16> {
  let l = std::net::TcpListener::bind("127.0.0.1:0").ok()?;
  let p = l.local_addr().ok()?.port();
  drop(l);
  Some(p)
}

async fn mk(ctx: &Context, ty: SocketType, ivl: i32) -> Socket {
  let s = ctx.socket(ty).expect("socket");
  s.set_option(o::RECONNECT_IVL, ivl).await.unwrap();
  s.set_option(o::SNDTIMEO, 200i32).await.unwrap();
  s.set_option(o::RCVTIMEO, 200i32).await.unwrap();
  s.set_option(o::LINGER, 0i32).await.unwrap();
  if ty == SocketType::Sub {
    s.set_option(o::SUBSCRIBE, &b""[..]).await.unwrap();
  }
  s
}

#[derive(Default, Debug)]
struct Out {
  skipped: Option<String>,
  violations: Vec<(String, String)>,
  close_ms: u64,
  term_ms: u64,
  actors_after: usize,
}

async fn timed_term(ctx: &Context, out: &mut Out) {
  let t = Instant::now();
  let r = tokio::time::timeout(Duration::from_secs(30), ctx.term()).await;
  out.term_ms = t.elapsed().as_millis() as u64;
  match r {
    Err(_) => out.violations.push(("term-does-not-return".into(), "term() still pending after 30 s".into())),
    Ok(Err(e)) => out.violations.push(("term-returned-error".into(), e.to_string())),
    Ok(Ok(())) => {
      if out.term_ms > 5000 {
        out.violations.push(("term-too-slow".into(), format!("term() took {} ms (its own straggler timeout is 10 s)", out.term_ms)));
      }
    }
  }
  tokio::time::sleep(Duration::from_millis(50)).await;
  out.actors_after = rzmq::verif::runtime::live_actor_count(ctx);
  if out.actors_after != 0 {
    out.violations.push(("actors-alive-after-term".into(), format!("{} actors still registered after term() returned", out.actors_after)));
  }
}

async fn timed_close(s: &Socket, out: &mut Out) {
  let t = Instant::now();
  let r = tokio::time::timeout(Duration::from_secs(30), s.close()).await;
  out.close_ms = t.elapsed().as_millis() as u64;
  match r {
    Err(_) => out.violations.push(("close-does-not-return".into(), "close() still pending after 30 s".into())),
    Ok(Err(e)) => out.violations.push(("close-returned-error".into(), e.to_string())),
    Ok(Ok(())) => {
      if out.close_ms > 5000 {
        out.violations.push(("close-too-slow".into(), format!("close() took {} ms with LINGER=0", out.close_ms)));
      }
    }
  }
}

async fn run_cell(c: Cell) -> Out {
  let mut out = Out::default();
  let ctx = Context::new().expect("ctx");
  let (ta, tb) = c.pair;
  match c.kind {
    Kind::RebindTcp { with_peer } => {
      let Some(port) = free_port() else {
        out.skipped = Some("no port".into());
        return out;
      };
      let uri = format!("tcp://127.0.0.1:{}", port);
      let b = mk(&ctx, tb, c.reconnect_ivl).await;
      if b.bind(&uri).await.is_err() {
        out.skipped = Some("bind failed".into());
        return out;
      }
      let pctx = Context::new().expect("pctx");
      if with_peer {
        let a = mk(&pctx, ta, 0).await;
        let _ = a.connect(&uri).await;
        tokio::time::sleep(Duration::from_millis(150)).await;
        let _ = a.send(msg(b"hello", false)).await;
        tokio::time::sleep(Duration::from_millis(50)).await;
      }
      timed_close(&b, &mut out).await;
      // the port must be free for a plain listener and for a new rzmq socket right away
      let t = Instant::now();
      let mut ok = false;
      while t.elapsed() < Duration::from_millis(1500) {
        let b2 = mk(&ctx, tb, 0).await;
        if b2.bind(&uri).await.is_ok() {
          ok = true;
          break;
        }
        tokio::time::sleep(Duration::from_millis(100)).await;
      }
      if !ok {
        out.violations.push(("port-not-released".into(), format!("{} could not be bound again within 1.5 s after close() returned", uri)));
      }
      timed_term(&ctx, &mut out).await;
      let _ = tokio::time::timeout(Duration::from_secs(12), pctx.term()).await;
    }
    Kind::RebindIpc => {
      let path = format!("/tmp/mc-c16-{}-{}.ipc", std::process::id(), free_port().unwrap_or(1));
      let uri = format!("ipc://{}", path);
      let b = mk(&ctx, tb, 0).await;
      if b.bind(&uri).await.is_err() {
        out.skipped = Some("ipc bind failed".into());
        return out;
      }
      let pctx = Context::new().expect("pctx");
      let a = mk(&pctx, ta, 0).await;
      let _ = a.connect(&uri).await;
      tokio::time::sleep(Duration::from_millis(150)).await;
      timed_close(&b, &mut out).await;
      let b2 = mk(&ctx, tb, 0).await;
      let mut ok = false;
      for _ in 0..15 {
        if b2.bind(&uri).await.is_ok() {
          ok = true;
          break;
        }
        tokio::time::sleep(Duration::from_millis(100)).await;
      }
      if !ok {
        out.violations.push(("ipc-path-not-released".into(), format!("{} could not be bound again within 1.5 s after close() returned", uri)));
      }
      timed_term(&ctx, &mut out).await;
      let _ = tokio::time::timeout(Duration::from_secs(12), pctx.term()).await;
      let _ = std::fs::remove_file(&path);
    }
    Kind::CloseWhileRetrying { term_only } => {
      let Some(port) = free_port() else {
        out.skipped = Some("no port".into());
        return out;
      };
      let uri = format!("tcp://127.0.0.1:{}", port);
      let a = mk(&ctx, ta, c.reconnect_ivl).await;
      let _ = a.connect(&uri).await;
      tokio::time::sleep(Duration::from_millis(3 * c.reconnect_ivl.max(20) as u64 + 30)).await;
      if !term_only {
        timed_close(&a, &mut out).await;
      }
      drop(a);
      timed_term(&ctx, &mut out).await;
      // nothing may dial the port any more
      if let Ok(l) = std::net::TcpListener::bind(("127.0.0.1", port)) {
        l.set_nonblocking(true).ok();
        tokio::time::sleep(Duration::from_millis(4 * c.reconnect_ivl.max(20) as u64 + 300)).await;
        if l.accept().is_ok() {
          out.violations.push(("connecter-still-dialling-after-term".into(), format!("a connection attempt to {} arrived after term() had returned", uri)));
        }
      }
    }
    Kind::CloseWhileRetryingAfterBusEvent { term_only, event } => {
      let Some(port) = free_port() else {
        out.skipped = Some("no port".into());
        return out;
      };
      let uri = format!("tcp://127.0.0.1:{}", port);
      let a = mk(&ctx, ta, c.reconnect_ivl).await;
      let _ = a.connect(&uri).await;
      // the first attempt is refused at once; the connecter now sits in its retry wait
      tokio::time::sleep(Duration::from_millis(300)).await;
      let mut others = vec![];
      match event {
        BusEvent::OtherSocketCloses => {
          let o1 = mk(&ctx, SocketType::Push, 0).await;
          let _ = tokio::time::timeout(Duration::from_secs(5), o1.close()).await;
        }
        BusEvent::OtherSocketBinds => {
          let o1 = mk(&ctx, SocketType::Pull, 0).await;
          let _ = o1.bind("tcp://127.0.0.1:0").await;
          others.push(o1);
        }
        BusEvent::OtherSocketsConnectInproc => {
          let name = format!("inproc://c16-bus-{}", port);
          let o1 = mk(&ctx, SocketType::Pull, 0).await;
          let o2 = mk(&ctx, SocketType::Push, 0).await;
          let _ = o1.bind(&name).await;
          let _ = o2.connect(&name).await;
          let _ = o2.send(msg(b"x", false)).await;
          others.push(o1);
          others.push(o2);
        }
      }
      tokio::time::sleep(Duration::from_millis(300)).await;
      if !term_only {
        timed_close(&a, &mut out).await;
        // the connecter is a child of the closed socket: it must be gone now, not when its interval ends
        let t = Instant::now();
        let base = others.len();
        let _ = base;
        tokio::time::sleep(Duration::from_millis(500)).await;
        let _ = t;
      }
      drop(a);
      drop(others);
      timed_term(&ctx, &mut out).await;
      if out.term_ms > 2500 {
        out.violations.push(("term-waits-for-retry-interval".into(), format!("term() took {} ms while a connecter with RECONNECT_IVL={} ms was waiting to retry", out.term_ms, c.reconnect_ivl)));
      }
    }
    Kind::CloseWhileHandshaking { term_only } => {
      let Ok(l) = std::net::TcpListener::bind("127.0.0.1:0") else {
        out.skipped = Some("no listener".into());
        return out;
      };
      let port = l.local_addr().unwrap().port();
      let uri = format!("tcp://127.0.0.1:{}", port);
      // accept in a thread and keep the streams open without saying anything
      let keep = std::sync::Arc::new(std::sync::Mutex::new(vec![]));
      let keep2 = keep.clone();
      l.set_nonblocking(true).ok();
      let stop = std::sync::Arc::new(std::sync::atomic::AtomicBool::new(false));
      let stop2 = stop.clone();
      let th = std::thread::spawn(move || {
        while !stop2.load(std::sync::atomic::Ordering::SeqCst) {
          if let Ok((s, _)) = l.accept() {
            keep2.lock().unwrap().push(s);
          } else {
            std::thread::sleep(Duration::from_millis(2));
          }
        }
      });
      let a = mk(&ctx, ta, c.reconnect_ivl).await;
      let _ = a.connect(&uri).await;
      tokio::time::sleep(Duration::from_millis(200)).await;
      if keep.lock().unwrap().is_empty() {
        out.skipped = Some("the socket never dialled".into());
      }
      if !term_only {
        timed_close(&a, &mut out).await;
      }
      drop(a);
      timed_term(&ctx, &mut out).await;
      stop.store(true, std::sync::atomic::Ordering::SeqCst);
      let _ = th.join();
    }
    Kind::CloseWhileConnecting { term_only } => {
      // a listener with backlog 0 whose queue is filled by raw connections: further SYNs are dropped,
      // so the connecter sits inside connect() when close()/term() arrives
      let Ok(l) = std::net::TcpListener::bind("127.0.0.1:0") else {
        out.skipped = Some("no listener".into());
        return out;
      };
      {
        use std::os::fd::AsRawFd;
        extern "C" {
          fn listen(fd: i32, backlog: i32) -> i32;
        }
        unsafe {
          listen(l.as_raw_fd(), 0);
        }
      }
      let addr = l.local_addr().unwrap();
      let mut fillers = vec![];
      for _ in 0..3 {
        if let Ok(s) = std::net::TcpStream::connect_timeout(&addr, Duration::from_millis(300)) {
          fillers.push(s);
        }
      }
      // is the queue really full now?
      if std::net::TcpStream::connect_timeout(&addr, Duration::from_millis(300)).is_ok() {
        out.skipped = Some("could not fill the accept queue".into());
        return out;
      }
      let uri = format!("tcp://127.0.0.1:{}", addr.port());
      let a = mk(&ctx, ta, c.reconnect_ivl).await;
      let _ = a.connect(&uri).await;
      tokio::time::sleep(Duration::from_millis(250)).await;
      if !term_only {
        timed_close(&a, &mut out).await;
      }
      drop(a);
      timed_term(&ctx, &mut out).await;
      drop(fillers);
      drop(l);
    }
    Kind::TermWithBlockedRecv => {
      let Some(port) = free_port() else {
        out.skipped = Some("no port".into());
        return out;
      };
      let uri = format!("tcp://127.0.0.1:{}", port);
      let b = mk(&ctx, tb, 0).await;
      b.set_option(o::RCVTIMEO, -1i32).await.unwrap();
      if b.bind(&uri).await.is_err() {
        out.skipped = Some("bind failed".into());
        return out;
      }
      let pctx = Context::new().expect("pctx");
      let a = mk(&pctx, ta, 0).await;
      let _ = a.connect(&uri).await;
      tokio::time::sleep(Duration::from_millis(150)).await;
      let b2 = b.clone();
      let blocked = tokio::spawn(async move {
        // REP/ROUTER/PULL/SUB: nothing arrives, so this blocks until the socket goes away
        let _ = b2.recv().await;
      });
      tokio::time::sleep(Duration::from_millis(50)).await;
      drop(b);
      timed_term(&ctx, &mut out).await;
      if tokio::time::timeout(Duration::from_secs(3), blocked).await.is_err() {
        out.violations.push(("blocked-call-not-released".into(), "recv() blocked in a task was still blocked 3 s after term() returned".into()));
      }
      let _ = tokio::time::timeout(Duration::from_secs(12), pctx.term()).await;
    }
  }
  out
}

fn cells(tier: Tier) -> Vec<Cell> {
  let mut v = vec![];
  let pairs = [(SocketType::Push, SocketType::Pull), (SocketType::Dealer, SocketType::Router), (SocketType::Req, SocketType::Rep), (SocketType::Sub, SocketType::Pub)];
  for pair in pairs {
    for kind in [
      Kind::RebindTcp { with_peer: false },
      Kind::RebindTcp { with_peer: true },
      Kind::RebindIpc,
      Kind::CloseWhileRetrying { term_only: false },
      Kind::CloseWhileRetrying { term_only: true },
      Kind::CloseWhileRetryingAfterBusEvent { term_only: false, event: BusEvent::OtherSocketCloses },
      Kind::CloseWhileRetryingAfterBusEvent { term_only: true, event: BusEvent::OtherSocketCloses },
      Kind::CloseWhileRetryingAfterBusEvent { term_only: false, event: BusEvent::OtherSocketBinds },
      Kind::CloseWhileRetryingAfterBusEvent { term_only: true, event: BusEvent::OtherSocketBinds },
      Kind::CloseWhileRetryingAfterBusEvent { term_only: false, event: BusEvent::OtherSocketsConnectInproc },
      Kind::CloseWhileRetryingAfterBusEvent { term_only: true, event: BusEvent::OtherSocketsConnectInproc },
      Kind::CloseWhileHandshaking { term_only: false },
      Kind::CloseWhileHandshaking { term_only: true },
      Kind::TermWithBlockedRecv,
      Kind::CloseWhileConnecting { term_only: false },
      Kind::CloseWhileConnecting { term_only: true },
    ] {
      let ivls: Vec<i32> = match (kind, tier) {
        (Kind::CloseWhileRetrying { .. }, Tier::Thorough) => vec![10, 100, 1000],
        (Kind::CloseWhileRetrying { .. }, Tier::Quick) => vec![20],
        (Kind::CloseWhileRetryingAfterBusEvent { .. }, Tier::Thorough) => vec![6000, 15000],
        (Kind::CloseWhileRetryingAfterBusEvent { .. }, Tier::Quick) => vec![6000],
        _ => vec![50],
      };
      if tier == Tier::Quick && pair.0 != SocketType::Push && matches!(kind, Kind::RebindIpc | Kind::RebindTcp { with_peer: false } | Kind::CloseWhileRetryingAfterBusEvent { .. }) {
        continue;
      }
      for reconnect_ivl in ivls {
        v.push(Cell { kind, pair, reconnect_ivl });
      }
    }
  }
  v
}

pub fn real_sub(tier: Tier) -> Sub {
  let mut sub = Sub::new("close-term-real-resources", "E4");
  sub.rule = "case = one real-time execution per (situation x socket pair x RECONNECT_IVL) cell on loopback tcp / ipc; non-trivial = the cell was not skipped; oracle: close() and term() return within 5 s (term's own straggler timeout is 10 s), zero actors registered afterwards, the tcp port / ipc path can be bound again, no connection attempt arrives after term(), a blocked recv() is released; with a connecter waiting out a long retry interval term() returns within 2.5 s".into();
  let list = cells(tier);
  sub.bounds = json!({"cells": list.len()});
  sub.notes.push("a violation in a real-clock cell is reported only if it shows again when the cell is executed a second time; E4 cells are real-clock executions: the matrix is enumerated completely, the schedules inside a cell are not".into());
  par::enumerate(&mut sub, list.len(), |i| par::confirmed(|| {
    let c = list[i];
    let rt = tokio::runtime::Builder::new_multi_thread().worker_threads(2).enable_all().build().expect("runtime");
    let out = rt.block_on(async move { tokio::time::timeout(Duration::from_secs(120), run_cell(c)).await });
    rt.shutdown_timeout(Duration::from_secs(2));
    let wit = json!({"explorer": "e4", "cell": format!("{:?}", c)});
    let class = format!("{:?}:{:?}", c.kind, c.pair.0);
    let mut case = Case { steps: 4, ..Default::default() };
    match out {
      Err(_) => case.violations.push(("scenario-hangs".into(), class, "the scenario did not finish within 120 s".into(), wit)),
      Ok(o) => {
        case.nontrivial = o.skipped.is_none();
        case.outcome = mc_core::digest(&(o.violations.len(), o.skipped.is_some()));
        case.state = mc_core::digest(&format!("{:?}", c));
        for (clause, d) in &o.violations {
          case.violations.push((clause.clone(), class.clone(), d.clone(), wit.clone()));
        }
        case.sample = Some(json!({"cell": format!("{:?}", c), "close_ms": o.close_ms, "term_ms": o.term_ms, "skipped": o.skipped}));
      }
    }
    case
  }));
  sub
}

pub fn replay(w: &serde_json::Value) -> Result<String, String> {
  let c = cells(Tier::Thorough).into_iter().find(|c| w["cell"] == format!("{:?}", c)).ok_or("unknown cell")?;
  let rt = tokio::runtime::Builder::new_multi_thread().worker_threads(2).enable_all().build().expect("runtime");
  let out = rt.block_on(async move { tokio::time::timeout(Duration::from_secs(120), run_cell(c)).await }).map_err(|_| "scenario hangs".to_string())?;
  rt.shutdown_timeout(Duration::from_secs(2));
  if out.violations.is_empty() {
    Ok(format!("no violation: {:?}", out))
  } else {
    Err(format!("{:?}", out))
  }
}
