//! C16 stack-level part (E3): close()/term() injected after every prefix of API-call scripts.

use crate::stack::{self, msg};
use mc_core::par::{self, Case};
use mc_core::world::{self, settle_n, Way};
use mc_core::{Report, Sub, Tier};
use rzmq::socket::options as o;
use rzmq::{Context, Socket, SocketType};
use serde_json::{json, Value};
use std::time::Duration;
use tokio::time::Instant;

#[derive(Clone, Copy, Debug, PartialEq, Eq, Hash)]
enum Ev {
  /// socket 1 binds inproc://c16
  BindInproc,
  /// socket 0 connects to inproc://c16
  ConnectInproc,
  /// ZMTP link between 0 (connector) and 1 (listener); held = handshake stuck half-way
  Link(bool),
  Send(usize),
  /// a task blocked in recv() with RCVTIMEO=-1
  RecvTask(usize),
  /// a task blocked in send() with SNDTIMEO=-1 (no peer or full pipe)
  SendTask(usize),
  SetOpt(usize),
  Monitor(usize),
  DropHandle(usize),
}

#[derive(Clone, Copy, Debug, PartialEq, Eq, Hash)]
enum Inject {
  Close(usize),
  Term,
}

#[derive(Clone, Copy, Debug, PartialEq, Eq, Hash)]
enum Pair {
  PushPull,
  DealerRouter,
  ReqRep,
  PubSub,
}

#[derive(Debug, Default, Clone)]
struct Out {
  inject_ms: u64,
  inject_returned: bool,
  inject_err: Option<String>,
  term_ms: u64,
  term_returned: bool,
  /// API calls after close/term that did not fail promptly
  hanging_calls: Vec<String>,
  succeeded_calls_after_close: Vec<String>,
  rebind_ok: Option<bool>,
  live_actors_after_term: usize,
  blocked_unreleased: usize,
  alive_tasks: usize,
}

fn run_script(pair: Pair, script: &[Ev], inj: Inject) -> world::WorldResult<Out> {
  let script = script.to_vec();
  world::run(1, move || async move {
    let ctx = Context::new().expect("context");
    let (t0, t1) = match pair {
      Pair::PushPull => (SocketType::Push, SocketType::Pull),
      Pair::DealerRouter => (SocketType::Dealer, SocketType::Router),
      Pair::ReqRep => (SocketType::Req, SocketType::Rep),
      Pair::PubSub => (SocketType::Pub, SocketType::Sub),
    };
    let mk = |t: SocketType| {
      let ctx = ctx.clone();
      async move { stack::mk(&ctx, t, &[(o::LINGER, 0), (o::SNDHWM, 1), (o::RCVHWM, 1)]).await }
    };
    let mut socks: Vec<Option<Socket>> = vec![Some(mk(t0).await), Some(mk(t1).await)];
    // keep clones for the post-condition probes even if the script drops the application's handle
    let probes: Vec<Socket> = socks.iter().map(|s| s.clone().unwrap()).collect();
    let mut tasks: Vec<tokio::task::JoinHandle<bool>> = vec![];
    let mut links = vec![];
    let mut bound = false;
    for e in &script {
      match *e {
        Ev::BindInproc => {
          if let Some(s) = &socks[1] {
            bound |= s.bind("inproc://c16").await.is_ok();
          }
        }
        Ev::ConnectInproc => {
          if let Some(s) = &socks[0] {
            let _ = s.connect("inproc://c16").await;
          }
        }
        Ev::Link(held) => {
          if let (Some(a), Some(b)) = (&socks[0], &socks[1]) {
            let l = stack::link_pair(a, b, 256).await;
            if held {
              l.hold_both();
              l.allow(Way::AtoB, 10);
              l.allow(Way::BtoA, 10);
            }
            links.push(l);
          }
        }
        Ev::Send(i) => {
          if let Some(s) = &socks[i] {
            let s = s.clone();
            // bounded: a send that would block is not allowed to hang the script
            let _ = tokio::time::timeout(Duration::from_millis(20), s.send(msg(b"x", false))).await;
          }
        }
        Ev::RecvTask(i) => {
          if let Some(s) = &socks[i] {
            let s = s.clone();
            tasks.push(tokio::spawn(async move {
              // returns true when the call came back (with whatever result)
              let _ = s.recv().await;
              true
            }));
          }
        }
        Ev::SendTask(i) => {
          if let Some(s) = &socks[i] {
            let s = s.clone();
            tasks.push(tokio::spawn(async move {
              for _ in 0..64 {
                if s.send(msg(&[7u8; 600], false)).await.is_err() {
                  break;
                }
              }
              true
            }));
          }
        }
        Ev::SetOpt(i) => {
          if let Some(s) = &socks[i] {
            let _ = s.set_option(o::SNDHWM, 5i32).await;
          }
        }
        Ev::Monitor(i) => {
          if let Some(s) = &socks[i] {
            let _ = s.monitor_default().await;
          }
        }
        Ev::DropHandle(i) => {
          socks[i] = None;
        }
      }
      settle_n(2).await;
    }
    let mut out = Out::default();
    // ---- injection ----
    let t = Instant::now();
    let r = match inj {
      Inject::Close(i) => tokio::time::timeout(Duration::from_secs(60), probes[i].close()).await.map(|r| r.map_err(|e| e.to_string())),
      Inject::Term => tokio::time::timeout(Duration::from_secs(60), ctx.term()).await.map(|r| r.map_err(|e| e.to_string())),
    };
    out.inject_ms = t.elapsed().as_millis() as u64;
    match r {
      Ok(Ok(())) => out.inject_returned = true,
      Ok(Err(e)) => {
        out.inject_returned = true;
        out.inject_err = Some(e);
      }
      Err(_) => out.inject_returned = false,
    }
    settle_n(2).await;
    // ---- post-conditions on the closed socket(s) ----
    let closed: Vec<usize> = match inj {
      Inject::Close(i) => vec![i],
      Inject::Term => vec![0, 1],
    };
    for &i in &closed {
      let s = &probes[i];
      macro_rules! probe {
        ($name:expr, $fut:expr) => {
          match tokio::time::timeout(Duration::from_secs(2), $fut).await {
            Err(_) => out.hanging_calls.push(format!("{}(socket {})", $name, i)),
            Ok(Ok(_)) => out.succeeded_calls_after_close.push(format!("{}(socket {})", $name, i)),
            Ok(Err(_)) => {}
          }
        };
      }
      probe!("send", s.send(msg(b"late", false)));
      probe!("recv", s.recv());
      probe!("send_multipart", s.send_multipart(vec![msg(b"late", false)]));
      probe!("recv_multipart", s.recv_multipart());
      probe!("bind", s.bind("inproc://c16-late"));
      probe!("connect", s.connect("inproc://c16"));
      probe!("set_option", s.set_option(o::SNDHWM, 9i32));
    }
    // a name bound by a closed socket must be free again
    if bound && closed.contains(&1) && matches!(inj, Inject::Close(_)) {
      let fresh = stack::mk(&ctx, t1, &[(o::LINGER, 0)]).await;
      out.rebind_ok = Some(fresh.bind("inproc://c16").await.is_ok());
    }
    // ---- final term: everything must wind down ----
    let t = Instant::now();
    out.term_returned = tokio::time::timeout(Duration::from_secs(60), ctx.term()).await.is_ok();
    out.term_ms = t.elapsed().as_millis() as u64;
    settle_n(2).await;
    out.live_actors_after_term = rzmq::verif::runtime::live_actor_count(&ctx);
    // blocked application calls must have been released
    for h in tasks {
      match tokio::time::timeout(Duration::from_secs(2), h).await {
        Ok(_) => {}
        Err(_) => out.blocked_unreleased += 1,
      }
    }
    // the harness's own tasks and handles go away before the remaining tasks are counted
    for l in &links {
      l.destroy();
    }
    drop(links);
    drop(probes);
    drop(socks);
    settle_n(4).await;
    out.alive_tasks = tokio::runtime::Handle::current().metrics().num_alive_tasks();
    out
  })
}

fn scripts(depth: usize) -> Vec<Vec<Ev>> {
  let alpha = [
    Ev::BindInproc,
    Ev::ConnectInproc,
    Ev::Link(false),
    Ev::Link(true),
    Ev::Send(0),
    Ev::RecvTask(1),
    Ev::RecvTask(0),
    Ev::SendTask(0),
    Ev::SetOpt(0),
    Ev::Monitor(1),
    Ev::DropHandle(0),
    Ev::DropHandle(1),
  ];
  let mut out: Vec<Vec<Ev>> = vec![vec![]];
  let mut level: Vec<Vec<Ev>> = vec![vec![]];
  for _ in 0..depth {
    let mut next = vec![];
    for s in &level {
      for a in alpha {
        // prune: at most one link / bind / connect; nothing on a dropped handle
        let dup = matches!(a, Ev::Link(_)) && s.iter().any(|e| matches!(e, Ev::Link(_))) || (a == Ev::BindInproc && s.contains(&a)) || (a == Ev::ConnectInproc && (s.contains(&a) || !s.contains(&Ev::BindInproc)));
        let on_dropped = match a {
          Ev::Send(i) | Ev::RecvTask(i) | Ev::SendTask(i) | Ev::SetOpt(i) | Ev::Monitor(i) | Ev::DropHandle(i) => s.contains(&Ev::DropHandle(i)),
          Ev::Link(_) => s.iter().any(|e| matches!(e, Ev::DropHandle(_))),
          Ev::BindInproc => s.contains(&Ev::DropHandle(1)),
          Ev::ConnectInproc => s.contains(&Ev::DropHandle(0)),
        };
        if dup || on_dropped {
          continue;
        }
        let mut s2 = s.clone();
        s2.push(a);
        next.push(s2);
      }
    }
    out.extend(next.iter().cloned());
    level = next;
  }
  out
}

fn judge(o: &Out, inj: Inject) -> Vec<(&'static str, String)> {
  let mut v = vec![];
  if !o.inject_returned || o.inject_ms > 5000 {
    v.push(("close-or-term-too-slow", format!("{:?} took {} ms virtual (returned: {})", inj, o.inject_ms, o.inject_returned)));
  }
  if !o.term_returned || o.term_ms > 5000 {
    v.push(("final-term-too-slow", format!("term() took {} ms virtual (returned: {})", o.term_ms, o.term_returned)));
  }
  if !o.hanging_calls.is_empty() {
    v.push(("call-on-closed-socket-hangs", format!("{:?}", o.hanging_calls)));
  }
  if !o.succeeded_calls_after_close.is_empty() {
    v.push(("call-on-closed-socket-succeeds", format!("{:?}", o.succeeded_calls_after_close)));
  }
  if o.rebind_ok == Some(false) {
    v.push(("inproc-name-not-released", "inproc://c16 cannot be bound again after its binder was closed".into()));
  }
  if o.live_actors_after_term != 0 {
    v.push(("actors-alive-after-term", format!("{} actors still registered after term() returned", o.live_actors_after_term)));
  }
  if o.blocked_unreleased > 0 {
    v.push(("blocked-call-not-released", format!("{} application task(s) blocked in send()/recv() were still blocked 2 s virtual after term() returned", o.blocked_unreleased)));
  }
  if o.alive_tasks > o.blocked_unreleased && o.term_returned {
    v.push(("tasks-alive-after-term", format!("{} tokio tasks (beyond the {} blocked application tasks) still alive after term() returned and all handles were dropped", o.alive_tasks - o.blocked_unreleased, o.blocked_unreleased)));
  }
  v
}

pub fn replay(w: &Value) -> Result<String, String> {
  let pair = [Pair::PushPull, Pair::DealerRouter, Pair::ReqRep, Pair::PubSub].into_iter().find(|p| w["pair"] == format!("{:?}", p)).ok_or("unknown pair")?;
  let inj = [Inject::Close(0), Inject::Close(1), Inject::Term].into_iter().find(|p| w["inject"] == format!("{:?}", p)).ok_or("unknown inject")?;
  let script = scripts(6).into_iter().find(|s| w["script"] == format!("{:?}", s)).ok_or("unknown script")?;
  let r = run_script(pair, &script, inj);
  if !r.panics.is_empty() {
    return Err(format!("panics: {:?}", r.panics));
  }
  let o = r.result.ok_or("world did not finish")?;
  let v = judge(&o, inj);
  if v.is_empty() {
    Ok(format!("world completes without violation: {:?}", o))
  } else {
    Err(format!("{:?} -- {:?}", v, o))
  }
}


/// A connection that appears while the context is already terminating (a connecter or listener that
/// finished its work a moment too late): its session subscribes to the event bus after the
/// ContextTerminating broadcast and must still stop at once.
fn late_attach_world(pair: Pair, held: bool, settle_before: usize) -> world::WorldResult<(u64, bool, usize)> {
  world::run(1, move || async move {
    let ctx = Context::new().expect("context");
    let pctx = Context::new().expect("peer context");
    let (t0, t1) = match pair {
      Pair::PushPull => (SocketType::Push, SocketType::Pull),
      Pair::DealerRouter => (SocketType::Dealer, SocketType::Router),
      Pair::ReqRep => (SocketType::Req, SocketType::Rep),
      Pair::PubSub => (SocketType::Pub, SocketType::Sub),
    };
    let a = stack::mk(&ctx, t0, &[(o::LINGER, 0)]).await;
    let b = stack::mk(&pctx, t1, &[(o::LINGER, 0)]).await;
    settle_n(3).await;
    let t = Instant::now();
    let ctx2 = ctx.clone();
    let term = tokio::spawn(async move { ctx2.term().await });
    settle_n(settle_before).await;
    // the late connection
    let l = stack::link_pair(&a, &b, 256).await;
    if held {
      l.hold_both();
    }
    let returned = tokio::time::timeout(Duration::from_secs(60), term).await.is_ok();
    let ms = t.elapsed().as_millis() as u64;
    settle_n(3).await;
    let actors = rzmq::verif::runtime::live_actor_count(&ctx);
    l.destroy();
    drop(a);
    let _ = tokio::time::timeout(Duration::from_secs(30), pctx.term()).await;
    (ms, returned, actors)
  })
}

fn late_attach_sub() -> Sub {
  let mut sub = Sub::new("connection-appears-during-term", "E3");
  sub.rule = "case = one world: term() is started, then (0..3 scheduler rounds later) a new connection is attached to a socket of the terminating context, with a free or a held handshake; oracle: term() returns within 5 s virtual and no actor of the context is registered afterwards".into();
  let mut list = vec![];
  for pair in [Pair::PushPull, Pair::DealerRouter, Pair::ReqRep, Pair::PubSub] {
    for held in [false, true] {
      for k in [0usize, 1, 2, 3] {
        list.push((pair, held, k));
      }
    }
  }
  sub.bounds = json!({"worlds": list.len()});
  par::enumerate(&mut sub, list.len(), |i| {
    let (pair, held, k) = list[i];
    let r = late_attach_world(pair, held, k);
    let wit = json!({"explorer": "e3", "sub": "connection-appears-during-term", "cell": format!("{:?} held={} after={}", pair, held, k)});
    let class = format!("{:?}:{}", pair, if held { "handshake-held" } else { "handshake-free" });
    let mut c = Case { steps: 3, nontrivial: true, ..Default::default() };
    for p in &r.panics {
      c.violations.push(("panic".into(), p.rsplit(" @ ").next().map(mc_core::short_loc).unwrap_or_default(), p.clone(), wit.clone()));
    }
    if let Some((ms, returned, actors)) = r.result {
      c.outcome = mc_core::digest(&(returned, actors, ms > 5000));
      c.state = mc_core::digest(&(i, actors));
      if !returned || ms > 5000 {
        c.violations.push(("close-or-term-too-slow".into(), class.clone(), format!("term() took {} ms virtual (returned: {}) with a connection attached {} rounds after it started", ms, returned, k), wit.clone()));
      }
      if actors != 0 {
        c.violations.push(("actors-alive-after-term".into(), class.clone(), format!("{} actors still registered after term() returned", actors), wit.clone()));
      }
    }
    c
  });
  sub
}

pub fn add_world_subs(rep: &mut Report, tier: Tier) {
  rep.assume("E3: close()/term() are injected at quiescence points after every prefix of the scripts, and while recv()/send() calls are blocked in their own tasks; term/close must return within 5 s virtual (well inside Context::term's hidden 10 s straggler timeout, which would otherwise mask a hang)");
  let depth = tier.pick(3, 6);
  let sc = scripts(depth);
  let mut work = vec![];
  for pair in [Pair::PushPull, Pair::DealerRouter, Pair::ReqRep, Pair::PubSub] {
    for (si, _) in sc.iter().enumerate() {
      for inj in [Inject::Close(0), Inject::Close(1), Inject::Term] {
        work.push((pair, si, inj));
      }
    }
  }
  let mut sub = Sub::new("close-term-injection", "E3");
  sub.rule = "case = one world: two sockets of one context, an API-call script (bind/connect inproc, ZMTP link with free or held handshake, send, blocked recv task, blocked send task, set_option, monitor, handle drop) followed by close(socket) or term(); non-trivial = some connection or blocked call existed at injection time; oracle: the injected call and the final term() return within 5 s virtual without panicking, every later API call on a closed socket fails within 2 s virtual, a closed socket's inproc name can be bound again, the context's actor count is 0 after term and blocked application calls were released".into();
  sub.bounds = json!({"script_depth": depth, "scripts": sc.len(), "worlds": work.len()});
  par::enumerate(&mut sub, work.len(), |i| {
    let (pair, si, inj) = work[i];
    let script = &sc[si];
    let r = run_script(pair, script, inj);
    let wit = json!({"explorer": "e3", "pair": format!("{:?}", pair), "script": format!("{:?}", script), "inject": format!("{:?}", inj)});
    let mut c = Case { steps: script.len() as u64 + 2, ..Default::default() };
    c.nontrivial = script.iter().any(|e| matches!(e, Ev::Link(_) | Ev::ConnectInproc | Ev::RecvTask(_) | Ev::SendTask(_)));
    let class = format!("{:?}:{:?}", pair, inj);
    for p in &r.panics {
      c.violations.push(("panic".into(), format!("{}:{}", p.rsplit(" @ ").next().map(mc_core::short_loc).unwrap_or_default(), class), p.clone(), wit.clone()));
    }
    if let Some(o) = r.result {
      c.outcome = mc_core::digest(&(o.inject_returned, o.term_returned, o.hanging_calls.len(), o.live_actors_after_term));
      c.state = mc_core::digest(&(format!("{:?}{:?}", pair, inj), script.len(), o.inject_ms / 100, o.live_actors_after_term));
      for (clause, d) in judge(&o, inj) {
        c.violations.push((clause.into(), class.clone(), d, wit.clone()));
      }
      if i % 2003 == 0 {
        c.sample = Some(json!({"case": wit, "inject_ms": o.inject_ms, "term_ms": o.term_ms}));
      }
    }
    c
  });
  rep.add(sub);
  rep.add(late_attach_sub());
}
