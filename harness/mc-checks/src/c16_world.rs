//! C16 stack-level part (E3); filled in with the world explorer.
use mc_core::{Report, Tier};

pub fn add_world_subs(_rep: &mut Report, _tier: Tier) {}
