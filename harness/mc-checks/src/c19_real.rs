//! C19, stack-level part (E4): the engine stamps activity with `std::time::Instant`, so the session
//! actor's timer wiring (interval tick -> on_tick, pong-deadline sleep, PONG ahead of queued data)
//! is exercised on the real clock against a scripted raw tcp peer. One execution per cell; margins
//! are generous (hundreds of ms to seconds) and one-sided where machine load could matter.

use crate::stack::{frame, ready, v2_greeting, v3_greeting};
use mc_core::par::{self, Case};
use mc_core::{Sub, Tier};
use rzmq::socket::options as o;
use rzmq::{Context, SocketType};
use serde_json::json;
use std::io::{Read, Write};
use std::time::{Duration, Instant};

#[derive(Clone, Copy, Debug, PartialEq, Eq)]
enum PeerKind {
  /// handshake, then silence: must be PINGed and then dropped
  Silent,
  /// answers every PING with a PONG echoing the context: must stay connected
  AnswersPong,
  /// never answers PINGs but keeps sending data frames: traffic counts as life
  DataNoPong,
  /// a fully live peer that also sends its own PINGs (context of the given length) and expects PONGs with the same context
  SendsPing(usize),
  /// ZMTP/2.0 peer: no heartbeat frame may ever be sent to it
  V2,
  /// heartbeats disabled on the socket (HEARTBEAT_IVL = 0): nothing may be sent, nothing dropped
  Disabled,
}

#[derive(Clone, Copy, Debug)]
struct Cell {
  kind: PeerKind,
  ivl_ms: u64,
  timeout_ms: u64,
}

#[derive(Default, Debug, Clone)]
struct Obs {
  first_ping_ms: Option<u64>,
  pings: usize,
  pongs_ok: usize,
  pongs_bad: usize,
  closed_at_ms: Option<u64>,
  heartbeat_frames_to_v2: usize,
  skipped: Option<String>,
}

/// minimal incremental ZMTP/3 frame splitter for what the socket sends us
fn split_frames(buf: &mut Vec<u8>) -> Vec<(u8, Vec<u8>)> {
  let mut out = vec![];
  loop {
    if buf.len() < 2 {
      break;
    }
    let flags = buf[0];
    let (hdr, len) = if flags & 0x02 != 0 {
      if buf.len() < 9 {
        break;
      }
      (9usize, u64::from_be_bytes(buf[1..9].try_into().unwrap()) as usize)
    } else {
      (2usize, buf[1] as usize)
    };
    if buf.len() < hdr + len {
      break;
    }
    out.push((flags, buf[hdr..hdr + len].to_vec()));
    buf.drain(..hdr + len);
  }
  out
}

async fn run_cell(c: Cell) -> Obs {
  let mut obs = Obs::default();
  let ctx = match Context::new() {
    Ok(c) => c,
    Err(e) => {
      obs.skipped = Some(e.to_string());
      return obs;
    }
  };
  // DEALER: it can be written to and read from, so data traffic and PONG ordering can be observed
  let x = ctx.socket(SocketType::Dealer).expect("socket");
  let (ivl, to) = if c.kind == PeerKind::Disabled { (0, 0) } else { (c.ivl_ms as i32, c.timeout_ms as i32) };
  for (k, v) in [(o::HEARTBEAT_IVL, ivl), (o::HEARTBEAT_TIMEOUT, to), (o::LINGER, 0), (o::RCVTIMEO, 100), (o::SNDTIMEO, 100), (o::RECONNECT_IVL, 0)] {
    if x.set_option(k, v).await.is_err() {
      obs.skipped = Some(format!("option {} refused", k));
      return obs;
    }
  }
  if x.bind("tcp://127.0.0.1:0").await.is_err() {
    obs.skipped = Some("bind failed".into());
    return obs;
  }
  let ep = String::from_utf8(x.get_option(o::LAST_ENDPOINT).await.unwrap()).unwrap();
  let addr = ep.trim_start_matches("tcp://").to_string();
  let horizon = Duration::from_millis(3 * (c.ivl_ms + c.timeout_ms) + 2500);
  let kind = c.kind;
  let raw = std::thread::spawn(move || -> Obs {
    let mut o = Obs::default();
    let Ok(mut s) = std::net::TcpStream::connect(&addr) else {
      o.skipped = Some("raw connect failed".into());
      return o;
    };
    s.set_nodelay(true).ok();
    s.set_read_timeout(Some(Duration::from_millis(20))).ok();
    let hs: Vec<u8> = if kind == PeerKind::V2 {
      v2_greeting(5, b"") // DEALER
    } else {
      let mut b = v3_greeting("NULL", false);
      b.extend_from_slice(&ready("DEALER", None));
      b
    };
    let _ = s.write_all(&hs);
    let t0 = Instant::now();
    let mut inbuf: Vec<u8> = vec![];
    let mut skipped_greeting = false;
    let mut last_data = Instant::now();
    let mut last_ping = Instant::now();
    let mut ping_no = 0u8;
    let mut rd = [0u8; 4096];
    while t0.elapsed() < horizon {
      match s.read(&mut rd) {
        Ok(0) => {
          o.closed_at_ms = Some(t0.elapsed().as_millis() as u64);
          break;
        }
        Ok(n) => inbuf.extend_from_slice(&rd[..n]),
        Err(e) if e.kind() == std::io::ErrorKind::WouldBlock || e.kind() == std::io::ErrorKind::TimedOut => {}
        Err(_) => {
          o.closed_at_ms = Some(t0.elapsed().as_millis() as u64);
          break;
        }
      }
      if kind == PeerKind::V2 {
        // anything that looks like a ZMTP/3 command carrying PING/PONG is a violation
        if inbuf.windows(4).any(|w| w == b"PING" || w == b"PONG") {
          o.heartbeat_frames_to_v2 += 1;
        }
        continue;
      }
      if !skipped_greeting {
        if inbuf.len() < 64 {
          continue;
        }
        inbuf.drain(..64);
        skipped_greeting = true;
      }
      for (flags, body) in split_frames(&mut inbuf) {
        if flags & 0x04 != 0 && body.starts_with(b"\x04PING") {
          o.pings += 1;
          if o.first_ping_ms.is_none() {
            o.first_ping_ms = Some(t0.elapsed().as_millis() as u64);
          }
          if matches!(kind, PeerKind::AnswersPong | PeerKind::SendsPing(_)) {
            // PING body: name, 2-byte TTL, context
            let ctxb = body.get(7..).unwrap_or(&[]).to_vec();
            let mut pong = b"\x04PONG".to_vec();
            pong.extend_from_slice(&ctxb);
            let _ = s.write_all(&frame(0x04, &pong));
          }
        } else if flags & 0x04 != 0 && body.starts_with(b"\x04PONG") {
          let want = vec![ping_no; match kind { PeerKind::SendsPing(n) => n, _ => 0 }];
          if body[5..] == want[..] {
            o.pongs_ok += 1;
          } else {
            o.pongs_bad += 1;
          }
        }
      }
      match kind {
        PeerKind::DataNoPong => {
          if last_data.elapsed() >= Duration::from_millis(40) {
            last_data = Instant::now();
            let _ = s.write_all(&frame(0x00, b"tick"));
          }
        }
        PeerKind::SendsPing(n) => {
          if last_ping.elapsed() >= Duration::from_millis(150) && o.pongs_ok + o.pongs_bad >= ping_no as usize {
            last_ping = Instant::now();
            ping_no = ping_no.wrapping_add(1);
            let mut ping = b"\x04PING".to_vec();
            ping.extend_from_slice(&[0, 50]);
            ping.extend_from_slice(&vec![ping_no; n]);
            let _ = s.write_all(&frame(0x04, &ping));
          }
        }
        _ => {}
      }
    }
    o
  });
  // the application keeps the socket's receive side drained
  let t_app = Instant::now();
  while t_app.elapsed() < horizon + Duration::from_millis(200) && !raw.is_finished() {
    let _ = x.recv_multipart().await;
  }
  let o = tokio::task::spawn_blocking(move || raw.join().unwrap_or_default()).await.unwrap_or_default();
  let _ = tokio::time::timeout(Duration::from_secs(12), ctx.term()).await;
  o
}

fn cells(tier: Tier) -> Vec<Cell> {
  let mut v = vec![];
  let pairs: Vec<(u64, u64)> = tier.pick(vec![(100, 300), (300, 100)], vec![(100, 300), (300, 100), (100, 100), (500, 1500)]);
  for (ivl_ms, timeout_ms) in pairs {
    for kind in [PeerKind::Silent, PeerKind::AnswersPong, PeerKind::DataNoPong, PeerKind::SendsPing(0), PeerKind::SendsPing(16), PeerKind::V2, PeerKind::Disabled] {
      v.push(Cell { kind, ivl_ms, timeout_ms });
    }
  }
  v
}

pub fn stack_sub(tier: Tier) -> Sub {
  let mut sub = Sub::new("session-timers-real-clock", "E4");
  sub.rule = "case = one real-time execution per (peer behaviour x HEARTBEAT_IVL x HEARTBEAT_TIMEOUT) cell: a DEALER socket on loopback tcp against a scripted raw peer, observed for 3 x (IVL + TIMEOUT) + 2.5 s; oracle: silent peer -> first PING no sooner than IVL - 20 ms and no later than 2 x IVL + 1 s, connection closed no later than first PING + TIMEOUT + IVL + 1.5 s and not before first PING + TIMEOUT - 20 ms; peer answering PONGs / sending data -> never closed; peer PINGs -> one PONG each with the same context; ZMTP/2.0 peer and IVL=0 -> no heartbeat frames, no disconnect".into();
  let list = cells(tier);
  sub.bounds = json!({"cells": list.len()});
  sub.notes.push("a violation in a real-clock cell is reported only if it shows again when the cell is executed a second time; E4 cells are real-clock executions: the matrix is enumerated completely, the schedules inside a cell are not".into());
  par::enumerate(&mut sub, list.len(), |i| par::confirmed(|| {
    let c = list[i];
    let rt = tokio::runtime::Builder::new_multi_thread().worker_threads(2).enable_all().build().expect("runtime");
    let r = rt.block_on(async move { tokio::time::timeout(Duration::from_secs(60), run_cell(c)).await });
    rt.shutdown_timeout(Duration::from_secs(2));
    let wit = json!({"explorer": "e4", "cell": format!("{:?}", c)});
    let kind_name = match c.kind {
      PeerKind::SendsPing(n) => format!("SendsPing{}", n),
      k => format!("{:?}", k),
    };
    let class = format!("{}:ivl{}:to{}", kind_name, c.ivl_ms, c.timeout_ms);
    let mut case = Case { steps: 3, nontrivial: true, ..Default::default() };
    match r {
      Err(_) => case.violations.push(("scenario-hangs".into(), class, "did not finish within 60 s".into(), wit)),
      Ok(o) => {
        if o.skipped.is_some() {
          case.nontrivial = false;
          case.sample = Some(json!({"skipped": o.skipped}));
          return case;
        }
        case.outcome = mc_core::digest(&(o.first_ping_ms.is_some(), o.closed_at_ms.is_some(), o.pongs_ok > 0));
        case.state = mc_core::digest(&format!("{:?}", c));
        let mut bad = |clause: &str, d: String| case.violations.push((clause.into(), class.clone(), d, wit.clone()));
        match c.kind {
          PeerKind::Silent => {
            match o.first_ping_ms {
              None => bad("no-ping-sent", format!("no PING within {} ms of silence (HEARTBEAT_IVL={} ms)", 3 * (c.ivl_ms + c.timeout_ms) + 2500, c.ivl_ms)),
              Some(t) => {
                if t + 20 < c.ivl_ms {
                  bad("ping-too-early", format!("first PING after {} ms, HEARTBEAT_IVL={} ms", t, c.ivl_ms));
                }
                if t > 2 * c.ivl_ms + 1000 {
                  bad("ping-too-late", format!("first PING after {} ms, HEARTBEAT_IVL={} ms", t, c.ivl_ms));
                }
                match o.closed_at_ms {
                  None => bad("dead-peer-not-dropped", format!("silent peer still connected {} ms after the first PING (HEARTBEAT_TIMEOUT={} ms, {} PINGs seen)", 3 * (c.ivl_ms + c.timeout_ms) + 2500 - t, c.timeout_ms, o.pings)),
                  Some(cl) => {
                    if cl > t + c.timeout_ms + c.ivl_ms + 1500 {
                      bad("dead-peer-dropped-late", format!("closed {} ms after the first PING, HEARTBEAT_TIMEOUT={} ms", cl - t, c.timeout_ms));
                    }
                    if cl + 20 < t + c.timeout_ms {
                      bad("peer-dropped-before-timeout", format!("closed {} ms after the first PING, HEARTBEAT_TIMEOUT={} ms", cl.saturating_sub(t), c.timeout_ms));
                    }
                  }
                }
              }
            }
          }
          PeerKind::AnswersPong | PeerKind::DataNoPong => {
            if let Some(cl) = o.closed_at_ms {
              bad("live-peer-disconnected", format!("{:?} peer was disconnected after {} ms ({} PINGs seen)", c.kind, cl, o.pings));
            }
          }
          PeerKind::SendsPing(_) => {
            if o.pongs_bad > 0 {
              bad("pong-context-differs", format!("{} PONGs with a context different from the PING's", o.pongs_bad));
            }
            if o.pongs_ok == 0 {
              bad("ping-not-answered", "no PONG received for the peer's PINGs".into());
            }
            if let Some(cl) = o.closed_at_ms {
              bad("live-peer-disconnected", format!("a peer that PINGs and is PINGed... was disconnected after {} ms", cl));
            }
          }
          PeerKind::V2 => {
            if o.heartbeat_frames_to_v2 > 0 {
              bad("heartbeat-on-zmtp2-session", "PING/PONG bytes were sent to a ZMTP/2.0 peer".into());
            }
            if let Some(cl) = o.closed_at_ms {
              bad("live-peer-disconnected", format!("ZMTP/2.0 peer disconnected after {} ms", cl));
            }
          }
          PeerKind::Disabled => {
            if o.pings > 0 {
              bad("ping-while-disabled", format!("{} PINGs with HEARTBEAT_IVL=0", o.pings));
            }
            if let Some(cl) = o.closed_at_ms {
              bad("live-peer-disconnected", format!("disconnected after {} ms with heartbeats disabled", cl));
            }
          }
        }
        case.sample = Some(json!({"cell": format!("{:?}", c), "first_ping_ms": o.first_ping_ms, "pings": o.pings, "pongs_ok": o.pongs_ok, "closed_at_ms": o.closed_at_ms}));
      }
    }
    case
  }));
  sub
}
