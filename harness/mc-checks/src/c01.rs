//! C01 — while connected: every accepted message arrives exactly once, in order, intact.
//!
//! E3: the whole rzmq stack (socket core, pattern, session actor, engine, egress/ingress buffers) on a
//! deterministic paused-clock world, over the ZMTP session path (in-memory duplex streams attached
//! through the tcp/ipc post-accept/connect code path, behind a harness-owned byte link) and over
//! inproc. Exhaustive enumeration of size tuples x options x pacing x first-send moment.

use crate::common::payload;
use crate::stack::{self, msg};
use mc_core::par::{self, Case};
use mc_core::world::{self, settle, settle_n, Way};
use mc_core::{Report, Sub, Tier};
use rzmq::socket::options as o;
use rzmq::{Context, Msg, Socket, SocketType};
use serde_json::{json, Value};
use std::sync::Arc;

#[derive(Clone, Copy, Debug, PartialEq, Eq)]
pub enum Pair {
  PushPull,
  DealerRouter,
  RouterDealer,
  ReqRep,
  DealerRep,
}

#[derive(Clone, Copy, Debug, PartialEq, Eq)]
pub enum Transport {
  /// ZMTP session over duplex streams of the given buffer size (64 forces partial writes)
  Duplex(usize),
  Inproc,
}

#[derive(Clone, Copy, Debug, PartialEq, Eq)]
pub enum Pacing {
  /// receiver task runs from the start
  Eager,
  /// receiver starts only after every send was accepted or is blocked
  AfterSends,
  /// receiver settles between any two recv calls
  Slow,
}

#[derive(Clone, Copy, Debug, PartialEq, Eq)]
pub enum FirstSend {
  /// sends are issued while the link holds the handshake half-way (nothing delivered yet)
  MidHandshake,
  /// sends are issued after the handshake completed
  AfterHandshake,
  /// sends are issued before connect()/attach (the sender waits for a first peer)
  BeforeConnect,
}

#[derive(Clone, Debug)]
pub struct Scenario {
  pub pair: Pair,
  pub transport: Transport,
  pub sndhwm: i32,
  pub rcvhwm: i32,
  pub sndbatch_count: i32,
  pub sndbatch_bytes: i32,
  pub rcvbatch_count: i32,
  pub throttle: bool,
  pub sndtimeo: i32,
  pub pacing: Pacing,
  pub first: FirstSend,
  /// one entry per message: frame sizes
  pub msgs: Vec<Vec<usize>>,
}

impl Scenario {
  pub fn describe(&self) -> Value {
    json!({"pair": format!("{:?}", self.pair), "transport": format!("{:?}", self.transport), "sndhwm": self.sndhwm, "rcvhwm": self.rcvhwm,
      "sndbatch_count": self.sndbatch_count, "sndbatch_bytes": self.sndbatch_bytes, "rcvbatch_count": self.rcvbatch_count, "throttle": self.throttle,
      "sndtimeo": self.sndtimeo, "pacing": format!("{:?}", self.pacing), "first_send": format!("{:?}", self.first), "msgs": self.msgs})
  }
}

pub type Frames = Vec<Vec<u8>>;

#[derive(Debug, Default, Clone, PartialEq, Eq)]
pub struct Outcome {
  /// messages whose send returned Ok, in send order
  pub accepted: Vec<Frames>,
  pub refused: usize,
  /// messages received (normalised: routing envelope removed), in receive order
  pub received: Vec<Frames>,
  /// for request/reply pairs: replies accepted / received at the requester
  pub replies_sent: Vec<Frames>,
  pub replies_received: Vec<Frames>,
  pub send_errors: Vec<String>,
}

fn frames_of(seq: usize, sizes: &[usize]) -> Frames {
  sizes.iter().enumerate().map(|(i, l)| payload((seq * 8 + i) as u32 + 1, *l)).collect()
}

fn to_msgs(f: &Frames) -> Vec<Msg> {
  let n = f.len();
  f.iter().enumerate().map(|(i, d)| msg(d, i + 1 < n)).collect()
}

async fn send_one(s: &Socket, f: &Frames, prefix: Option<&[u8]>) -> Result<(), rzmq::ZmqError> {
  if f.len() == 1 && prefix.is_none() {
    s.send(msg(&f[0], false)).await
  } else {
    let mut v = vec![];
    if let Some(p) = prefix {
      v.push(msg(p, true));
    }
    v.extend(to_msgs(f));
    s.send_multipart(v).await
  }
}

fn opts(sc: &Scenario, extra: &[(i32, i32)]) -> Vec<(i32, i32)> {
  let mut v = vec![
    (o::SNDHWM, sc.sndhwm),
    (o::RCVHWM, sc.rcvhwm),
    (o::SNDBATCH_COUNT, sc.sndbatch_count),
    (o::SNDBATCH_BYTES, sc.sndbatch_bytes),
    (o::RCVBATCH_COUNT, sc.rcvbatch_count),
    (o::ADAPTIVE_THROTTLE, sc.throttle as i32),
    (o::LINGER, 0),
  ];
  v.extend_from_slice(extra);
  v
}

/// One world. Returns what was accepted and what arrived.
pub fn run_scenario(sc: &Scenario, seed: u64) -> world::WorldResult<Outcome> {
  let sc = sc.clone();
  world::run(seed, move || async move {
    let ctx = Context::new().expect("context");
    let (ta, tb) = match sc.pair {
      Pair::PushPull => (SocketType::Push, SocketType::Pull),
      Pair::DealerRouter => (SocketType::Dealer, SocketType::Router),
      Pair::RouterDealer => (SocketType::Router, SocketType::Dealer),
      Pair::ReqRep => (SocketType::Req, SocketType::Rep),
      Pair::DealerRep => (SocketType::Dealer, SocketType::Rep),
    };
    // a = sending side (connector), b = receiving side (listener)
    let a = stack::mk(&ctx, ta, &opts(&sc, &[(o::SNDTIMEO, sc.sndtimeo)])).await;
    let b = stack::mk(&ctx, tb, &opts(&sc, &[(o::RCVTIMEO, 200)])).await;
    if sc.pair == Pair::RouterDealer {
      a.set_option(o::ROUTER_MANDATORY, 1i32).await.expect("mandatory");
      b.set_option(o::ROUTING_ID, &b"peer-b"[..]).await.expect("routing id");
    }
    if matches!(sc.pair, Pair::ReqRep | Pair::DealerRep) {
      a.set_option(o::RCVTIMEO, 200i32).await.expect("rcvtimeo");
    }
    let a = Arc::new(a);
    let b = Arc::new(b);
    let all: Vec<Frames> = sc.msgs.iter().enumerate().map(|(i, s)| frames_of(i, s)).collect();

    // ---- sender task ----
    let prefix: Option<Vec<u8>> = if sc.pair == Pair::RouterDealer { Some(b"peer-b".to_vec()) } else { None };
    // progress is shared so that a sender that never returns still reports what it got accepted
    let progress: Arc<parking_lot::Mutex<Outcome>> = Arc::new(parking_lot::Mutex::new(Outcome::default()));
    let sender = {
      let (a, all, pair) = (a.clone(), all.clone(), sc.pair);
      let prefix = prefix.clone();
      let progress = progress.clone();
      move || async move {
        for f in &all {
          match send_one(&a, f, prefix.as_deref()).await {
            Ok(()) => progress.lock().accepted.push(f.clone()),
            Err(e) => {
              let mut p = progress.lock();
              p.refused += 1;
              p.send_errors.push(e.to_string());
            }
          }
          if matches!(pair, Pair::ReqRep | Pair::DealerRep) {
            // request/reply: wait for the reply before the next request
            match a.recv_multipart().await {
              Ok(r) => progress.lock().replies_received.push(r.iter().map(|m| m.data().unwrap_or(&[]).to_vec()).collect()),
              Err(e) => progress.lock().send_errors.push(format!("reply recv: {}", e)),
            }
          }
        }
      }
    };
    // ---- receiver ----
    let receiver = {
      let (b, pair, pacing, n) = (b.clone(), sc.pair, sc.pacing, all.len());
      move || async move {
        let mut got: Vec<Frames> = vec![];
        let mut replies: Vec<Frames> = vec![];
        let mut idle = 0;
        while got.len() < n + 2 && idle < 2 {
          match b.recv_multipart().await {
            Ok(fr) => {
              idle = 0;
              let mut fs: Frames = fr.iter().map(|m| m.data().unwrap_or(&[]).to_vec()).collect();
              if pair == Pair::DealerRouter && !fs.is_empty() {
                fs.remove(0); // identity envelope added by ROUTER
              }
              if matches!(pair, Pair::ReqRep | Pair::DealerRep) {
                // reply with the request reversed so both directions are checked
                let mut rep: Frames = fs.clone();
                for f in rep.iter_mut() {
                  f.reverse();
                }
                let rep1: Frames = vec![rep.concat()];
                if b.send(msg(&rep1[0], false)).await.is_ok() {
                  replies.push(rep1);
                }
              }
              got.push(fs);
            }
            Err(_) => idle += 1,
          }
          if pacing == Pacing::Slow {
            settle().await;
          }
        }
        (got, replies)
      }
    };

    let mut link = None;
    let connect = |a: Arc<Socket>, b: Arc<Socket>, held: bool| async move {
      match sc.transport {
        Transport::Duplex(buf) => {
          let l = stack::link_pair(&a, &b, buf).await;
          if held {
            // let only the two 10-byte signatures through: the handshake is stuck half-way
            l.hold_both();
            l.allow(Way::AtoB, 10);
            l.allow(Way::BtoA, 10);
          }
          Some(l)
        }
        Transport::Inproc => {
          b.bind("inproc://c01").await.expect("bind inproc");
          a.connect("inproc://c01").await.expect("connect inproc");
          None
        }
      }
    };

    let sender_handle;
    match sc.first {
      FirstSend::BeforeConnect => {
        sender_handle = tokio::spawn(sender());
        settle_n(2).await;
        link = connect(a.clone(), b.clone(), false).await;
      }
      FirstSend::MidHandshake => {
        link = connect(a.clone(), b.clone(), true).await;
        settle_n(2).await;
        sender_handle = tokio::spawn(sender());
        settle_n(2).await;
      }
      FirstSend::AfterHandshake => {
        link = connect(a.clone(), b.clone(), false).await;
        settle_n(3).await;
        sender_handle = tokio::spawn(sender());
      }
    }
    let mut receiver = Some(receiver);
    let recv_handle = match sc.pacing {
      Pacing::Eager | Pacing::Slow => Some(tokio::spawn((receiver.take().unwrap())())),
      Pacing::AfterSends => None,
    };
    if sc.first == FirstSend::MidHandshake {
      if let Some(l) = &link {
        l.release_both();
      }
    }
    let recv_handle = match recv_handle {
      Some(h) => h,
      None => {
        // wait until the sender is done or blocked
        settle_n(4).await;
        tokio::spawn((receiver.take().unwrap())())
      }
    };
    // bounded virtual wait for both
    let sender_state = match tokio::time::timeout(std::time::Duration::from_secs(120), sender_handle).await {
      Ok(Ok(())) => None,
      Ok(Err(_)) => Some("sender task panicked"),
      Err(_) => Some("sender still blocked after 120 s virtual"),
    };
    let mut out = progress.lock().clone();
    if let Some(s) = sender_state {
      out.send_errors.push(s.to_string());
    }
    match tokio::time::timeout(std::time::Duration::from_secs(120), recv_handle).await {
      Ok(Ok((got, replies))) => {
        out.received = got;
        out.replies_sent = replies;
      }
      _ => out.send_errors.push("receiver did not finish".into()),
    }
    drop(link);
    let _ = tokio::time::timeout(std::time::Duration::from_secs(30), ctx.term()).await;
    out
  })
}

/// Oracle. Returns (clause, class, detail).
pub fn judge(sc: &Scenario, out: &Outcome) -> Vec<(String, String, String)> {
  let mut v = vec![];
  let class = format!(
    "{:?}:{}:{:?}:hwm{}:sndtimeo{}",
    sc.pair,
    match sc.transport {
      Transport::Duplex(_) => "zmtp",
      Transport::Inproc => "inproc",
    },
    sc.first,
    if sc.sndhwm <= 2 { "-small" } else { "-large" },
    sc.sndtimeo
  );
  let sizes = |m: &Vec<Frames>| -> Vec<Vec<usize>> { m.iter().map(|f| f.iter().map(|x| x.len()).collect()).collect() };
  if sc.sndtimeo < 0 && out.refused > 0 {
    v.push(("blocking-send-failed".into(), class.clone(), format!("SNDTIMEO=-1 but {} sends failed: {:?}", out.refused, out.send_errors)));
  }
  if out.send_errors.iter().any(|e| e.contains("still blocked") || e.contains("panicked") || e.contains("did not finish")) {
    v.push(("stuck".into(), class.clone(), format!("{:?}", out.send_errors)));
  }
  if out.received != out.accepted {
    // classify: lost / duplicated / reordered / corrupted
    let mut clause = "corrupted";
    if out.received.len() < out.accepted.len() && is_subsequence(&out.received, &out.accepted) {
      clause = "lost";
    } else if out.received.len() > out.accepted.len() {
      clause = "duplicated-or-phantom";
    } else {
      let mut a = out.accepted.clone();
      let mut r = out.received.clone();
      a.sort();
      r.sort();
      if a == r {
        clause = "reordered";
      }
    }
    v.push((
      format!("accepted-message-{}", clause),
      class.clone(),
      format!("accepted {} messages (frame sizes {:?}), received {} (frame sizes {:?})", out.accepted.len(), sizes(&out.accepted), out.received.len(), sizes(&out.received)),
    ));
  }
  if matches!(sc.pair, Pair::ReqRep | Pair::DealerRep) && out.replies_received != out.replies_sent {
    v.push(("reply-mismatch".into(), class, format!("replies sent {:?} received {:?}", sizes(&out.replies_sent), sizes(&out.replies_received))));
  }
  v
}

fn is_subsequence(small: &[Frames], big: &[Frames]) -> bool {
  let mut i = 0;
  for x in big {
    if i < small.len() && &small[i] == x {
      i += 1;
    }
  }
  i == small.len()
}

fn tuples(alphabet: &[usize], max_len: usize) -> Vec<Vec<usize>> {
  let mut out: Vec<Vec<usize>> = vec![];
  let mut level: Vec<Vec<usize>> = vec![vec![]];
  for _ in 0..max_len {
    let mut next = vec![];
    for t in &level {
      for a in alphabet {
        let mut t2 = t.clone();
        t2.push(*a);
        next.push(t2);
      }
    }
    out.extend(next.iter().cloned());
    level = next;
  }
  out
}

fn base(pair: Pair, transport: Transport) -> Scenario {
  Scenario { pair, transport, sndhwm: 256, rcvhwm: 256, sndbatch_count: 128, sndbatch_bytes: 1000, rcvbatch_count: 128, throttle: true, sndtimeo: -1, pacing: Pacing::Eager, first: FirstSend::AfterHandshake, msgs: vec![] }
}

pub fn scenarios(tier: Tier) -> Vec<(String, Vec<Scenario>)> {
  let mut groups = vec![];
  // (1) batching: size tuples crossing the count limit, the logical byte limit (1000) and the
  //     physical byte limit (4096 for SNDBATCH_BYTES=1000), all queued before the session wakes
  let mut g = vec![];
  let alpha = [1usize, 300, 900, 3000, 5000];
  for t in tuples(&alpha, tier.pick(5, 8)) {
    if t.len() < 2 {
      continue;
    }
    for count in [128, 2] {
      for first in [FirstSend::MidHandshake, FirstSend::AfterHandshake] {
        if tier == Tier::Quick && (t.len() == 5 && (count == 2 || first == FirstSend::AfterHandshake)) {
          continue;
        }
        let mut s = base(Pair::PushPull, Transport::Duplex(1 << 16));
        s.sndbatch_count = count;
        s.first = first;
        s.msgs = t.iter().map(|x| vec![*x]).collect();
        g.push(s);
      }
    }
  }
  groups.push(("batching".to_string(), g));
  // (2) back-pressure: tiny HWMs, tiny link buffer (partial writes), all pacings, SNDTIMEO -1 / 0
  let mut g = vec![];
  let alpha = [0usize, 1, 300, 1300];
  for t in tuples(&alpha, tier.pick(3, 6)) {
    for hwm in [1, 2] {
      for buf in [64usize, 1 << 16] {
        for pacing in [Pacing::Eager, Pacing::AfterSends, Pacing::Slow] {
          for sndtimeo in [-1, 0] {
            for first in [FirstSend::AfterHandshake, FirstSend::MidHandshake, FirstSend::BeforeConnect] {
              if sndtimeo == 0 && first == FirstSend::BeforeConnect {
                continue; // nothing to accept without a peer
              }
              if tier == Tier::Quick && t.len() == 3 && (buf == 1 << 16 || first == FirstSend::BeforeConnect) {
                continue;
              }
              let mut s = base(Pair::PushPull, Transport::Duplex(buf));
              s.sndhwm = hwm;
              s.rcvhwm = hwm;
              s.rcvbatch_count = if hwm == 1 { 1 } else { 128 };
              s.pacing = pacing;
              s.sndtimeo = sndtimeo;
              s.first = first;
              s.msgs = t.iter().map(|x| vec![*x]).collect();
              g.push(s);
            }
          }
        }
      }
    }
  }
  groups.push(("backpressure".to_string(), g));
  // (3) other pairs and inproc, multipart shapes
  let mut g = vec![];
  let shapes: Vec<Vec<usize>> = vec![vec![1], vec![300], vec![0, 5], vec![5, 0, 300], vec![1300]];
  let mut seqs: Vec<Vec<Vec<usize>>> = vec![];
  for a in &shapes {
    seqs.push(vec![a.clone()]);
    for b in &shapes {
      seqs.push(vec![a.clone(), b.clone()]);
      if tier == Tier::Thorough {
        for c in &shapes {
          seqs.push(vec![a.clone(), b.clone(), c.clone()]);
        }
      }
    }
  }
  for pair in [Pair::PushPull, Pair::DealerRouter, Pair::RouterDealer, Pair::ReqRep, Pair::DealerRep] {
    for transport in [Transport::Duplex(1 << 16), Transport::Duplex(64), Transport::Inproc] {
      for m in &seqs {
        if matches!(pair, Pair::ReqRep) && m.iter().any(|s| s.len() != 1) {
          continue; // REQ sends single-frame requests
        }
        if pair == Pair::DealerRep && transport == Transport::Inproc {
          continue; // inproc refuses DEALER-REP (recorded under C05 as a known finding)
        }
        for hwm in [256, 1] {
          for first in [FirstSend::AfterHandshake, FirstSend::MidHandshake, FirstSend::BeforeConnect] {
            if (pair == Pair::RouterDealer || transport == Transport::Inproc) && first == FirstSend::MidHandshake {
              continue; // a ROUTER can only address a peer it knows; inproc has no handshake to hold
            }
            if first == FirstSend::BeforeConnect && !matches!(pair, Pair::DealerRouter | Pair::PushPull) {
              continue; // REQ/ROUTER cannot send without a peer; DEALER queues, PUSH waits
            }
            let mut s = base(pair, transport);
            s.sndhwm = hwm;
            s.rcvhwm = hwm;
            s.first = first;
            s.msgs = m.clone();
            g.push(s);
          }
        }
      }
    }
  }
  groups.push(("pairs-transports-multipart".to_string(), g));
  // (3b) DEALER accepts messages before any peer exists (its own pending queue): 1..5 messages queued
  //      before connect, then more sent after the connection is up
  let mut g = vec![];
  for n in 1..=tier.pick(5, 7) {
    for transport in [Transport::Duplex(1 << 16), Transport::Inproc] {
      for hwm in [256, 2] {
        for sndtimeo in [-1, 0] {
          for pacing in [Pacing::Eager, Pacing::AfterSends] {
            let mut s = base(Pair::DealerRouter, transport);
            s.first = FirstSend::BeforeConnect;
            s.sndhwm = hwm;
            s.rcvhwm = hwm.max(8);
            s.sndtimeo = sndtimeo;
            s.pacing = pacing;
            s.msgs = (0..n).map(|i| vec![1 + i]).collect();
            g.push(s);
          }
        }
      }
    }
  }
  // ... and with a backlog far larger than the peer's queue (RCVHWM=1): the pending queue has to be
  // forwarded against a full peer, repeatedly
  for n in [12usize, 30] {
    for transport in [Transport::Duplex(1 << 16), Transport::Duplex(64), Transport::Inproc] {
      for sndtimeo in [-1, 0] {
        for pacing in [Pacing::Eager, Pacing::AfterSends] {
          let mut s = base(Pair::DealerRouter, transport);
          s.first = FirstSend::BeforeConnect;
          s.sndhwm = 256;
          s.rcvhwm = 1;
          s.sndtimeo = sndtimeo;
          s.pacing = pacing;
          s.msgs = (0..n).map(|i| vec![1 + (i % 7)]).collect();
          g.push(s);
        }
      }
    }
  }
  groups.push(("dealer-queue-before-connect".to_string(), g));
  // (4) default limits with large messages (100 KiB .. 1 MiB)
  let mut g = vec![];
  let alpha = [1usize, 100 << 10, 300 << 10, 1 << 20];
  for t in tuples(&alpha, tier.pick(2, 3)) {
    for throttle in [true, false] {
      for transport in [Transport::Duplex(1 << 16), Transport::Inproc] {
        let mut s = base(Pair::PushPull, transport);
        s.sndbatch_bytes = 256 * 1024;
        s.throttle = throttle;
        s.first = if transport == Transport::Inproc { FirstSend::AfterHandshake } else { FirstSend::MidHandshake };
        s.msgs = t.iter().map(|x| vec![*x]).collect();
        g.push(s);
      }
    }
  }
  groups.push(("default-limits-large".to_string(), g));
  groups
}


// ------------------------------------------------------------------------------------------------
// the sender goes away before the receiving application reads
// ------------------------------------------------------------------------------------------------

#[derive(Clone, Copy, Debug)]
struct Gone {
  pair: Pair,
  inproc: bool,
  n: usize,
  size: usize,
  /// how the sender leaves: close() with LINGER=-1, or its whole context terminates
  term: bool,
  /// the receiver reads k messages before the sender leaves, the rest afterwards
  read_before: usize,
}

fn gone_world(c: Gone) -> world::WorldResult<(usize, Vec<Frames>, Vec<Frames>)> {
  world::run(1, move || async move {
    let sctx = Context::new().expect("sender context");
    let rctx = Context::new().expect("receiver context");
    let (ta, tb) = match c.pair {
      Pair::PushPull => (SocketType::Push, SocketType::Pull),
      _ => (SocketType::Dealer, SocketType::Router),
    };
    let bctx = if c.inproc { &sctx } else { &rctx };
    let a = stack::mk(&sctx, ta, &[(o::SNDTIMEO, 100), (o::SNDHWM, 1000), (o::LINGER, -1)]).await;
    let b = stack::mk(bctx, tb, &[(o::RCVTIMEO, 50), (o::RCVHWM, 1000), (o::LINGER, 0)]).await;
    let link = if c.inproc {
      b.bind("inproc://c01-gone").await.expect("bind");
      a.connect("inproc://c01-gone").await.expect("connect");
      None
    } else {
      Some(stack::link_pair(&a, &b, 1 << 16).await)
    };
    settle_n(6).await;
    let all: Vec<Frames> = (0..c.n).map(|i| frames_of(i, &[c.size])).collect();
    let mut accepted = vec![];
    for f in &all {
      if send_one(&a, f, None).await.is_ok() {
        accepted.push(f.clone());
      }
    }
    settle_n(6).await;
    let mut received: Vec<Frames> = vec![];
    let take = |fr: Vec<rzmq::Msg>, pair: Pair| -> Frames {
      let mut f: Frames = fr.iter().map(|m| m.data().unwrap_or(&[]).to_vec()).collect();
      if pair != Pair::PushPull && !f.is_empty() {
        f.remove(0); // routing envelope
      }
      f
    };
    for _ in 0..c.read_before {
      if let Ok(fr) = b.recv_multipart().await {
        received.push(take(fr, c.pair));
      }
    }
    // the sender leaves (everything it accepted has had every chance to be transmitted)
    if c.term && !c.inproc {
      drop(a);
      let _ = tokio::time::timeout(std::time::Duration::from_secs(30), sctx.term()).await;
    } else {
      let _ = tokio::time::timeout(std::time::Duration::from_secs(30), a.close()).await;
    }
    settle_n(8).await;
    while let Ok(fr) = b.recv_multipart().await {
      received.push(take(fr, c.pair));
    }
    if let Some(l) = &link {
      l.destroy();
    }
    let _ = tokio::time::timeout(std::time::Duration::from_secs(30), rctx.term()).await;
    let _ = tokio::time::timeout(std::time::Duration::from_secs(30), sctx.term()).await;
    (c.n, accepted, received)
  })
}

fn gone_sub(tier: Tier) -> Sub {
  let mut sub = Sub::new("sender-gone-before-read", "E3");
  sub.rule = "case = one world: the sender sends n messages (all transmitted: quiescence afterwards), the receiving application reads k of them, the sender closes with LINGER=-1 (or its context terminates), then the application reads the rest; non-trivial = some message was still unread when the sender left; oracle: everything accepted is received, once, in order, intact - a peer's departure does not take back what it already delivered".into();
  let mut list = vec![];
  for pair in [Pair::PushPull, Pair::DealerRouter] {
    for inproc in [false, true] {
      for n in tier.pick(vec![1usize, 3, 20], vec![1, 2, 3, 20, 200]) {
        for size in [1usize, 300, 70_000] {
          if size == 70_000 && n > 3 {
            continue;
          }
          for term in [false, true] {
            for read_before in [0usize, 1, n] {
              if read_before > n || (read_before == 1 && n == 1) {
                continue;
              }
              list.push(Gone { pair, inproc, n, size, term, read_before });
            }
          }
        }
      }
    }
  }
  sub.bounds = json!({"worlds": list.len()});
  par::enumerate(&mut sub, list.len(), |i| {
    let c = list[i];
    let r = gone_world(c);
    let wit = json!({"explorer": "e3", "gone": format!("{:?}", c)});
    let class = format!("{:?}:{}", c.pair, if c.inproc { "inproc" } else { "zmtp" });
    let mut case = Case { steps: c.n as u64 + 3, nontrivial: c.read_before < c.n, ..Default::default() };
    for p in &r.panics {
      case.violations.push(("panic".into(), p.rsplit(" @ ").next().map(mc_core::short_loc).unwrap_or_default(), p.clone(), wit.clone()));
    }
    if let Some((_, accepted, received)) = r.result {
      case.outcome = mc_core::digest(&(accepted.len(), received.len()));
      case.state = mc_core::digest(&(i, received.len()));
      if received != accepted {
        let clause = if received.len() < accepted.len() { "delivered-message-lost-when-peer-left" } else { "received-differs-from-accepted" };
        case.violations.push((clause.into(), class, format!("{} messages of {} bytes accepted and transmitted, application had read {} when the sender {}; {} received in total", accepted.len(), c.size, c.read_before.min(accepted.len()), if c.term { "terminated" } else { "closed" }, received.len()), wit.clone()));
      }
    }
    case
  });
  sub
}

pub fn run(tier: Tier) -> Report {
  let mut rep = Report::new("C01", tier, "model_checking");
  rep.assume("deterministic current-thread runtime with a paused clock: the interleavings explored are those the script dimensions expose (first-send moment, receiver pacing, link buffer size, held handshake); multi-thread runtime schedules inside the actors are not enumerated");
  rep.assume("ZMTP path = in-memory duplex streams attached through verif::attach_stream (the tcp/ipc post-accept/connect sequence); inproc is rzmq's real inproc transport; kernel sockets are not involved");
  rep.assume("payload bytes are a per-message pattern (sequence number and length dependent)");
  for (name, list) in scenarios(tier) {
    let mut sub = Sub::new(&name, "E3");
    sub.rule = "case = one deterministic world (context, two sockets, connect, sender task issuing all sends back-to-back, receiver per pacing, term); evaluation = one world; non-trivial = at least two messages were in flight or a send blocked/was refused; oracle: received == accepted (count, order, bytes), refused sends absent, SNDTIMEO=-1 never fails, nothing stuck, no panic in any task".into();
    sub.bounds = json!({"worlds": list.len()});
    par::enumerate(&mut sub, list.len(), |i| {
      let sc = &list[i];
      let r = run_scenario(sc, 1);
      let mut c = Case { steps: sc.msgs.len() as u64 * 2 + 4, ..Default::default() };
      let wit = json!({"explorer": "e3", "scenario": sc.describe()});
      for p in &r.panics {
        c.violations.push(("panic".into(), p.rsplit(" @ ").next().map(mc_core::short_loc).unwrap_or_default(), p.clone(), wit.clone()));
      }
      match r.result {
        Some(out) => {
          c.nontrivial = out.accepted.len() >= 2 || out.refused > 0;
          c.outcome = mc_core::digest(&(out.accepted.len(), out.refused, out.received.len()));
          c.state = mc_core::digest(&(sc.msgs.len(), out.accepted.len(), out.refused, format!("{:?}{:?}{:?}", sc.pacing, sc.first, sc.pair)));
          for (clause, class, detail) in judge(sc, &out) {
            c.violations.push((clause, class, detail, wit.clone()));
          }
          if i % 1009 == 0 {
            c.sample = Some(json!({"scenario": sc.describe(), "accepted": out.accepted.len(), "refused": out.refused, "received": out.received.len()}));
          }
        }
        None => {
          if r.panics.is_empty() {
            c.violations.push(("panic".into(), "world".into(), "scenario aborted".into(), wit));
          }
        }
      }
      c
    });
    rep.add(sub);
  }
  rep.add(gone_sub(tier));
  rep
}

pub fn replay(_sub: &str, w: &Value) -> Result<String, String> {
  let s = &w["scenario"];
  let parse = |k: &str| s[k].as_i64().unwrap_or(0) as i32;
  let pair = match s["pair"].as_str().unwrap_or("") {
    "PushPull" => Pair::PushPull,
    "DealerRouter" => Pair::DealerRouter,
    "RouterDealer" => Pair::RouterDealer,
    "ReqRep" => Pair::ReqRep,
    _ => Pair::DealerRep,
  };
  let tr = s["transport"].as_str().unwrap_or("");
  let transport = if tr == "Inproc" { Transport::Inproc } else { Transport::Duplex(tr.trim_start_matches("Duplex(").trim_end_matches(')').parse().unwrap_or(65536)) };
  let pacing = match s["pacing"].as_str().unwrap_or("") {
    "Eager" => Pacing::Eager,
    "AfterSends" => Pacing::AfterSends,
    _ => Pacing::Slow,
  };
  let first = match s["first_send"].as_str().unwrap_or("") {
    "MidHandshake" => FirstSend::MidHandshake,
    "BeforeConnect" => FirstSend::BeforeConnect,
    _ => FirstSend::AfterHandshake,
  };
  let msgs: Vec<Vec<usize>> = s["msgs"].as_array().map(|a| a.iter().map(|m| m.as_array().map(|f| f.iter().map(|x| x.as_u64().unwrap_or(0) as usize).collect()).unwrap_or_default()).collect()).unwrap_or_default();
  let sc = Scenario { pair, transport, sndhwm: parse("sndhwm"), rcvhwm: parse("rcvhwm"), sndbatch_count: parse("sndbatch_count"), sndbatch_bytes: parse("sndbatch_bytes"), rcvbatch_count: parse("rcvbatch_count"), throttle: s["throttle"].as_bool().unwrap_or(true), sndtimeo: parse("sndtimeo"), pacing, first, msgs };
  let r1 = run_scenario(&sc, 1);
  let r2 = run_scenario(&sc, 1);
  if r1.result != r2.result {
    return Err("replay is not deterministic".into());
  }
  match r1.result {
    Some(out) => {
      let v = judge(&sc, &out);
      if v.is_empty() && r1.panics.is_empty() {
        Ok(format!("accepted {} received {}", out.accepted.len(), out.received.len()))
      } else {
        Err(format!("{:?} panics {:?}", v, r1.panics))
      }
    }
    None => Err(format!("world aborted: {:?}", r1.panics)),
  }
}
