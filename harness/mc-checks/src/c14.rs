//! C14 — high-water marks bound buffering and SNDTIMEO/RCVTIMEO mean what they say.
//!
//! E3, virtual time: for every (socket pair, transport, HWM, SNDTIMEO) cell the sender sends 1000-byte
//! messages towards a peer that does not read until a send is refused (or stays pending for one
//! virtual hour); the refusal's kind and virtual elapsed time are checked, then the peer reads and
//! must receive exactly the accepted messages. RCVTIMEO likewise on an empty socket. The number of
//! accepted-but-undelivered messages is compared across HWM values (differential bound).

use crate::common::payload;
use crate::stack::{self, msg};
use mc_core::par::{self, Case};
use mc_core::world::{self, settle_n, Way};
use mc_core::{Report, Sub, Tier};
use rzmq::socket::options as o;
use rzmq::{Context, Msg, MsgFlags, Socket, SocketType, ZmqError};
use serde_json::{json, Value};
use std::time::Duration;
use tokio::time::Instant;

#[derive(Clone, Copy, Debug, PartialEq, Eq, Hash)]
enum Pair {
  PushPull,
  DealerRouter,
  RouterDealer,
  DealerDealer,
}

#[derive(Clone, Copy, Debug, PartialEq, Eq, Hash)]
enum Tr {
  /// ZMTP session; the peer application does not call recv
  ZmtpPeerIdle,
  /// ZMTP session; the network itself is stalled (peer stopped reading its socket)
  ZmtpStalled,
  Inproc,
}

#[derive(Clone, Copy, Debug)]
struct Cell {
  pair: Pair,
  tr: Tr,
  hwm: i32,
  sndtimeo: i32,
}

const MSG_LEN: usize = 1000;
const CAP: usize = 6000;

#[derive(Debug, Default, Clone)]
struct Out {
  accepted: usize,
  /// kind and virtual elapsed ms of the first send that did not succeed
  refusal: Option<(String, u64)>,
  /// SNDTIMEO=-1: the blocked send completed after the peer started reading
  blocked_send_completed: Option<bool>,
  received: usize,
  received_in_order: bool,
  cap_hit: bool,
  extra_after_refusal: Vec<String>,
}

fn err_kind(e: &ZmqError) -> String {
  match e {
    ZmqError::ResourceLimitReached => "would-block".into(),
    ZmqError::Timeout => "timeout".into(),
    other => format!("other:{}", other),
  }
}

async fn send_one(a: &Socket, pair: Pair, seq: usize) -> Result<(), ZmqError> {
  let mut body = payload(seq as u32 + 1, MSG_LEN);
  body[..8].copy_from_slice(&(seq as u64).to_be_bytes());
  if pair == Pair::RouterDealer {
    a.send_multipart(vec![msg(b"rx", true), Msg::from_vec(body)]).await
  } else {
    a.send(Msg::from_vec(body)).await
  }
}

fn run_cell(c: Cell) -> world::WorldResult<Out> {
  world::run(1, move || async move {
    let ctx = Context::new().expect("context");
    let (ta, tb) = match c.pair {
      Pair::PushPull => (SocketType::Push, SocketType::Pull),
      Pair::DealerRouter => (SocketType::Dealer, SocketType::Router),
      Pair::RouterDealer => (SocketType::Router, SocketType::Dealer),
      Pair::DealerDealer => (SocketType::Dealer, SocketType::Dealer),
    };
    let a = stack::mk(&ctx, ta, &[(o::SNDHWM, c.hwm), (o::RCVHWM, c.hwm), (o::SNDTIMEO, c.sndtimeo), (o::LINGER, 0)]).await;
    let b = stack::mk(&ctx, tb, &[(o::SNDHWM, c.hwm), (o::RCVHWM, c.hwm), (o::RCVTIMEO, 300), (o::LINGER, 0)]).await;
    if c.pair == Pair::RouterDealer {
      a.set_option(o::ROUTER_MANDATORY, 1i32).await.unwrap();
      b.set_option(o::ROUTING_ID, &b"rx"[..]).await.unwrap();
    }
    let link = match c.tr {
      Tr::Inproc => {
        b.bind("inproc://c14").await.expect("bind");
        a.connect("inproc://c14").await.expect("connect");
        None
      }
      _ => Some(stack::link_pair(&a, &b, 4096).await),
    };
    settle_n(4).await;
    if c.tr == Tr::ZmtpStalled {
      link.as_ref().unwrap().stall(Way::AtoB, true);
    }
    let mut out = Out { received_in_order: true, ..Default::default() };
    // ---- phase 1: send until refused / pending ----
    let mut pending_send = None;
    for seq in 0..CAP {
      let t0 = Instant::now();
      let a2 = a.clone();
      let pair = c.pair;
      let mut fut = Box::pin(async move { send_one(&a2, pair, seq).await });
      match tokio::time::timeout(Duration::from_secs(3600), &mut fut).await {
        Ok(Ok(())) => out.accepted += 1,
        Ok(Err(e)) => {
          out.refusal = Some((err_kind(&e), t0.elapsed().as_millis() as u64));
          break;
        }
        Err(_) => {
          out.refusal = Some(("pending-after-1h".into(), t0.elapsed().as_millis() as u64));
          pending_send = Some(fut);
          break;
        }
      }
      if seq + 1 == CAP {
        out.cap_hit = true;
      }
    }
    // a second refusal right after the first must behave the same way (no state corruption)
    if pending_send.is_none() && out.refusal.is_some() && c.sndtimeo >= 0 {
      let t0 = Instant::now();
      match send_one(&a, c.pair, 9_999_999).await {
        Ok(()) => out.extra_after_refusal.push("second send after a refusal succeeded although nothing was drained".into()),
        Err(e) => {
          let k = err_kind(&e);
          let el = t0.elapsed().as_millis() as u64;
          if out.refusal.as_ref().map(|r| r.0.clone()) != Some(k.clone()) && !k.starts_with("would") && !k.starts_with("timeout") {
            out.extra_after_refusal.push(format!("second refusal differs: {} after {} ms", k, el));
          }
        }
      }
    }
    // ---- phase 2: the peer reads; everything accepted must arrive, nothing else ----
    if c.tr == Tr::ZmtpStalled {
      link.as_ref().unwrap().stall(Way::AtoB, false);
    }
    let mut expect_seq = 0u64;
    let mut idle = 0;
    let mut completed = None;
    while idle < 2 && out.received < CAP + 8 {
      match b.recv_multipart().await {
        Ok(fr) => {
          idle = 0;
          let body = fr.last().map(|m| m.data().unwrap_or(&[]).to_vec()).unwrap_or_default();
          if body.len() != MSG_LEN {
            out.received_in_order = false;
          } else {
            let s = u64::from_be_bytes(body[..8].try_into().unwrap());
            if s != expect_seq {
              out.received_in_order = false;
            }
            expect_seq = s + 1;
          }
          out.received += 1;
        }
        Err(_) => idle += 1,
      }
      if let Some(f) = pending_send.as_mut() {
        if completed.is_none() {
          if let Ok(r) = tokio::time::timeout(Duration::from_millis(1), f).await {
            completed = Some(r.is_ok());
            if r.is_ok() {
              out.accepted += 1;
            }
          }
        }
      }
    }
    if pending_send.is_some() {
      out.blocked_send_completed = Some(completed.unwrap_or(false));
    }
    drop(link);
    let _ = tokio::time::timeout(Duration::from_secs(30), ctx.term()).await;
    out
  })
}

fn judge_cell(c: &Cell, o: &Out) -> Vec<(String, String, String)> {
  let mut v = vec![];
  let class = format!("{:?}:{:?}:sndtimeo{}", c.pair, c.tr, c.sndtimeo);
  if o.cap_hit {
    v.push(("buffering-unbounded".into(), class.clone(), format!("{} messages of {} bytes accepted with SNDHWM=RCVHWM={} and a peer that never reads", o.accepted, MSG_LEN, c.hwm)));
    return v;
  }
  match (&o.refusal, c.sndtimeo) {
    (None, _) => v.push(("no-refusal".into(), class.clone(), "sender loop ended without refusal".into())),
    (Some((kind, ms)), 0) => {
      if kind != "would-block" || *ms != 0 {
        v.push(("sndtimeo-0-not-immediate-would-block".into(), class.clone(), format!("full queue, SNDTIMEO=0: got {} after {} ms virtual", kind, ms)));
      }
    }
    (Some((kind, ms)), t) if t > 0 => {
      let t = t as u64;
      if !(kind == "timeout" || kind == "would-block") {
        v.push(("sndtimeo-wrong-error".into(), class.clone(), format!("full queue, SNDTIMEO={}: got {} after {} ms", t, kind, ms)));
      } else if *ms < t {
        v.push(("sndtimeo-returned-early".into(), class.clone(), format!("full queue, SNDTIMEO={} ms: refused after only {} ms virtual", t, ms)));
      } else if *ms > t + 100 {
        v.push(("sndtimeo-returned-late".into(), class.clone(), format!("full queue, SNDTIMEO={} ms: refused after {} ms virtual", t, ms)));
      }
    }
    (Some((kind, ms)), _) => {
      // -1: must still be pending after an hour, then complete once the peer reads
      if kind != "pending-after-1h" {
        v.push(("sndtimeo-infinite-gave-up".into(), class.clone(), format!("full queue, SNDTIMEO=-1: send returned {} after {} ms virtual instead of waiting", kind, ms)));
      } else if o.blocked_send_completed != Some(true) {
        v.push(("blocked-send-never-completed".into(), class.clone(), "SNDTIMEO=-1: the blocked send did not complete after the peer started reading".into()));
      }
    }
  }
  for e in &o.extra_after_refusal {
    v.push(("spurious-success-after-refusal".into(), class.clone(), e.clone()));
  }
  if o.received != o.accepted || !o.received_in_order {
    v.push((
      "accepted-vs-received-mismatch".into(),
      class,
      format!("accepted {} messages, peer received {} (in order: {}) after it started reading; refusal was {:?}", o.accepted, o.received, o.received_in_order, o.refusal),
    ));
  }
  v
}

fn cells(tier: Tier) -> Vec<Cell> {
  let mut v = vec![];
  let hwms: Vec<i32> = tier.pick(vec![1, 2, 8, 64], vec![1, 2, 3, 8, 16, 64, 256, 1000]);
  for pair in [Pair::PushPull, Pair::DealerRouter, Pair::RouterDealer, Pair::DealerDealer] {
    for tr in [Tr::ZmtpPeerIdle, Tr::ZmtpStalled, Tr::Inproc] {
      if pair == Pair::DealerDealer && tr == Tr::Inproc {
        continue;
      }
      for &hwm in &hwms {
        for sndtimeo in [0, 1, 50, 500, -1] {
          v.push(Cell { pair, tr, hwm, sndtimeo });
        }
      }
    }
  }
  v
}

// ---- RCVTIMEO on an empty socket ---------------------------------------------------------------

#[derive(Clone, Copy, Debug)]
struct RCell {
  ty: SocketType,
  rcvtimeo: i32,
  multipart: bool,
  connected: bool,
  /// while the call waits, further silent peers attach (every RCVTIMEO/3) and one detaches
  churn: bool,
}

fn run_rcell(c: RCell) -> world::WorldResult<(String, u64, Option<bool>)> {
  world::run(1, move || async move {
    let ctx = Context::new().expect("context");
    let s = stack::mk(&ctx, c.ty, &[(o::RCVTIMEO, c.rcvtimeo), (o::LINGER, 0)]).await;
    let peer_ty = match c.ty {
      SocketType::Pull => SocketType::Push,
      SocketType::Sub => SocketType::Pub,
      SocketType::Router => SocketType::Dealer,
      SocketType::Dealer => SocketType::Router,
      SocketType::Rep => SocketType::Req,
      _ => SocketType::Push,
    };
    if c.ty == SocketType::Sub {
      s.set_option(o::SUBSCRIBE, &b""[..]).await.unwrap();
    }
    if c.ty == SocketType::Dealer {
      s.set_option(o::ROUTING_ID, &b"rx"[..]).await.unwrap();
    }
    let mut peer = None;
    if c.connected {
      let p = stack::mk(&ctx, peer_ty, &[(o::LINGER, 0), (o::SNDTIMEO, 100)]).await;
      let l = stack::link_pair(&p, &s, 4096).await;
      mc_core::world::keep(l);
      settle_n(4).await;
      peer = Some(p);
    }
    // peers that come and go during the wait never send anything: they must not extend the timeout
    if c.churn && c.rcvtimeo > 0 {
      let (ctx2, s3, step) = (ctx.clone(), s.clone(), (c.rcvtimeo as u64 / 3).max(1));
      tokio::spawn(async move {
        let mut kept = vec![];
        for k in 0..12 {
          tokio::time::sleep(Duration::from_millis(step)).await;
          let p = stack::mk(&ctx2, peer_ty, &[(o::LINGER, 0), (o::SNDTIMEO, 100)]).await;
          let l = stack::link_pair(&p, &s3, 4096).await;
          mc_core::world::keep(l);
          kept.push(p);
          if k % 3 == 2 {
            if let Some(old) = kept.first().cloned() {
              let _ = old.close().await;
              kept.remove(0);
            }
          }
        }
        tokio::time::sleep(Duration::from_secs(7200)).await;
        drop(kept);
      });
    }
    let t0 = Instant::now();
    let s2 = s.clone();
    let mut fut = Box::pin(async move {
      if c.multipart {
        s2.recv_multipart().await.map(|_| ())
      } else {
        s2.recv().await.map(|_| ())
      }
    });
    let r = tokio::time::timeout(Duration::from_secs(3600), &mut fut).await;
    let (kind, ms) = match r {
      Ok(Ok(())) => ("spurious-success".to_string(), t0.elapsed().as_millis() as u64),
      Ok(Err(e)) => (err_kind(&e), t0.elapsed().as_millis() as u64),
      Err(_) => ("pending-after-1h".to_string(), t0.elapsed().as_millis() as u64),
    };
    // -1: a message arriving now must complete the pending recv
    let mut completed = None;
    if kind == "pending-after-1h" {
      if let Some(p) = &peer {
        let sent = match peer_ty {
          SocketType::Router => p.send_multipart(vec![msg(b"rx", true), msg(b"hello", false)]).await,
          _ => p.send(msg(b"hello", false)).await,
        };
        if sent.is_ok() {
          completed = Some(matches!(tokio::time::timeout(Duration::from_secs(5), &mut fut).await, Ok(Ok(()))));
        }
      }
    }
    let _ = tokio::time::timeout(Duration::from_secs(30), ctx.term()).await;
    (kind, ms, completed)
  })
}

// ---- buffering bound with a consumer that is slow, not stopped ------------------------------------

/// the fixed batching allowance on top of the first round's reading: the receive side takes one
/// read batch out of the transport before it finds the application queue full (at most 23 messages
/// of 1000 bytes over ZMTP, 8 over inproc, for every HWM from 1 to 200 and 150 rounds)
const SLOW_SLACK: usize = 32;

#[derive(Clone, Copy, Debug)]
struct SlowCell {
  pair: Pair,
  inproc: bool,
  hwm: i32,
  /// messages the consumer takes per round
  reads_per_round: usize,
  rounds: usize,
}

#[derive(Debug, Default, Clone)]
struct SlowOut {
  /// accepted - received at the end of each round's saturation phase
  outstanding: Vec<usize>,
  accepted: usize,
  received: usize,
  in_order: bool,
  round_cap_hit: bool,
}

fn run_slow(c: SlowCell) -> world::WorldResult<SlowOut> {
  world::run(1, move || async move {
    let ctx = Context::new().expect("context");
    let (ta, tb) = match c.pair {
      Pair::PushPull => (SocketType::Push, SocketType::Pull),
      Pair::DealerRouter => (SocketType::Dealer, SocketType::Router),
      Pair::RouterDealer => (SocketType::Router, SocketType::Dealer),
      Pair::DealerDealer => (SocketType::Dealer, SocketType::Dealer),
    };
    let a = stack::mk(&ctx, ta, &[(o::SNDHWM, c.hwm), (o::RCVHWM, c.hwm), (o::SNDTIMEO, 0), (o::LINGER, 0)]).await;
    let b = stack::mk(&ctx, tb, &[(o::SNDHWM, c.hwm), (o::RCVHWM, c.hwm), (o::RCVTIMEO, 50), (o::LINGER, 0)]).await;
    if c.pair == Pair::RouterDealer {
      a.set_option(o::ROUTER_MANDATORY, 1i32).await.unwrap();
      b.set_option(o::ROUTING_ID, &b"rx"[..]).await.unwrap();
    }
    let link = if c.inproc {
      b.bind("inproc://c14-slow").await.expect("bind");
      a.connect("inproc://c14-slow").await.expect("connect");
      None
    } else {
      Some(stack::link_pair(&a, &b, 4096).await)
    };
    settle_n(4).await;
    let mut out = SlowOut { in_order: true, ..Default::default() };
    let mut expect_seq = 0u64;
    for _round in 0..c.rounds {
      // saturate: send until the socket refuses, let the stack move, try again, until nothing moves
      let mut quiet = 0;
      let mut this_round = 0usize;
      while quiet < 2 {
        match send_one(&a, c.pair, out.accepted).await {
          Ok(()) => {
            out.accepted += 1;
            this_round += 1;
            quiet = 0;
            if this_round > 4000 {
              out.round_cap_hit = true;
              break;
            }
          }
          Err(_) => {
            quiet += 1;
            settle_n(3).await;
          }
        }
      }
      out.outstanding.push(out.accepted - out.received);
      if out.round_cap_hit {
        break;
      }
      for _ in 0..c.reads_per_round {
        if let Ok(fr) = b.recv_multipart().await {
          let body = fr.last().map(|m| m.data().unwrap_or(&[]).to_vec()).unwrap_or_default();
          if body.len() != MSG_LEN || u64::from_be_bytes(body[..8].try_into().unwrap()) != expect_seq {
            out.in_order = false;
          }
          expect_seq += 1;
          out.received += 1;
        }
      }
      settle_n(3).await;
    }
    drop(link);
    let _ = tokio::time::timeout(Duration::from_secs(30), ctx.term()).await;
    out
  })
}

fn slow_cells(tier: Tier) -> Vec<SlowCell> {
  let mut v = vec![];
  for pair in [Pair::PushPull, Pair::DealerRouter, Pair::RouterDealer, Pair::DealerDealer] {
    for inproc in [false, true] {
      if pair == Pair::DealerDealer && inproc {
        continue;
      }
      for hwm in tier.pick(vec![1, 8, 20], vec![1, 2, 8, 20, 64, 200]) {
        for reads_per_round in tier.pick(vec![1usize, 3], vec![1usize, 2, 3, 7]) {
          v.push(SlowCell { pair, inproc, hwm, reads_per_round, rounds: tier.pick(40, 150) });
        }
      }
    }
  }
  v
}

fn slow_sub(tier: Tier) -> Sub {
  let list = slow_cells(tier);
  let mut sub = Sub::new("buffering-bound-slow-consumer", "E3");
  sub.rule = "case = one world per (pair, transport, HWM, reads per round): 40 (150) rounds of 'the producer (SNDTIMEO=0) sends until every stage is full and nothing moves any more, then the consumer takes r messages'; non-trivial = all; oracle: the number of accepted-but-unreceived messages after any round's saturation does not exceed the first round's (every stage full, consumer has not read yet) by more than a fixed 32, no round accepts 4000 messages, messages arrive in order".into();
  sub.bounds = json!({"cells": list.len(), "rounds": tier.pick(40, 150)});
  par::enumerate(&mut sub, list.len(), |i| {
    let c = list[i];
    let r = run_slow(c);
    let wit = json!({"explorer": "e3", "sub": "buffering-bound-slow-consumer", "cell": format!("{:?}", c)});
    let class = format!("{:?}:{}", c.pair, if c.inproc { "inproc" } else { "zmtp" });
    let mut case = Case { steps: c.rounds as u64, nontrivial: true, ..Default::default() };
    for p in &r.panics {
      case.violations.push(("panic".into(), p.rsplit(" @ ").next().map(mc_core::short_loc).unwrap_or_default(), p.clone(), wit.clone()));
    }
    if let Some(o) = r.result {
      let first = o.outstanding.first().cloned().unwrap_or(0);
      let max = o.outstanding.iter().cloned().max().unwrap_or(0);
      case.outcome = mc_core::digest(&(max > first, o.in_order, o.round_cap_hit));
      case.state = mc_core::digest(&(format!("{:?}", c), first, max));
      if o.round_cap_hit || max > first + SLOW_SLACK {
        let at = o.outstanding.iter().position(|x| *x > first + SLOW_SLACK).unwrap_or(0);
        case.violations.push(("buffering-grows-with-slow-consumer".into(), class.clone(), format!("HWM={}: {} messages were outstanding with every stage full before the consumer read anything; after round {} (consumer takes {} per round) {} were outstanding, maximum {}{}", c.hwm, first, at, c.reads_per_round, o.outstanding.get(at).cloned().unwrap_or(0), max, if o.round_cap_hit { " (a single round accepted more than 4000)" } else { "" }), wit.clone()));
      }
      if !o.in_order {
        case.violations.push(("slow-consumer-out-of-order".into(), class.clone(), "a message arrived out of order or damaged".into(), wit.clone()));
      }
      if std::env::var_os("MC_DEBUG").is_some() {
        eprintln!("SLOW {:?} first={} max={} series={:?}", c, first, max, &o.outstanding[..o.outstanding.len().min(12)]);
      }
      if i % 11 == 0 {
        case.sample = Some(json!({"cell": format!("{:?}", c), "outstanding_first_round": first, "outstanding_max": max, "accepted": o.accepted, "received": o.received}));
      }
    }
    case
  });
  sub
}

pub fn run(tier: Tier) -> Report {
  let mut rep = Report::new("C14", tier, "model_checking");
  rep.assume("virtual (paused) tokio clock: elapsed times are exact; a positive timeout may be answered with timeout or would-block, no earlier than the interval and at most 100 ms later");
  rep.assume("'peer never reads' is modelled two ways: the peer application never calls recv (network flows, buffers of 4 KiB per direction), and the network itself stalled (nothing is read from the sender's stream); 1000-byte messages so that byte-sized transport buffers account for a constant handful of messages");
  // ---- SNDTIMEO / HWM ----
  let list = cells(tier);
  let mut sub = Sub::new("sndtimeo-hwm", "E3");
  sub.rule = "case = one world per (pair, transport, HWM, SNDTIMEO): send until a send is refused or stays pending for 1 h virtual, then the peer reads everything; non-trivial = all; oracle: refusal kind and virtual elapsed time match SNDTIMEO, -1 waits and completes once the peer reads, received == accepted in order, accepted count capped".into();
  sub.bounds = json!({"cells": list.len(), "hwm": tier.pick(vec![1, 2, 8, 64], vec![1, 2, 3, 8, 16, 64, 256, 1000]), "sndtimeo_ms": [0, 1, 50, 500, -1], "pairs": ["PUSH>PULL", "DEALER>ROUTER", "ROUTER>DEALER", "DEALER>DEALER"], "message_bytes": MSG_LEN});
  let results: std::sync::Mutex<Vec<(usize, usize)>> = std::sync::Mutex::new(vec![]);
  par::enumerate(&mut sub, list.len(), |i| {
    let c = list[i];
    let r = run_cell(c);
    let wit = json!({"explorer": "e3", "cell": format!("{:?}", c)});
    let mut case = Case { steps: 3, nontrivial: true, ..Default::default() };
    for p in &r.panics {
      case.violations.push(("panic".into(), p.rsplit(" @ ").next().map(mc_core::short_loc).unwrap_or_default(), p.clone(), wit.clone()));
    }
    if let Some(o) = r.result {
      case.steps = (o.accepted + o.received) as u64 + 2;
      case.outcome = mc_core::digest(&(o.refusal.as_ref().map(|r| r.0.clone()), o.accepted));
      case.state = mc_core::digest(&(format!("{:?}", c), o.accepted));
      for (clause, class, detail) in judge_cell(&c, &o) {
        case.violations.push((clause, class, detail, wit.clone()));
      }
      results.lock().unwrap().push((i, o.accepted));
      if i % 37 == 0 {
        case.sample = Some(json!({"cell": format!("{:?}", c), "accepted": o.accepted, "refusal": o.refusal, "received": o.received}));
      }
    }
    case
  });
  // differential HWM bound: accepted(h) - 3h must not exceed accepted(1) - 3 by more than a slack
  let res = results.into_inner().unwrap();
  let acc = |pair: Pair, tr: Tr, hwm: i32, st: i32| -> Option<usize> {
    list.iter().position(|c| c.pair == pair && c.tr == tr && c.hwm == hwm && c.sndtimeo == st).and_then(|i| res.iter().find(|r| r.0 == i).map(|r| r.1))
  };
  let mut table = vec![];
  for pair in [Pair::PushPull, Pair::DealerRouter, Pair::RouterDealer, Pair::DealerDealer] {
    for tr in [Tr::ZmtpPeerIdle, Tr::ZmtpStalled, Tr::Inproc] {
      let Some(base) = acc(pair, tr, 1, 0) else { continue };
      let mut row = vec![];
      for c in list.iter().filter(|c| c.pair == pair && c.tr == tr && c.sndtimeo == 0) {
        if let Some(a) = acc(pair, tr, c.hwm, 0) {
          row.push((c.hwm, a));
          let allowance_1 = base as i64 - 3;
          let allowance_h = a as i64 - 3 * c.hwm as i64;
          if allowance_h > allowance_1 + 16 {
            sub.violate(
              "buffering-grows-beyond-hwm",
              &format!("{:?}:{:?}", pair, tr),
              format!("with HWM=1 {} messages were accepted before the first refusal; with HWM={} it was {} (> SNDHWM*2 + RCVHWM + the same constant)", base, c.hwm, a),
              json!({"pair": format!("{:?}", pair), "transport": format!("{:?}", tr), "hwm": c.hwm}),
            );
          }
        }
      }
      table.push(json!({"pair": format!("{:?}", pair), "transport": format!("{:?}", tr), "accepted_by_hwm": row}));
    }
  }
  sub.notes.push(format!("accepted-before-refusal table: {}", serde_json::to_string(&table).unwrap_or_default()));
  rep.add(sub);
  rep.add(slow_sub(tier));

  // ---- RCVTIMEO ----
  let mut rc = vec![];
  for ty in [SocketType::Pull, SocketType::Sub, SocketType::Router, SocketType::Dealer, SocketType::Rep] {
    for rcvtimeo in [0, 1, 50, 333, 500, 5000, -1] {
      for multipart in [false, true] {
        for connected in [false, true] {
          rc.push(RCell { ty, rcvtimeo, multipart, connected, churn: false });
          if rcvtimeo >= 50 {
            rc.push(RCell { ty, rcvtimeo, multipart, connected, churn: true });
          }
        }
      }
    }
  }
  let mut sub = Sub::new("rcvtimeo", "E3");
  sub.rule = "case = one world per (receiving socket type, RCVTIMEO, recv|recv_multipart, connected or not): a receive call on an empty socket, optionally while silent peers attach every RCVTIMEO/3 and detach; oracle: 0 -> immediate would-block, t>0 -> timeout/would-block in [t, t+100 ms] virtual, -1 -> pending after 1 h and completed by the next message".into();
  sub.bounds = json!({"cells": rc.len()});
  par::enumerate(&mut sub, rc.len(), |i| {
    let c = rc[i];
    let r = run_rcell(c);
    let wit = json!({"explorer": "e3", "cell": format!("{:?}", c)});
    let mut case = Case { steps: 2, nontrivial: true, ..Default::default() };
    let class = format!("{:?}:rcvtimeo{}:{}{}", c.ty, c.rcvtimeo, if c.multipart { "recv_multipart" } else { "recv" }, if c.churn { ":peer-churn" } else { "" });
    for p in &r.panics {
      case.violations.push(("panic".into(), p.rsplit(" @ ").next().map(mc_core::short_loc).unwrap_or_default(), p.clone(), wit.clone()));
    }
    if let Some((kind, ms, completed)) = r.result {
      case.outcome = mc_core::digest(&(kind.clone(), ms));
      case.state = mc_core::digest(&(format!("{:?}", c.ty), c.rcvtimeo, kind.clone()));
      let mut bad = |clause: &str, d: String| case.violations.push((clause.into(), class.clone(), d, wit.clone()));
      match c.rcvtimeo {
        0 => {
          if kind != "would-block" || ms != 0 {
            bad("rcvtimeo-0-not-immediate-would-block", format!("empty socket: got {} after {} ms", kind, ms));
          }
        }
        t if t > 0 => {
          let t = t as u64;
          if !(kind == "timeout" || kind == "would-block") {
            bad("rcvtimeo-wrong-error", format!("RCVTIMEO={}: got {} after {} ms", t, kind, ms));
          } else if ms < t {
            bad("rcvtimeo-returned-early", format!("RCVTIMEO={} ms: returned after {} ms", t, ms));
          } else if ms > t + 100 {
            bad("rcvtimeo-returned-late", format!("RCVTIMEO={} ms: returned after {} ms", t, ms));
          }
        }
        _ => {
          if kind != "pending-after-1h" {
            bad("rcvtimeo-infinite-gave-up", format!("RCVTIMEO=-1: recv returned {} after {} ms virtual", kind, ms));
          } else if c.connected && completed == Some(false) {
            bad("blocked-recv-never-completed", "RCVTIMEO=-1: a message sent afterwards did not complete the pending recv".into());
          }
        }
      }
      case.sample = Some(json!({"cell": format!("{:?}", c), "result": kind, "elapsed_ms": ms}));
    }
    case
  });
  rep.add(sub);
  rep
}

pub fn replay(sub: &str, w: &Value) -> Result<String, String> {
  Err(format!("replay of {}: re-run ./check C14 (witness {})", sub, w))
}

#[allow(dead_code)]
fn _unused(_: MsgFlags) {}
