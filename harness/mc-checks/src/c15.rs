//! C15 — LINGER governs what happens to accepted messages at close.
//!
//! E3 (deterministic) for the two LINGER values that do not depend on the real clock: -1 (no
//! deadline) and 0 (immediate). Every cell of queued-count x message size x link buffer x receiver
//! pacing x close/term/drop x transport x pair runs the whole real stack in a paused-clock world.
//! Finite LINGER values read std::time::Instant and are exercised by the real-clock matrix (E4).

use crate::common::payload;
use crate::stack::{self, msg};
use mc_core::par::{self, Case};
use mc_core::world::{self, settle_n};
use mc_core::{Report, Sub, Tier};
use rzmq::socket::options as o;
use rzmq::{Context, Msg, SocketType};
use serde_json::{json, Value};
use std::time::Duration;
use tokio::time::Instant;

#[derive(Clone, Copy, Debug, PartialEq, Eq, Hash)]
enum Pair {
  PushPull,
  DealerRouter,
  PubSub,
}

#[derive(Clone, Copy, Debug, PartialEq, Eq, Hash)]
enum Tr {
  Zmtp(usize),
  Inproc,
}

#[derive(Clone, Copy, Debug, PartialEq, Eq, Hash)]
enum How {
  Close,
  Term,
  DropThenTerm,
}

#[derive(Clone, Copy, Debug)]
struct Cell {
  pair: Pair,
  tr: Tr,
  linger: i32,
  queued: usize,
  size: usize,
  /// true: the receiver application reads only after close()/term() was issued
  late_reader: bool,
  how: How,
  hwm: i32,
  /// the network towards the receiver does not move from before the first send until after
  /// close()/term() has returned (only with LINGER=0: with an infinite linger waiting is correct)
  stalled: bool,
  /// Some((at, n)): messages at..at+n are 48 bytes instead of `size` (a small message heading big
  /// ones makes the session pull far more than one wire batch into its carry-over)
  small_run: Option<(usize, usize)>,
}

#[derive(Debug, Default, Clone)]
struct Out {
  accepted: usize,
  received: Vec<usize>,
  corrupt: bool,
  close_virtual_ms: u64,
  close_returned: bool,
  close_error: Option<String>,
}

fn run_cell(c: Cell) -> world::WorldResult<Out> {
  world::run(1, move || async move {
    let ctx = Context::new().expect("context");
    let rctx = Context::new().expect("context2"); // the receiver lives in its own context so that term() of the sender's does not stop it
    let (ta, tb) = match c.pair {
      Pair::PushPull => (SocketType::Push, SocketType::Pull),
      Pair::DealerRouter => (SocketType::Dealer, SocketType::Router),
      Pair::PubSub => (SocketType::Pub, SocketType::Sub),
    };
    let inproc = c.tr == Tr::Inproc;
    let a = stack::mk(&ctx, ta, &[(o::LINGER, c.linger), (o::SNDHWM, c.hwm), (o::SNDTIMEO, 0)]).await;
    // inproc needs both sockets in one context
    let bctx = if inproc { &ctx } else { &rctx };
    let b = stack::mk(bctx, tb, &[(o::RCVTIMEO, 100), (o::RCVHWM, c.hwm.max(64)), (o::LINGER, 0)]).await;
    if c.pair == Pair::PubSub {
      b.set_option(o::SUBSCRIBE, &b""[..]).await.unwrap();
    }
    let link = match c.tr {
      Tr::Zmtp(buf) => Some(stack::link_pair(&a, &b, buf).await),
      Tr::Inproc => {
        b.bind("inproc://c15").await.expect("bind");
        a.connect("inproc://c15").await.expect("connect");
        None
      }
    };
    settle_n(5).await;
    if let (true, Some(l)) = (c.stalled, &link) {
      l.stall(world::Way::AtoB, true);
    }
    let mut out = Out::default();
    for i in 0..c.queued {
      let sz = match c.small_run {
        Some((at, n)) if i >= at && i < at + n => 48,
        _ => c.size.max(8),
      };
      let mut body = payload(i as u32 + 1, sz);
      body[..8].copy_from_slice(&(i as u64).to_be_bytes());
      if a.send(Msg::from_vec(body)).await.is_ok() {
        out.accepted += 1;
      } else {
        break;
      }
      if c.stalled {
        // let the session frame what it can: it ends up blocked in a write with data in hand
        settle_n(2).await;
      }
    }
    // reader
    let reader = {
      let b = b.clone();
      let late = c.late_reader;
      let pair = c.pair;
      let slow_network = c.stalled && c.linger == -1;
      tokio::spawn(async move {
        if late {
          tokio::time::sleep(Duration::from_secs(2)).await;
        }
        let mut got = vec![];
        let mut corrupt = false;
        let mut idle = 0;
        // (a network that only moves again 500 ms after close was issued: the reader must outwait it)
        let patience = if slow_network { 30 } else { 3 };
        while idle < patience {
          match b.recv_multipart().await {
            Ok(fr) => {
              idle = 0;
              let body = fr.last().map(|m| m.data().unwrap_or(&[]).to_vec()).unwrap_or_default();
              let _ = pair;
              if body.len() < 8 {
                corrupt = true;
                continue;
              }
              let seq = u64::from_be_bytes(body[..8].try_into().unwrap()) as usize;
              let mut want = payload(seq as u32 + 1, body.len());
              want[..8].copy_from_slice(&(seq as u64).to_be_bytes());
              if want != body {
                corrupt = true;
              }
              got.push(seq);
            }
            Err(_) => idle += 1,
          }
        }
        (got, corrupt)
      })
    };
    // close
    let t0 = Instant::now();
    let closer = {
      let (a2, ctx2, how) = (a.clone(), ctx.clone(), c.how);
      tokio::spawn(async move {
        match how {
          How::Close => a2.close().await.map_err(|e| e.to_string()),
          How::Term => {
            drop(a2);
            ctx2.term().await.map_err(|e| e.to_string())
          }
          How::DropThenTerm => {
            drop(a2);
            ctx2.term().await.map_err(|e| e.to_string())
          }
        }
      })
    };
    if c.how == How::DropThenTerm {
      // the application's own handle goes away before term() runs
    }
    drop(a);
    if let (true, -1, Some(l)) = (c.stalled, c.linger, &link) {
      // a slow network, not a dead one: it moves again half a second after close()/term() was issued
      tokio::time::sleep(Duration::from_millis(500)).await;
      l.stall(world::Way::AtoB, false);
    }
    match tokio::time::timeout(Duration::from_secs(600), closer).await {
      Ok(Ok(r)) => {
        out.close_returned = true;
        out.close_error = r.err();
      }
      Ok(Err(_)) => out.close_error = Some("close task panicked".into()),
      Err(_) => out.close_returned = false,
    }
    out.close_virtual_ms = t0.elapsed().as_millis() as u64;
    if let (true, Some(l)) = (c.stalled, &link) {
      l.stall(world::Way::AtoB, false);
    }
    if let Ok(Ok((got, corrupt))) = tokio::time::timeout(Duration::from_secs(600), reader).await {
      out.received = got;
      out.corrupt = corrupt;
    }
    drop(link);
    if !inproc {
      let _ = tokio::time::timeout(Duration::from_secs(30), rctx.term()).await;
    } else {
      let _ = tokio::time::timeout(Duration::from_secs(30), ctx.term()).await;
    }
    out
  })
}

fn judge(c: &Cell, o: &Out) -> Vec<(String, String, String)> {
  let mut v = vec![];
  let class = format!("{:?}:{}:linger{}", c.pair, match c.tr { Tr::Zmtp(64) => "zmtp-64B-link", Tr::Zmtp(_) => "zmtp", Tr::Inproc => "inproc" }, c.linger);
  let ctxd = format!("{:?}, {}{}{}", c.how, if c.late_reader { "late reader" } else { "eager reader" }, if c.stalled && c.linger == -1 { ", network stalled until 500 ms after close" } else if c.stalled { ", network stalled" } else { "" }, match c.small_run { Some((at, n)) => format!(", messages {}..{} are 48 bytes", at, at + n), None => String::new() });
  if o.corrupt {
    v.push(("corrupted-or-truncated-message".into(), class.clone(), "a received message does not match what was sent".into()));
  }
  // received must be a prefix of accepted (in order, no duplicates)
  let want_prefix: Vec<usize> = (0..o.received.len()).collect();
  if o.received != want_prefix {
    v.push(("received-not-a-prefix-of-accepted".into(), class.clone(), format!("accepted 0..{}, received {:?}", o.accepted, o.received)));
  }
  if !o.close_returned {
    v.push(("close-did-not-return".into(), class.clone(), format!("close/term still pending after 600 s virtual (LINGER={})", c.linger)));
  }
  if let Some(e) = &o.close_error {
    v.push(("close-returned-error".into(), class.clone(), e.clone()));
  }
  match c.linger {
    0 => {
      if o.close_returned && o.close_virtual_ms > 1500 {
        v.push(("linger-0-not-prompt".into(), class.clone(), format!("close/term took {} ms virtual with LINGER=0 ({}; {} messages of {} bytes accepted)", o.close_virtual_ms, ctxd, o.accepted, c.size)));
      }
    }
    _ => {
      // LINGER = -1 and a connected peer that is reading when close is issued: everything accepted
      // must arrive. (A peer application that only starts reading later is not 'reading'; what the
      // receiving socket does with unread messages when the sender disconnects is not LINGER's business.)
      if c.pair != Pair::PubSub && !c.late_reader && o.received.len() != o.accepted {
        v.push((
          "linger-infinite-lost-messages".into(),
          class.clone(),
          format!("LINGER=-1, peer reading ({}): {} messages of {} bytes accepted before close, {} received", ctxd, o.accepted, c.size, o.received.len()),
        ));
      }
    }
  }
  v
}

fn cells(tier: Tier) -> Vec<Cell> {
  let mut v = vec![];
  for pair in [Pair::PushPull, Pair::DealerRouter, Pair::PubSub] {
    for tr in [Tr::Zmtp(1 << 16), Tr::Zmtp(64), Tr::Inproc] {
      for linger in [-1, 0] {
        for (queued, hwm) in [(0usize, 8), (1, 8), (2, 8), (8, 8), (40, 8), (200, 1000)] {
          for size in [8usize, 300, 70 * 1024] {
            if tier == Tier::Quick && size == 70 * 1024 && queued > 8 {
              continue;
            }
            for late_reader in [false, true] {
              for how in [How::Close, How::Term, How::DropThenTerm] {
                if tr == Tr::Inproc && how != How::Close {
                  continue; // over inproc both sockets share the context: term() would stop the receiver as well
                }
                if tier == Tier::Quick && how == How::DropThenTerm && (queued == 0 || size == 300) {
                  continue;
                }
                v.push(Cell { pair, tr, linger, queued, size, late_reader, how, hwm, stalled: false, small_run: None });
                if linger == 0 && tr != Tr::Inproc && !late_reader && queued > 0 {
                  v.push(Cell { pair, tr, linger, queued, size, late_reader, how, hwm, stalled: true, small_run: None });
                }
              }
            }
          }
        }
      }
    }
  }
  // mixed sizes with an infinite linger: what the session holds in its carry-over when Stop arrives
  for pair in [Pair::PushPull, Pair::DealerRouter] {
    for (queued, hwm) in [(40usize, 1000), (200, 1000)] {
      let mut runs = vec![(0usize, 4usize), (queued / 2, 4)];
      if tier == Tier::Thorough {
        runs.extend([(0, 1), (1, 1), (queued / 2, 1), (queued - 8, 4), (8, 2)]);
      }
      for small_run in runs {
        for how in [How::Close, How::Term] {
          for stalled in [false, true] {
            for size in if tier == Tier::Thorough { vec![64 * 1024usize, 70 * 1024, 20 * 1024] } else { vec![64 * 1024usize] } {
              v.push(Cell { pair, tr: Tr::Zmtp(1 << 16), linger: -1, queued, size, late_reader: false, how, hwm, stalled, small_run: Some(small_run) });
            }
          }
        }
      }
    }
  }
  v
}

pub fn run(tier: Tier) -> Report {
  let mut rep = Report::new("C15", tier, "model_checking");
  rep.assume("LINGER=-1 and LINGER=0 are decided in deterministic worlds (they do not read the real clock); finite LINGER values use std::time::Instant deadlines and are exercised by the real-clock matrix (E4, one execution per cell, margins of seconds)");
  rep.assume("the receiver lives in a separate context (except over inproc) so that terminating the sender's context does not stop it; 'late reader' starts receiving 2 s virtual after close/term was issued");
  let mut list = cells(tier);
  if std::env::var("MC_C15_ONLY_E4").is_ok() {
    list.clear(); // debugging aid: real-clock cells only
  }
  let mut sub = Sub::new("linger-infinite-and-zero", "E3");
  sub.rule = "case = one world per cell: connect, send `queued` messages back-to-back (SNDTIMEO=0, so only accepted ones count), then close()/term()/drop+term while the peer reads eagerly or late; non-trivial = at least one message was queued at close; oracle: LINGER=-1 -> every accepted message is received and close returns; LINGER=0 -> close returns within 1.5 s virtual; always: received is an in-order prefix of accepted, every received message intact".into();
  sub.bounds = json!({"cells": list.len(), "queued": [0, 1, 2, 8, 40, 200], "sizes": [8, 300, 71680], "link_buffer": [64, 65536]});
  par::enumerate(&mut sub, list.len(), |i| {
    let c = list[i];
    let r = run_cell(c);
    let wit = json!({"explorer": "e3", "cell": format!("{:?}", c)});
    let mut case = Case { steps: c.queued as u64 + 4, nontrivial: c.queued > 0, ..Default::default() };
    for p in &r.panics {
      case.violations.push(("panic".into(), p.rsplit(" @ ").next().map(mc_core::short_loc).unwrap_or_default(), p.clone(), wit.clone()));
    }
    if let Some(o) = r.result {
      case.outcome = mc_core::digest(&(o.accepted, o.received.len(), o.close_returned));
      case.state = mc_core::digest(&(format!("{:?}", c), o.accepted, o.received.len()));
      for (clause, class, detail) in judge(&c, &o) {
        case.violations.push((clause, class, detail, wit.clone()));
      }
      if std::env::var("MC_C15_DUMP").is_ok() {
        eprintln!("C15DUMP {:?} -> accepted={} received={} close_ms={} returned={}", c, o.accepted, o.received.len(), o.close_virtual_ms, o.close_returned);
      }
      if i % 211 == 0 {
        case.sample = Some(json!({"cell": format!("{:?}", c), "accepted": o.accepted, "received": o.received.len(), "close_ms_virtual": o.close_virtual_ms}));
      }
    }
    case
  });
  rep.add(sub);
  rep.add(crate::c15_real::finite_sub(tier));
  rep
}

pub fn replay(sub: &str, w: &Value) -> Result<String, String> {
  if w["explorer"] == "e4" {
    return crate::c15_real::replay(w);
  }
  Err(format!("replay of {}: re-run ./check C15 (witness {})", sub, w))
}

#[allow(dead_code)]
fn _u(_: Msg) {
  let _ = msg(b"", false);
}
