//! C07 — no byte stream from a peer can crash rzmq or make it buffer without bound.
//!
//! E1 parts: (a) the three slice/peek decoders and the stateful decoder on header extremes;
//! (b) every single mutation of every valid transcript (v2, v3 NULL/PLAIN static; CURVE/NOISE against
//! a live partner engine) at every position, under three delivery modes and four MAXMSGSIZE values;
//! (c) structural mutations (duplicate/drop/swap commands, invalid UTF-8 metadata, 255/256/257 MORE
//! frames), all 256 byte values at every greeting offset, all 65 536 two-byte frame headers in the
//! data phase; (d) the MAXMSGSIZE contract at the engine.

use crate::common::*;
use crate::engines::*;
use bytes::{Bytes, BytesMut};
use mc_core::par::{self, Case};
use mc_core::{Report, Sub, Tier};
use rzmq::protocol::zmtp::engine::ZmtpPhase;
use rzmq::protocol::zmtp::manual_parser::ZmtpManualParser;
use rzmq::verif::engine::{EngineSpec, Mech};
use serde_json::{json, Value};

const LIMITS: [i64; 4] = [-1, 0, 64, 1 << 20];
const SIZES: [u64; 10] = [0, 1, 64, 65, 255, 256, 1 << 31, 1 << 63, u64::MAX - 8, u64::MAX];

fn panic_violation(c: &mut Case, msg: String, wit: Value) {
  let loc = mc_core::loc_of(&msg);
  c.violations.push(("panic".into(), loc, msg, wit));
}

// ------------------------------------------------------------------------------------------------
// (a) parsers
// ------------------------------------------------------------------------------------------------

fn parsers_sub() -> Sub {
  let mut sub = Sub::new("parsers", "E1");
  sub.rule = "case = (flags byte, announced size, bytes available, MAXMSGSIZE) on decode_frame_from_slice / decode_frame_from_bytes / peek_frame_len / decode_from_buffer; non-trivial = header complete; oracle: no panic, no frame reported before it is complete, size <= limit accepted and size > limit rejected as soon as the header is complete".into();
  let flags: Vec<u8> = (0..=255u8).collect();
  let avail_extra: [usize; 5] = [0, 1, 64, 65, 300];
  sub.bounds = json!({"flags": "all 256", "sizes": SIZES, "available_payload_bytes": avail_extra, "max_msg_size": LIMITS});
  let total = flags.len() * SIZES.len() * avail_extra.len() * LIMITS.len();
  par::enumerate(&mut sub, total, |i| {
    let lim = LIMITS[i % LIMITS.len()];
    let i2 = i / LIMITS.len();
    let extra = avail_extra[i2 % avail_extra.len()];
    let i3 = i2 / avail_extra.len();
    let size = SIZES[i3 % SIZES.len()];
    let fl = flags[i3 / SIZES.len()];
    let long = fl & 0x02 != 0;
    let mut hdr = vec![fl];
    let announced: u64 = if long {
      hdr.extend_from_slice(&size.to_be_bytes());
      size
    } else {
      hdr.push((size & 0xFF) as u8);
      size & 0xFF
    };
    let mut src = hdr.clone();
    src.extend(std::iter::repeat(0xAB).take(extra));
    let wit = json!({"flags": fl, "announced_size": announced, "available_payload": extra, "max_msg_size": lim});
    let mut c = Case { nontrivial: true, evals: 4, steps: 4, ..Default::default() };
    let over_limit = lim >= 0 && announced > lim as u64;
    let complete = (extra as u64) >= announced;
    let p = ZmtpManualParser::new(lim);
    let mut outcome = vec![];
    // the three stateless decoders
    let r1 = mc_core::catch(|| p.decode_frame_from_slice(&src));
    let r2 = mc_core::catch(|| p.decode_frame_from_bytes(&Bytes::from(src.clone())));
    let r3 = mc_core::catch(|| p.peek_frame_len(&src));
    let r4 = mc_core::catch(|| {
      let mut st = ZmtpManualParser::new(lim);
      let mut b = BytesMut::from(&src[..]);
      let r = st.decode_from_buffer(&mut b);
      (r, b.len())
    });
    let mut judge_frame = |name: &str, r: Result<Result<Option<(usize, usize)>, String>, String>, c: &mut Case| match r {
      Err(msg) => panic_violation(c, format!("{}: {}", name, msg), wit.clone()),
      Ok(Err(_e)) => {
        outcome.push(2u8);
        if !over_limit {
          c.violations.push(("valid-frame-rejected".into(), name.into(), format!("size {} within limit {} rejected", announced, lim), wit.clone()));
        }
      }
      Ok(Ok(Some((plen, used)))) => {
        outcome.push(1);
        if over_limit || !complete || plen as u64 != announced || used != hdr.len() + plen {
          c.violations.push(("wrong-frame-reported".into(), name.into(), format!("reported payload {} used {} (announced {}, available {}, over_limit {})", plen, used, announced, extra, over_limit), wit.clone()));
        }
      }
      Ok(Ok(None)) => {
        outcome.push(0);
        if over_limit {
          c.violations.push(("oversize-frame-not-rejected-at-header".into(), name.into(), format!("announced {} > limit {} but decoder keeps waiting", announced, lim), wit.clone()));
        } else if complete {
          c.violations.push(("complete-frame-not-reported".into(), name.into(), format!("announced {} available {}", announced, extra), wit.clone()));
        }
      }
    };
    judge_frame("decode_frame_from_slice", r1.map(|r| r.map(|o| o.map(|(m, u)| (m.size(), u))).map_err(|e| e.to_string())), &mut c);
    judge_frame("decode_frame_from_bytes", r2.map(|r| r.map(|o| o.map(|(m, u)| (m.size(), u))).map_err(|e| e.to_string())), &mut c);
    judge_frame("decode_from_buffer", r4.map(|(r, left)| r.map(|o| o.map(|m| (m.size(), src.len() - left))).map_err(|e| e.to_string())), &mut c);
    match r3 {
      Err(msg) => panic_violation(&mut c, format!("peek_frame_len: {}", msg), wit.clone()),
      Ok(Err(_)) => {
        let overflows = (announced as u128) + hdr.len() as u128 > usize::MAX as u128;
        if !over_limit && !overflows {
          c.violations.push(("valid-frame-rejected".into(), "peek_frame_len".into(), format!("size {} within limit {} rejected", announced, lim), wit.clone()));
        }
      }
      Ok(Ok(Some(n))) => {
        if over_limit || (n as u128) != hdr.len() as u128 + announced as u128 {
          c.violations.push(("wrong-frame-reported".into(), "peek_frame_len".into(), format!("reported total {} for announced {}", n, announced), wit.clone()));
        }
      }
      Ok(Ok(None)) => c.violations.push(("complete-frame-not-reported".into(), "peek_frame_len".into(), "header complete but None".into(), wit.clone())),
    }
    c.outcome = mc_core::digest(&outcome);
    c.state = mc_core::digest(&(long, announced, extra, lim));
    if i % 9973 == 0 {
      c.sample = Some(wit.clone());
    }
    c
  });
  sub
}

// ------------------------------------------------------------------------------------------------
// transcripts
// ------------------------------------------------------------------------------------------------

fn frame(flags: u8, body: &[u8]) -> Vec<u8> {
  let mut out = vec![];
  if body.len() <= 255 {
    out.push(flags);
    out.push(body.len() as u8);
  } else {
    out.push(flags | 0x02);
    out.extend_from_slice(&(body.len() as u64).to_be_bytes());
  }
  out.extend_from_slice(body);
  out
}

fn v3_greeting(mech: &str, as_server: bool) -> Vec<u8> {
  let mut b = vec![0xFF, 0, 0, 0, 0, 0, 0, 0, 0, 0x7F, 3, 0];
  let mut m = [0u8; 20];
  m[..mech.len()].copy_from_slice(mech.as_bytes());
  b.extend_from_slice(&m);
  b.push(as_server as u8);
  b.extend_from_slice(&[0u8; 31]);
  b
}

fn ready(socket_type: &str, identity: Option<&[u8]>) -> Vec<u8> {
  let mut b = b"\x05READY".to_vec();
  b.push(11);
  b.extend_from_slice(b"Socket-Type");
  b.extend_from_slice(&(socket_type.len() as u32).to_be_bytes());
  b.extend_from_slice(socket_type.as_bytes());
  if let Some(id) = identity {
    b.push(8);
    b.extend_from_slice(b"Identity");
    b.extend_from_slice(&(id.len() as u32).to_be_bytes());
    b.extend_from_slice(id);
  }
  frame(0x04, &b)
}

fn data_tail() -> Vec<Vec<u8>> {
  vec![frame(0, b"one"), frame(1, b"two-a"), frame(0, &payload(7, 300)), frame(0x04, b"\x04PING\x00\x05ctx"), frame(0, b"")]
}

/// A static transcript: the byte stream a scripted peer sends to the engine under test, as a list
/// of protocol units (greeting parts, commands, data frames) so that structural mutations can
/// operate on units. Also the local engine spec and role.
#[derive(Clone)]
struct Transcript {
  name: &'static str,
  local: EngineSpec,
  is_server: bool,
  units: Vec<Vec<u8>>,
  /// messages an unmutated run must deliver
  expect_delivered: usize,
}

fn static_transcripts() -> Vec<Transcript> {
  let mut v = vec![];
  // v3 NULL: local PULL listener, peer PUSH connector
  let mut u = vec![v3_greeting("NULL", false), ready("PUSH", Some(b"peer-1"))];
  u.extend(data_tail());
  v.push(Transcript { name: "v3-null-listener", local: spec("PULL", Mech::Null), is_server: true, units: u, expect_delivered: 3 });
  // v3 NULL: local DEALER connector, peer ROUTER listener
  let mut u = vec![v3_greeting("NULL", true), ready("ROUTER", None)];
  u.extend(data_tail());
  v.push(Transcript { name: "v3-null-connector", local: spec("DEALER", Mech::Null), is_server: false, units: u, expect_delivered: 3 });
  // v3 PLAIN: local listener expects user/secret; peer sends HELLO, READY
  let mut hello = b"\x05HELLO".to_vec();
  hello.push(4);
  hello.extend_from_slice(b"user");
  hello.push(6);
  hello.extend_from_slice(b"secret");
  let mut u = vec![v3_greeting("PLAIN", false), frame(0x04, &hello), ready("PUSH", None)];
  u.extend(data_tail());
  v.push(Transcript { name: "v3-plain-listener", local: spec("PULL", mech_for(MechKind::Plain, true, Creds::Good)), is_server: true, units: u, expect_delivered: 3 });
  // v3 PLAIN: local connector; peer sends WELCOME, READY
  let mut u = vec![v3_greeting("PLAIN", true), frame(0x04, b"\x07WELCOME"), ready("PULL", None)];
  u.extend(data_tail());
  v.push(Transcript { name: "v3-plain-connector", local: spec("PUSH", mech_for(MechKind::Plain, false, Creds::Good)), is_server: false, units: u, expect_delivered: 3 });
  // v2: local ROUTER listener, peer DEALER with identity
  let mut u = vec![vec![0xFF, 0, 0, 0, 0, 0, 0, 0, 0, 0x7F], vec![0x01, 5], frame(0, b"v2-id")];
  u.extend(vec![frame(0, b"one"), frame(1, b"two-a"), frame(0, &payload(7, 300)), frame(0, b"")]);
  v.push(Transcript { name: "v2-listener", local: spec("ROUTER", Mech::Null), is_server: true, units: u, expect_delivered: 3 });
  v
}

#[derive(Clone, Copy, Debug)]
enum Delivery {
  AllAtOnce,
  ByteAtATime,
  CutAt(usize),
}

fn feed(s: &mut Side, stream: &[u8], d: Delivery) -> (u64, usize) {
  // returns (steps, max engine buffer length observed after any call)
  let mut maxbuf = 0;
  let mut steps = 0;
  let mut f = |s: &mut Side, chunk: &[u8]| {
    s.feed(chunk);
    steps += 1;
    maxbuf = maxbuf.max(s.eng.buffer_len());
  };
  match d {
    Delivery::AllAtOnce => f(s, stream),
    Delivery::ByteAtATime => {
      for b in stream {
        f(s, &[*b]);
        if s.phase() == ZmtpPhase::Closed {
          break;
        }
      }
    }
    Delivery::CutAt(k) => {
      let k = k.min(stream.len());
      f(s, &stream[..k]);
      if s.phase() != ZmtpPhase::Closed {
        f(s, &stream[k..]);
      }
    }
  }
  (steps, maxbuf)
}

/// Oracle shared by every mutated run: no panic (caller), engine consistent.
fn judge_engine(s: &Side, c: &mut Case, wit: &Value, lim: i64, maxbuf: usize, stream_len: usize, bytewise: bool) {
  // PeerError must go with Closed; Closed must go with an error (this engine never closes silently on input)
  if s.phase() == ZmtpPhase::Closed && !s.errored() {
    c.violations.push(("closed-without-error".into(), "engine".into(), "phase Closed but no PeerError emitted".into(), wit.clone()));
  }
  if s.errored() && s.phase() != ZmtpPhase::Closed {
    c.violations.push(("error-without-close".into(), "engine".into(), format!("PeerError {:?} emitted but phase {:?}", s.first_error(), s.phase()), wit.clone()));
  }
  // delivered messages must respect MAXMSGSIZE
  if lim >= 0 {
    for m in s.delivered() {
      for f in m {
        if f.0.len() as i64 > lim {
          c.violations.push(("oversize-frame-delivered".into(), "engine".into(), format!("frame of {} bytes delivered with MAXMSGSIZE {}", f.0.len(), lim), wit.clone()));
        }
      }
    }
    // buffering bound when bytes arrive one at a time: an incomplete frame never needs more than
    // limit + long header (+ the greeting while still in the greeting phase)
    if bytewise && maxbuf > (lim as usize) + 9 + 64 {
      c.violations.push(("buffer-exceeds-limit".into(), "engine".into(), format!("engine buffered {} bytes with MAXMSGSIZE {} (stream {} bytes)", maxbuf, lim, stream_len), wit.clone()));
    }
  }
}

#[derive(Clone, Debug)]
enum Mutation {
  None,
  SetByte { pos: usize, val: u8 },
  XorByte { pos: usize, mask: u8 },
  Truncate { at: usize },
  /// overwrite the length field of the frame starting at `frame_off` (converted to a long header)
  LongLen { frame_off: usize, hdr: usize, size: u64 },
  ShortLen { frame_off: usize, size: u8 },
}

fn apply(stream: &[u8], m: &Mutation) -> (Vec<u8>, usize) {
  match m {
    Mutation::None => (stream.to_vec(), 0),
    Mutation::SetByte { pos, val } => {
      let mut s = stream.to_vec();
      s[*pos] = *val;
      (s, *pos)
    }
    Mutation::XorByte { pos, mask } => {
      let mut s = stream.to_vec();
      s[*pos] ^= *mask;
      (s, *pos)
    }
    Mutation::Truncate { at } => (stream[..*at].to_vec(), *at),
    Mutation::LongLen { frame_off, hdr, size } => {
      let mut s = stream[..*frame_off].to_vec();
      s.push(stream[*frame_off] | 0x02);
      s.extend_from_slice(&size.to_be_bytes());
      s.extend_from_slice(&stream[*frame_off + *hdr..]);
      (s, *frame_off)
    }
    Mutation::ShortLen { frame_off, size } => {
      let mut s = stream.to_vec();
      if s[*frame_off] & 0x02 == 0 {
        s[*frame_off + 1] = *size;
      }
      (s, *frame_off)
    }
  }
}

fn frame_offsets(t: &Transcript) -> Vec<(usize, usize)> {
  // (offset, header length) of every ZMTP frame unit (units that are not greeting parts)
  let mut out = vec![];
  let mut off = 0;
  for (i, u) in t.units.iter().enumerate() {
    let is_greeting = if t.name.starts_with("v2") { i < 2 } else { i < 1 };
    if !is_greeting {
      let h = if u[0] & 0x02 != 0 { 9 } else { 2 };
      out.push((off, h));
    }
    off += u.len();
  }
  out
}

fn single_mutations(t: &Transcript, stream: &[u8]) -> Vec<Mutation> {
  let mut v = vec![Mutation::None];
  for pos in 0..stream.len() {
    for val in [0x00u8, 0xFF, 0x7F] {
      if stream[pos] != val {
        v.push(Mutation::SetByte { pos, val });
      }
    }
    for mask in [0x01u8, 0x80] {
      v.push(Mutation::XorByte { pos, mask });
    }
    v.push(Mutation::Truncate { at: pos });
  }
  for (off, h) in frame_offsets(t) {
    for size in [0u64, 255, 256, 1 << 31, 1 << 63, u64::MAX] {
      v.push(Mutation::LongLen { frame_off: off, hdr: h, size });
    }
    for size in [0u8, 255] {
      v.push(Mutation::ShortLen { frame_off: off, size });
    }
  }
  v
}

fn static_mutation_sub(tier: Tier) -> Sub {
  let mut sub = Sub::new("mutations-static", "E1");
  sub.rule = "case = (valid transcript, mutation(s), delivery mode, MAXMSGSIZE) fed to one real engine; non-trivial = the mutation lands after the greeting or changes the outcome; oracle: no panic, PeerError iff Closed, nothing over MAXMSGSIZE delivered, bounded buffering; the unmutated transcript must deliver its messages".into();
  let ts = static_transcripts();
  // work list: (transcript idx, mutations)
  let mut work: Vec<(usize, Vec<Mutation>)> = vec![];
  for (ti, t) in ts.iter().enumerate() {
    let stream: Vec<u8> = t.units.concat();
    let singles = single_mutations(t, &stream);
    for m in &singles {
      work.push((ti, vec![m.clone()]));
    }
    if tier == Tier::Thorough && (t.name == "v3-null-listener" || t.name == "v3-plain-listener") {
      // all pairs of byte-level mutations over the handshake part + first data frames (first 140 bytes)
      let lim = stream.len().min(140);
      let bytem: Vec<Mutation> = singles
        .iter()
        .filter(|m| match m {
          Mutation::SetByte { pos, val } => *pos < lim && *val == 0xFF,
          Mutation::XorByte { pos, mask } => *pos < lim && *mask == 0x01,
          _ => false,
        })
        .cloned()
        .collect();
      for i in 0..bytem.len() {
        for j in i + 1..bytem.len() {
          work.push((ti, vec![bytem[i].clone(), bytem[j].clone()]));
        }
      }
    }
  }
  sub.bounds = json!({"transcripts": ts.iter().map(|t| t.name).collect::<Vec<_>>(), "operators": "byte:=00|FF|7F, ^01, ^80, truncate (every position); every frame length field := {0,255,256,2^31,2^63,2^64-1} long / {0,255} short", "pairs": tier.pick("none", "all pairs of {:=FF, ^01} over the first 140 bytes of v3-null-listener and v3-plain-listener"), "delivery": ["all-at-once", "byte-at-a-time", "cut-at-mutation"], "max_msg_size": LIMITS, "work_items": work.len()});
  let total = work.len() * 3 * LIMITS.len();
  par::enumerate(&mut sub, total, |i| {
    let lim = LIMITS[i % LIMITS.len()];
    let i2 = i / LIMITS.len();
    let dmode = i2 % 3;
    let (ti, muts) = &work[i2 / 3];
    let t = &ts[*ti];
    let mut stream: Vec<u8> = t.units.concat();
    let mut mpos = 0;
    for m in muts {
      if let Mutation::Truncate { at } = m {
        if *at > stream.len() {
          continue;
        }
      }
      let (s2, p) = apply(&stream, m);
      stream = s2;
      mpos = p;
    }
    let d = match dmode {
      0 => Delivery::AllAtOnce,
      1 => Delivery::ByteAtATime,
      _ => Delivery::CutAt(mpos),
    };
    let wit = json!({"transcript": t.name, "mutations": format!("{:?}", muts), "delivery": format!("{:?}", d), "max_msg_size": lim});
    let mut c = Case::default();
    let mut sp = t.local.clone();
    sp.max_msg_size = lim;
    match mc_core::catch(|| {
      let mut s = Side::from_spec(t.is_server, &sp);
      let (steps, maxbuf) = feed(&mut s, &stream, d);
      (s, steps, maxbuf)
    }) {
      Ok((s, steps, maxbuf)) => {
        c.steps = steps;
        c.nontrivial = mpos >= 64 || matches!(muts[0], Mutation::None);
        c.outcome = mc_core::digest(&(format!("{:?}", s.phase()), s.delivered().len(), s.errored(), s.completed().is_some()));
        c.state = mc_core::digest(&(format!("{:?}", s.phase()), s.delivered().len(), s.eng.buffer_len().min(16), s.eng.verif_partial_len()));
        judge_engine(&s, &mut c, &wit, lim, maxbuf, stream.len(), dmode == 1);
        if matches!(muts[0], Mutation::None) {
          // positive control: the honest transcript delivers (subject to the limit)
          let expect = if lim < 0 || lim >= 300 { t.expect_delivered } else { 0 };
          if lim < 0 || lim >= 300 {
            if s.delivered().len() != expect || s.errored() {
              c.violations.push(("honest-transcript-not-delivered".into(), t.name.into(), format!("delivered {} (expected {}), error {:?}", s.delivered().len(), expect, s.first_error()), wit.clone()));
            }
          }
        }
        if i % 50_021 == 0 {
          c.sample = Some(json!({"case": wit, "phase": format!("{:?}", s.phase()), "delivered": s.delivered().len(), "error": s.first_error()}));
        }
      }
      Err(msg) => panic_violation(&mut c, msg, wit),
    }
    c
  });
  sub
}

// ------------------------------------------------------------------------------------------------
// live-partner mutations (CURVE / NOISE, both roles): mutate the partner's stream in flight
// ------------------------------------------------------------------------------------------------

#[derive(Clone, Copy, Debug)]
enum Op {
  Set(u8),
  Xor(u8),
  Truncate,
}

/// Runs a pair where `target_is_server` names the engine under test; bytes from the partner are
/// mutated at absolute stream offset `pos` before delivery. After the handshake the partner sends
/// two application messages. Returns the target side.
fn run_live(kind: MechKind, target_is_server: bool, pos: Option<(usize, Op)>, bytewise: bool, lim: i64) -> (Side, usize, u64) {
  let mut cs = spec("PUSH", mech_for(kind, false, Creds::Good));
  let mut ss = spec("PULL", mech_for(kind, true, Creds::Good));
  if target_is_server {
    ss.max_msg_size = lim;
    cs.socket_type = "PUSH".into();
  } else {
    cs.max_msg_size = lim;
    // target is the connector: make it the receiving type
    cs.socket_type = "PULL".into();
    ss.socket_type = "PUSH".into();
  }
  let mut p = Pair::new(&cs, &ss);
  let mut steps = 0u64;
  let mut partner_off = 0usize; // absolute offset in partner->target stream delivered so far
  let mut sent_app = false;
  let mut truncated = false;
  for _round in 0..64 {
    // target -> partner: honest
    if target_is_server {
      let n = p.in_flight_s2c();
      p.deliver_s2c(n);
    } else {
      let n = p.in_flight_c2s();
      p.deliver_c2s(n);
    }
    // partner sends app data once both are in Data
    let partner_data = if target_is_server { p.c.phase() == ZmtpPhase::Data } else { p.s.phase() == ZmtpPhase::Data };
    if partner_data && !sent_app {
      sent_app = true;
      let partner = if target_is_server { &mut p.c } else { &mut p.s };
      for k in 0..2u32 {
        let out = partner.eng.on_app_message(batch_of(&[(payload(k + 1, 40 + 300 * k as usize), false, false)]));
        partner.absorb(out);
      }
    }
    // partner -> target with mutation
    let (stream, delivered): (&Vec<u8>, usize) = if target_is_server { (&p.c.sent, p.c2s) } else { (&p.s.sent, p.s2c) };
    let mut chunk = stream[delivered..].to_vec();
    if chunk.is_empty() || truncated {
      let done = if target_is_server { p.in_flight_s2c() == 0 } else { p.in_flight_c2s() == 0 };
      if done {
        break;
      }
      continue;
    }
    if let Some((mp, op)) = pos {
      if mp >= partner_off && mp < partner_off + chunk.len() {
        let k = mp - partner_off;
        match op {
          Op::Set(v) => chunk[k] = v,
          Op::Xor(m) => chunk[k] ^= m,
          Op::Truncate => {
            chunk.truncate(k);
            truncated = true;
          }
        }
      }
    }
    partner_off += if truncated { 0 } else { chunk.len() };
    // mark as delivered in the pair bookkeeping
    if target_is_server {
      p.c2s = p.c.sent.len();
    } else {
      p.s2c = p.s.sent.len();
    }
    let target = if target_is_server { &mut p.s } else { &mut p.c };
    if bytewise {
      for b in &chunk {
        target.feed(&[*b]);
        steps += 1;
        if target.phase() == ZmtpPhase::Closed {
          break;
        }
      }
    } else {
      target.feed(&chunk);
      steps += 1;
    }
    if target.phase() == ZmtpPhase::Closed {
      break;
    }
  }
  let total_partner = if target_is_server { p.c.sent.len() } else { p.s.sent.len() };
  let t = if target_is_server { p.s } else { p.c };
  (t, total_partner, steps)
}

fn live_mutation_sub(tier: Tier) -> Sub {
  let mut sub = Sub::new("mutations-live-crypto", "E1");
  sub.rule = "case = (CURVE|NOISE|PLAIN, role of the engine under test, one mutation at one absolute offset of the live partner's byte stream incl. two encrypted data messages, delivery mode); non-trivial = mutation lands after the greeting; oracle: no panic, PeerError iff Closed, a mutated handshake/data stream never yields more messages than the honest one".into();
  let mut configs = vec![];
  for kind in [MechKind::Curve, MechKind::Noise, MechKind::Plain] {
    for target_is_server in [true, false] {
      // honest run first: learn the partner stream length
      let (_t, len, _) = run_live(kind, target_is_server, None, false, -1);
      configs.push((kind, target_is_server, len));
    }
  }
  let ops: Vec<Op> = match tier {
    Tier::Quick => vec![Op::Xor(0x01), Op::Set(0xFF), Op::Truncate],
    Tier::Thorough => vec![Op::Xor(0x01), Op::Xor(0x80), Op::Set(0x00), Op::Set(0xFF), Op::Set(0x7F), Op::Truncate],
  };
  let mut work = vec![];
  for (ci, (_k, _s, len)) in configs.iter().enumerate() {
    work.push((ci, None));
    for pos in 0..*len {
      for op in &ops {
        work.push((ci, Some((pos, *op))));
      }
    }
  }
  sub.bounds = json!({"configs": configs.iter().map(|(k, s, l)| format!("{:?}/{}/{}B", k, if *s { "listener" } else { "connector" }, l)).collect::<Vec<_>>(), "operators": format!("{:?}", ops), "delivery": ["all-at-once", "byte-at-a-time"]});
  par::enumerate(&mut sub, work.len() * 2, |i| {
    let bytewise = i % 2 == 1;
    let (ci, m) = work[i / 2];
    let (kind, tsrv, _len) = configs[ci];
    let wit = json!({"mechanism": format!("{:?}", kind), "target": if tsrv { "listener" } else { "connector" }, "mutation": format!("{:?}", m), "bytewise": bytewise});
    let mut c = Case::default();
    match mc_core::catch(|| run_live(kind, tsrv, m, bytewise, -1)) {
      Ok((t, _len, steps)) => {
        c.steps = steps;
        c.nontrivial = m.map(|(p, _)| p >= 64).unwrap_or(true);
        c.outcome = mc_core::digest(&(format!("{:?}", t.phase()), t.delivered().len(), t.errored()));
        c.state = mc_core::digest(&(ci, format!("{:?}", t.phase()), t.delivered().len()));
        judge_engine(&t, &mut c, &wit, -1, 0, 0, false);
        if m.is_none() {
          if t.delivered().len() != 2 || t.errored() {
            c.violations.push(("honest-transcript-not-delivered".into(), format!("{:?}", kind), format!("delivered {} error {:?}", t.delivered().len(), t.first_error()), wit.clone()));
          }
        } else if t.delivered().len() > 2 && kind != MechKind::Plain {
          c.violations.push(("more-delivered-than-sent".into(), format!("{:?}", kind), format!("{} messages delivered", t.delivered().len()), wit.clone()));
        }
        if i % 4999 == 0 {
          c.sample = Some(json!({"case": wit, "phase": format!("{:?}", t.phase()), "delivered": t.delivered().len(), "error": t.first_error()}));
        }
      }
      Err(msg) => panic_violation(&mut c, msg, wit),
    }
    c
  });
  sub
}

// ------------------------------------------------------------------------------------------------
// (c) structural mutations, greeting sweep, two-byte header sweep, MORE floods
// ------------------------------------------------------------------------------------------------

fn structural_sub(tier: Tier) -> Sub {
  let mut sub = Sub::new("structural", "E1");
  sub.rule = "cases: duplicate/drop/swap of adjacent protocol units of each static transcript; every byte value at every greeting offset; every two-byte frame header as the first data-phase bytes; invalid UTF-8 / length extremes in each metadata name and value; 254..257 and 300 MORE frames; oracle as for mutations".into();
  let ts = static_transcripts();
  #[derive(Clone)]
  struct Item {
    name: String,
    local: EngineSpec,
    is_server: bool,
    stream: Vec<u8>,
  }
  let mut items: Vec<Item> = vec![];
  for t in &ts {
    let n = t.units.len();
    for i in 0..n {
      // duplicate unit i
      let mut u = t.units.clone();
      u.insert(i, t.units[i].clone());
      items.push(Item { name: format!("{}:dup[{}]", t.name, i), local: t.local.clone(), is_server: t.is_server, stream: u.concat() });
      // drop unit i
      let mut u = t.units.clone();
      u.remove(i);
      items.push(Item { name: format!("{}:drop[{}]", t.name, i), local: t.local.clone(), is_server: t.is_server, stream: u.concat() });
      // swap i, i+1
      if i + 1 < n {
        let mut u = t.units.clone();
        u.swap(i, i + 1);
        items.push(Item { name: format!("{}:swap[{},{}]", t.name, i, i + 1), local: t.local.clone(), is_server: t.is_server, stream: u.concat() });
      }
    }
  }
  // greeting sweep (v3 NULL listener): every value at every offset, followed by the honest rest
  {
    let t = &ts[0];
    let honest = t.units.concat();
    for off in 0..64 {
      for val in 0..=255u8 {
        if honest[off] == val {
          continue;
        }
        let mut s = honest.clone();
        s[off] = val;
        items.push(Item { name: format!("greeting[{}]:={:#04x}", off, val), local: t.local.clone(), is_server: true, stream: s });
      }
    }
  }
  // two-byte header sweep in the data phase (+ 8 more bytes so a long header is complete, + payload room)
  {
    let t = &ts[0];
    let prefix: Vec<u8> = t.units[..2].concat();
    let step = tier.pick(1usize, 1usize);
    for a in (0..=255u16).step_by(step) {
      for b in 0..=255u16 {
        let mut s = prefix.clone();
        s.push(a as u8);
        s.push(b as u8);
        s.extend_from_slice(&[0x00, 0x00, 0x00, 0x00, 0x00, 0x00, 0x11, 0x22, 0x33, 0x44]);
        items.push(Item { name: format!("data-header[{:#04x},{:#04x}]", a, b), local: t.local.clone(), is_server: true, stream: s });
      }
    }
  }
  // metadata extremes in READY
  {
    let t = &ts[0];
    let g = t.units[0].clone();
    let bodies: Vec<(&str, Vec<u8>)> = vec![
      ("ready-name-invalid-utf8", { let mut b = b"\x05READY".to_vec(); b.push(2); b.extend_from_slice(&[0xC3, 0x28]); b.extend_from_slice(&1u32.to_be_bytes()); b.push(b'x'); b }),
      ("ready-name-len-255-short", { let mut b = b"\x05READY".to_vec(); b.push(255); b.extend_from_slice(b"abc"); b }),
      ("ready-value-len-max", { let mut b = b"\x05READY".to_vec(); b.push(11); b.extend_from_slice(b"Socket-Type"); b.extend_from_slice(&u32::MAX.to_be_bytes()); b.extend_from_slice(b"PUSH"); b }),
      ("ready-value-len-missing", { let mut b = b"\x05READY".to_vec(); b.push(11); b.extend_from_slice(b"Socket-Type"); b.extend_from_slice(&[0, 0]); b }),
      ("ready-empty-name", { let mut b = b"\x05READY".to_vec(); b.push(0); b.extend_from_slice(&0u32.to_be_bytes()); b }),
      ("ready-only-name-len", { let mut b = b"\x05READY".to_vec(); b.push(4); b }),
      ("ready-socket-type-invalid-utf8", { let mut b = b"\x05READY".to_vec(); b.push(11); b.extend_from_slice(b"Socket-Type"); b.extend_from_slice(&2u32.to_be_bytes()); b.extend_from_slice(&[0xFF, 0xFE]); b }),
      ("ready-identity-256", { let mut b = b"\x05READY".to_vec(); b.push(11); b.extend_from_slice(b"Socket-Type"); b.extend_from_slice(&4u32.to_be_bytes()); b.extend_from_slice(b"PUSH"); b.push(8); b.extend_from_slice(b"Identity"); b.extend_from_slice(&256u32.to_be_bytes()); b.extend_from_slice(&[7u8; 256]); b }),
      ("command-empty-body", vec![]),
      ("command-name-len-only", vec![5]),
      ("ping-too-short", b"\x04PING\x00".to_vec()),
      ("ready-with-more-flag", b"\x05READY".to_vec()),
    ];
    for (name, body) in bodies {
      let fl = if name == "ready-with-more-flag" { 0x05 } else { 0x04 };
      let mut s = g.clone();
      s.extend_from_slice(&frame(fl, &body));
      s.extend_from_slice(&frame(0, b"after"));
      items.push(Item { name: name.to_string(), local: t.local.clone(), is_server: true, stream: s });
    }
  }
  // MORE floods in the data phase, v3 and v2
  for (ti, upto) in [(0usize, 2usize), (4, 3)] {
    let t = &ts[ti];
    let prefix: Vec<u8> = t.units[..upto].concat();
    for n in [254usize, 255, 256, 257, 300] {
      let mut s = prefix.clone();
      for _ in 0..n {
        s.extend_from_slice(&frame(1, b"m"));
      }
      s.extend_from_slice(&frame(0, b"last"));
      s.extend_from_slice(&frame(0, b"next-message"));
      items.push(Item { name: format!("{}:{}-more-frames", t.name, n), local: t.local.clone(), is_server: t.is_server, stream: s });
    }
  }
  sub.bounds = json!({"items": items.len(), "delivery": ["all-at-once", "byte-at-a-time"]});
  par::enumerate(&mut sub, items.len() * 2, |i| {
    let it = &items[i / 2];
    let bytewise = i % 2 == 1;
    let wit = json!({"item": it.name, "bytewise": bytewise, "stream_len": it.stream.len()});
    let mut c = Case::default();
    match mc_core::catch(|| {
      let mut s = Side::from_spec(it.is_server, &it.local);
      let (steps, maxbuf) = feed(&mut s, &it.stream, if bytewise { Delivery::ByteAtATime } else { Delivery::AllAtOnce });
      (s, steps, maxbuf)
    }) {
      Ok((s, steps, maxbuf)) => {
        c.steps = steps;
        c.nontrivial = true;
        c.outcome = mc_core::digest(&(format!("{:?}", s.phase()), s.delivered().len().min(4), s.errored()));
        c.state = mc_core::digest(&(format!("{:?}", s.phase()), s.delivered().len(), s.eng.buffer_len().min(32)));
        judge_engine(&s, &mut c, &wit, -1, maxbuf, it.stream.len(), bytewise);
        if it.name.ends_with("-more-frames") {
          // a message with more frames than supported: connection closed or delivered whole — never truncated
          for m in s.delivered() {
            let n: usize = it.name.split(':').nth(1).and_then(|x| x.split('-').next()).and_then(|x| x.parse().ok()).unwrap_or(0);
            if m.len() > 2 && m.len() != n + 1 {
              c.violations.push(("truncated-multipart-delivered".into(), it.name.clone(), format!("{} frames delivered of {}", m.len(), n + 1), wit.clone()));
            }
          }
        }
        if i % 20_011 == 0 {
          c.sample = Some(json!({"case": wit, "phase": format!("{:?}", s.phase()), "delivered": s.delivered().len(), "error": s.first_error()}));
        }
      }
      Err(msg) => panic_violation(&mut c, msg, wit),
    }
    c
  });
  sub
}

// ------------------------------------------------------------------------------------------------
// (d) MAXMSGSIZE contract at the engine
// ------------------------------------------------------------------------------------------------

fn maxmsgsize_sub() -> Sub {
  let mut sub = Sub::new("maxmsgsize", "E1");
  sub.rule = "case = (limit L, frame size in {L-1, L, L+1, 2L+9}, header form, pacing): exactly-L delivered, L+1 rejected when the header completes (before the payload arrives), buffer never exceeds L + header while a frame is incomplete".into();
  let ts = static_transcripts();
  let t = &ts[0];
  let prefix: Vec<u8> = t.units[..2].concat();
  // READY (about 40 bytes) is subject to the limit as well, so limits below that refuse the handshake
  let limits: [i64; 4] = [64, 255, 256, 70_000];
  let mut cases = vec![];
  for &l in &limits {
    for delta in [-1i64, 0, 1, l + 9] {
      let size = l + delta;
      if size < 0 {
        continue;
      }
      for bytewise in [false, true] {
        cases.push((l, size as usize, bytewise));
      }
    }
  }
  sub.bounds = json!({"limits": limits, "cases": cases.len()});
  par::enumerate(&mut sub, cases.len(), |i| {
    let (l, size, bytewise) = cases[i];
    let wit = json!({"max_msg_size": l, "frame_size": size, "bytewise": bytewise});
    let mut c = Case { nontrivial: true, ..Default::default() };
    let mut sp = t.local.clone();
    sp.max_msg_size = l;
    let r = mc_core::catch(|| {
      let mut s = Side::from_spec(true, &sp);
      s.feed(&prefix);
      let body = payload(3, size);
      let fr = frame(0, &body);
      let hdr = if size <= 255 { 2 } else { 9 };
      let mut maxbuf = 0usize;
      let mut rejected_at: Option<usize> = None;
      if bytewise {
        for (k, b) in fr.iter().enumerate() {
          s.feed(&[*b]);
          maxbuf = maxbuf.max(s.eng.buffer_len());
          if s.errored() {
            rejected_at = Some(k + 1);
            break;
          }
        }
      } else {
        s.feed(&fr[..hdr]);
        maxbuf = maxbuf.max(s.eng.buffer_len());
        if s.errored() {
          rejected_at = Some(hdr);
        } else {
          s.feed(&fr[hdr..]);
          if s.errored() {
            rejected_at = Some(fr.len());
          }
        }
      }
      (s, rejected_at, maxbuf, hdr, body)
    });
    match r {
      Ok((s, rejected_at, maxbuf, hdr, body)) => {
        c.outcome = mc_core::digest(&(rejected_at.is_some(), s.delivered().len()));
        c.state = mc_core::digest(&(l, size));
        // READY of the prefix is exempt (handshake), only the data frame counts
        if (size as i64) <= l {
          let ok = s.delivered() == vec![vec![(body, false, false)]] && !s.errored();
          if !ok {
            c.violations.push(("frame-within-limit-not-delivered".into(), format!("L={} size={}", l, size), format!("delivered {} error {:?}", s.delivered().len(), s.first_error()), wit.clone()));
          }
        } else {
          match rejected_at {
            None => c.violations.push(("oversize-frame-not-rejected".into(), format!("L={} size={}", l, size), format!("delivered {}", s.delivered().len()), wit.clone())),
            Some(k) if k > hdr => c.violations.push(("oversize-frame-rejected-late".into(), format!("L={} size={}", l, size), format!("rejected after {} bytes, header is {} bytes", k, hdr), wit.clone())),
            Some(_) => {}
          }
          if !s.delivered().is_empty() {
            c.violations.push(("oversize-frame-delivered".into(), format!("L={} size={}", l, size), "".into(), wit.clone()));
          }
        }
        if bytewise && maxbuf > l as usize + 9 {
          c.violations.push(("buffer-exceeds-limit".into(), format!("L={} size={}", l, size), format!("buffered {}", maxbuf), wit.clone()));
        }
        c.sample = Some(json!({"case": wit, "rejected_at": rejected_at, "delivered": s.delivered().len()}));
      }
      Err(msg) => panic_violation(&mut c, msg, wit),
    }
    c
  });
  sub
}

pub fn run(tier: Tier) -> Report {
  let mut rep = Report::new("C07", tier, "model_checking");
  rep.assume("mutation operators: byte := 00|FF|7F, ^01, ^80, truncate, length-field extremes, unit duplicate/drop/swap; 'arbitrary random bytes' is covered only through these operators plus the exhaustive greeting and two-byte-header sweeps");
  rep.assume("the engine is driven directly (sans-IO); the session actor's handling of what the engine emits (timeouts, slot release, locality) is checked by the stack-level sub-checks");
  rep.add(parsers_sub());
  rep.add(maxmsgsize_sub());
  rep.add(structural_sub(tier));
  rep.add(static_mutation_sub(tier));
  rep.add(live_mutation_sub(tier));
  crate::c07_world::add_world_subs(&mut rep, tier);
  rep
}

pub fn replay(sub: &str, w: &Value) -> Result<String, String> {
  if w["explorer"] == "e3" {
    return crate::c07_world::replay(w);
  }
  Err(format!("replay of {}: re-run ./check C07 (witness {})", sub, w))
}
