//! C03 — ZMTP framing round-trips and is independent of how the stream is cut.
//!
//! Exhaustive enumeration (E1 family) over frame sequences × encoder entry points × decoder entry
//! points × segmentations, executed on the real encoders/decoders, against a reference encoder
//! written from the ZMTP spec.

use crate::common::*;
use bytes::{Bytes, BytesMut};
use mc_core::par::{self, Case};
use mc_core::{Report, Sub, Tier};
use rzmq::protocol::zmtp::manual_parser::ZmtpManualParser;
use rzmq::protocol::zmtp::ZmtpCodec;
use rzmq::verif::framing::{FrameEncoderH, NullFramerH};
use rzmq::FrameBatch;
use serde_json::{json, Value};
use tokio_util_codec::{Decoder, Encoder};

// tokio-util is a dependency of rzmq; re-exported trait paths are the same crate
mod tokio_util_codec {
  pub use tokio_util::codec::{Decoder, Encoder};
}

const LENS: [usize; 9] = [0, 1, 254, 255, 256, 257, 65535, 65536, 65537];
const LENS_SMALL: [usize; 4] = [0, 255, 256, 65536];

#[derive(Clone, Debug)]
struct Seq {
  frames: Vec<(usize, bool, bool)>, // (len, more, command)
}

impl Seq {
  fn specs(&self) -> Vec<FrameSpec> {
    self.frames.iter().enumerate().map(|(i, (l, m, c))| (payload(i as u32 + 1, *l), *m, *c)).collect()
  }
  fn describe(&self) -> Value {
    json!(self.frames.iter().map(|(l, m, c)| format!("len={} more={} cmd={}", l, m, c)).collect::<Vec<_>>())
  }
}

fn sequences(tier: Tier) -> Vec<Seq> {
  let mut one = vec![];
  for &l in &LENS {
    for fl in 0..4 {
      one.push((l, fl & 1 != 0, fl & 2 != 0));
    }
  }
  let mut out: Vec<Seq> = one.iter().map(|f| Seq { frames: vec![*f] }).collect();
  for a in &one {
    for b in &one {
      out.push(Seq { frames: vec![*a, *b] });
    }
  }
  // three frames over the reduced length alphabet (quick: MORE/COMMAND varied on the middle frame only)
  let mut small = vec![];
  for &l in &LENS_SMALL {
    for fl in 0..4 {
      small.push((l, fl & 1 != 0, fl & 2 != 0));
    }
  }
  match tier {
    Tier::Quick => {
      for &la in &[0usize, 256] {
        for b in &small {
          for &lc in &[1usize, 255] {
            out.push(Seq { frames: vec![(la, true, false), *b, (lc, false, false)] });
          }
        }
      }
    }
    Tier::Thorough => {
      for a in &small {
        for b in &small {
          for c in &small {
            out.push(Seq { frames: vec![*a, *b, *c] });
          }
        }
      }
    }
  }
  out
}

fn interesting_cuts(specs: &[FrameSpec]) -> Vec<usize> {
  let mut pos = vec![];
  let mut off = 0usize;
  for (d, _, _) in specs {
    let h = if d.len() <= 255 { 2 } else { 9 };
    let end = off + h + d.len();
    for p in [off, off + 1, off + h - 1, off + h, off + h + 1, off + h + d.len() / 2, end.saturating_sub(1)] {
      pos.push(p);
    }
    if h == 9 {
      pos.push(off + 4);
      pos.push(off + 8);
    }
    off = end;
  }
  pos.sort_unstable();
  pos.dedup();
  pos.retain(|&p| p > 0 && p < off);
  pos
}

fn segmentations(n: usize, cuts: &[usize], pairs: bool) -> Vec<Vec<usize>> {
  let mut out: Vec<Vec<usize>> = vec![vec![]];
  if n <= 16 {
    for mask in 1..(1usize << (n - 1)) {
      out.push((1..n).filter(|i| mask & (1 << (i - 1)) != 0).collect());
    }
    return out;
  }
  for &c in cuts {
    out.push(vec![c]);
  }
  if pairs {
    for i in 0..cuts.len() {
      for j in i + 1..cuts.len() {
        out.push(vec![cuts[i], cuts[j]]);
      }
    }
  }
  out
}

/// header regions one byte at a time, payloads in one piece
fn headers_bytewise(specs: &[FrameSpec]) -> Vec<usize> {
  let mut cuts = vec![];
  let mut off = 0;
  for (d, _, _) in specs {
    let h = if d.len() <= 255 { 2 } else { 9 };
    for k in 1..=h {
      cuts.push(off + k);
    }
    off += h + d.len();
    cuts.push(off);
  }
  cuts.retain(|&c| c > 0 && c < off);
  cuts
}

type V = (String, String, String, Value);

fn encoders(seq: &Seq, specs: &[FrameSpec], want: &[u8], evals: &mut u64, viol: &mut Vec<V>) {
  let mut cmp = |name: &str, got: Result<Vec<u8>, String>| {
    *evals += 1;
    match got {
      Ok(g) if g == want => {}
      Ok(g) => {
        let first = g.iter().zip(want.iter()).position(|(a, b)| a != b).unwrap_or(g.len().min(want.len()));
        let cmd = specs.iter().any(|s| s.2);
        viol.push((
          "encoder-bytes-differ-from-spec".into(),
          format!("{}{}", name, if cmd { ":command-flag" } else { "" }),
          format!("{} produced {} bytes, spec {} bytes; first difference at {}: got {} want {}", name, g.len(), want.len(), first, hex(&g[first.min(g.len())..]), hex(&want[first.min(want.len())..])),
          json!({"frames": seq.describe(), "encoder": name}),
        ));
      }
      Err(e) => viol.push(("encoder-error".into(), name.into(), e, json!({"frames": seq.describe(), "encoder": name}))),
    }
  };

  // ZmtpCodec::encode, frame by frame
  cmp("codec.encode", {
    let mut c = ZmtpCodec::new();
    let mut dst = BytesMut::new();
    let mut r = Ok(());
    for s in specs {
      if let Err(e) = c.encode(msg(s.0.clone(), s.1, s.2), &mut dst) {
        r = Err(e.to_string());
      }
    }
    r.map(|_| dst.to_vec())
  });
  // header-only + payload
  cmp("codec.encode_header_only+payload", {
    let c = ZmtpCodec::new();
    let mut dst = BytesMut::new();
    let mut r = Ok(());
    for s in specs {
      let m = msg(s.0.clone(), s.1, s.2);
      if let Err(e) = c.encode_header_only(&m, &mut dst) {
        r = Err(e.to_string());
      }
      dst.extend_from_slice(&s.0);
    }
    r.map(|_| dst.to_vec())
  });
  // contiguous / vectored / framer batch, every grouping into logical messages
  for groups in compositions(specs.len()) {
    let mut batches: Vec<FrameBatch> = vec![];
    let mut i = 0;
    for g in &groups {
      batches.push(batch_of(&specs[i..i + g]));
      i += g;
    }
    let tag = format!("groups={:?}", groups);
    let _ = tag;
    cmp("encoder.frame_contiguous", FrameEncoderH::new(16, 16).frame_contiguous(&batches).map(|b| b.to_vec()).map_err(|e| e.to_string()));
    cmp(
      "encoder.frame_vectored",
      FrameEncoderH::new(16, 16).frame_vectored(&batches).map(|v| v.iter().flat_map(|b| b.to_vec()).collect()).map_err(|e| e.to_string()),
    );
    cmp("nullframer.write_msg_batch", NullFramerH::new(-1, 4, 4096).write_msg_batch(&batches).map(|b| b.to_vec()).map_err(|e| e.to_string()));
    cmp(
      "nullframer.frame_vectored",
      NullFramerH::new(-1, 4, 4096).frame_vectored(&batches).map(|v| v.iter().flat_map(|b| b.to_vec()).collect()).map_err(|e| e.to_string()),
    );
    // engine entry points (fresh engine: NullFramer active)
    let cfg = rzmq::verif::engine::config(&rzmq::verif::engine::EngineSpec::default());
    let mut eng = rzmq::verif::engine::new_engine(false, &cfg);
    cmp("engine.frame_batch", eng.frame_batch(&batches).map(|b| b.to_vec()).map_err(|e| e.to_string()));
    cmp(
      "engine.frame_batch_vectored",
      eng.frame_batch_vectored(&batches).map(|v| v.iter().flat_map(|b| b.to_vec()).collect()).map_err(|e| e.to_string()),
    );
    if groups.len() == 1 {
      cmp("nullframer.write_msg_multipart", NullFramerH::new(-1, 4, 4096).write_msg_multipart(batches[0].clone()).map(|b| b.to_vec()).map_err(|e| e.to_string()));
      cmp("engine.frame_msgs", eng.frame_msgs(batches[0].clone()).map(|b| b.to_vec()).map_err(|e| e.to_string()));
    }
  }
  // split header/payload per frame
  cmp("nullframer.write_msg_split", {
    let mut f = NullFramerH::new(-1, 4, 4096);
    let mut out = vec![];
    let mut r = Ok(());
    for s in specs {
      match f.write_msg_split(msg(s.0.clone(), s.1, s.2)) {
        Ok((h, p)) => {
          out.extend_from_slice(&h);
          if let Some(p) = p {
            out.extend_from_slice(&p);
          }
        }
        Err(e) => r = Err(e.to_string()),
      }
    }
    r.map(|_| out)
  });
}

#[derive(Clone, Copy, Debug)]
enum Dec {
  Codec,
  Manual,
  NullFramer,
  NullFramerBytes,
}

fn run_stateful(dec: Dec, chunks: &[Vec<u8>]) -> Result<Vec<FrameSpec>, String> {
  let mut out = vec![];
  let mut buf = BytesMut::new();
  match dec {
    Dec::Codec => {
      let mut c = ZmtpCodec::new();
      for ch in chunks {
        buf.extend_from_slice(ch);
        while let Some(m) = c.decode(&mut buf).map_err(|e| e.to_string())? {
          out.push(spec_of(&m));
        }
      }
    }
    Dec::Manual => {
      let mut p = ZmtpManualParser::new(-1);
      for ch in chunks {
        buf.extend_from_slice(ch);
        while let Some(m) = p.decode_from_buffer(&mut buf).map_err(|e| e.to_string())? {
          out.push(spec_of(&m));
        }
      }
    }
    Dec::NullFramer => {
      let mut f = NullFramerH::new(-1, 4, 4096);
      for ch in chunks {
        buf.extend_from_slice(ch);
        while let Some(m) = f.try_read_msg(&mut buf).map_err(|e| e.to_string())? {
          out.push(spec_of(&m));
        }
      }
    }
    Dec::NullFramerBytes => {
      let mut f = NullFramerH::new(-1, 4, 4096);
      for ch in chunks {
        for m in f.try_read_msgs_from_bytes(Bytes::from(ch.clone()), &mut buf).map_err(|e| e.to_string())? {
          out.push(spec_of(&m));
        }
      }
    }
  }
  if !buf.is_empty() {
    return Err(format!("{} undecoded bytes left after the complete stream", buf.len()));
  }
  Ok(out)
}

/// Stateless decoders on every available-length prefix at the cut positions: never report a frame
/// before it is complete, report exactly the right frame once it is.
fn run_stateless(specs: &[FrameSpec], bytes: &[u8], avail: &[usize], evals: &mut u64, viol: &mut Vec<V>, seq: &Seq) {
  let p = ZmtpManualParser::new(-1);
  let mut off = 0usize;
  for (fi, s) in specs.iter().enumerate() {
    let h = if s.0.len() <= 255 { 2 } else { 9 };
    let total = h + s.0.len();
    let rest = &bytes[off..];
    let mut lens: Vec<usize> = avail.iter().filter(|&&a| a > off).map(|&a| (a - off).min(rest.len())).collect();
    lens.extend([0, 1, h - 1, h, total - 1, total, rest.len()].iter().filter(|&&x| x <= rest.len()));
    lens.sort_unstable();
    lens.dedup();
    for l in lens {
      let view = &rest[..l];
      *evals += 3;
      let want_frame = l >= total;
      let bad = |what: &str, detail: String, viol: &mut Vec<V>| {
        viol.push((
          "stateless-decoder-wrong".into(),
          what.into(),
          detail,
          json!({"frames": seq.describe(), "frame_index": fi, "available": l, "frame_total": total}),
        ));
      };
      match p.decode_frame_from_slice(view) {
        Ok(Some((m, used))) => {
          if !want_frame || used != total || spec_of(&m) != *s {
            bad("decode_frame_from_slice", format!("available={} total={} returned used={} frame_ok={}", l, total, used, spec_of(&m) == *s), viol);
          }
        }
        Ok(None) => {
          if want_frame {
            bad("decode_frame_from_slice", format!("complete frame available ({} >= {}) but None", l, total), viol);
          }
        }
        Err(e) => bad("decode_frame_from_slice", e.to_string(), viol),
      }
      let b = Bytes::copy_from_slice(view);
      match p.decode_frame_from_bytes(&b) {
        Ok(Some((m, used))) => {
          if !want_frame || used != total || spec_of(&m) != *s {
            bad("decode_frame_from_bytes", format!("available={} total={} returned used={}", l, total, used), viol);
          }
        }
        Ok(None) => {
          if want_frame {
            bad("decode_frame_from_bytes", format!("complete frame available ({} >= {}) but None", l, total), viol);
          }
        }
        Err(e) => bad("decode_frame_from_bytes", e.to_string(), viol),
      }
      match p.peek_frame_len(view) {
        Ok(Some(n)) => {
          if l < h || n != total {
            bad("peek_frame_len", format!("available={} header={} returned {} want {}", l, h, n, total), viol);
          }
        }
        Ok(None) => {
          if l >= h {
            bad("peek_frame_len", format!("header complete ({} >= {}) but None", l, h), viol);
          }
        }
        Err(e) => bad("peek_frame_len", e.to_string(), viol),
      }
    }
    off += total;
  }
}

fn one_sequence(seq: &Seq, tier: Tier) -> Case {
  let specs = seq.specs();
  let want = spec_encode(&specs);
  let mut evals = 0u64;
  let mut viol: Vec<V> = vec![];
  let mut states = vec![];

  encoders(seq, &specs, &want, &mut evals, &mut viol);

  let cuts = interesting_cuts(&specs);
  let pairs = match tier {
    Tier::Quick => want.len() <= 2048,
    Tier::Thorough => true,
  };
  let mut segs = segmentations(want.len(), &cuts, pairs);
  segs.push(headers_bytewise(&specs));
  let mut steps = 0u64;
  for sg in &segs {
    let chunks = cut(&want, sg);
    steps += chunks.len() as u64;
    for dec in [Dec::Codec, Dec::Manual, Dec::NullFramer, Dec::NullFramerBytes] {
      evals += 1;
      match run_stateful(dec, &chunks) {
        Ok(got) if got == specs => {}
        Ok(got) => viol.push((
          "decoded-sequence-differs".into(),
          format!("{:?}", dec),
          format!("decoded {} frames, expected {}; cuts {:?}", got.len(), specs.len(), sg),
          json!({"frames": seq.describe(), "decoder": format!("{:?}", dec), "cuts": sg}),
        )),
        Err(e) => viol.push((
          "decoder-error-on-valid-stream".into(),
          format!("{:?}", dec),
          format!("{} ; cuts {:?}", e, sg),
          json!({"frames": seq.describe(), "decoder": format!("{:?}", dec), "cuts": sg}),
        )),
      }
    }
    states.push(mc_core::digest(&(sg, want.len())));
  }
  // codec primed with a prefix at every split of the first header
  let h0 = if specs[0].0.len() <= 255 { 2 } else { 9 };
  for k in 1..=h0.min(want.len()) {
    evals += 1;
    let mut c = ZmtpCodec::new();
    c.prime_with_prefix(BytesMut::from(&want[..k]));
    let mut buf = BytesMut::from(&want[k..]);
    let mut got = vec![];
    let mut err = None;
    loop {
      match c.decode(&mut buf) {
        Ok(Some(m)) => got.push(spec_of(&m)),
        Ok(None) => break,
        Err(e) => {
          err = Some(e.to_string());
          break;
        }
      }
    }
    if err.is_some() || got != specs {
      viol.push((
        "decoded-sequence-differs".into(),
        "codec.primed-prefix".into(),
        format!("prefix of {} bytes: decoded {} frames (expected {}), err {:?}", k, got.len(), specs.len(), err),
        json!({"frames": seq.describe(), "decoder": "codec.primed", "prefix_len": k}),
      ));
    }
  }
  run_stateless(&specs, &want, &cuts, &mut evals, &mut viol, seq);

  Case {
    nontrivial: specs.len() > 1 || specs[0].0.len() > 0,
    outcome: mc_core::digest(&(want.len(), specs.len())),
    state: mc_core::digest(&want),
    steps,
    evals,
    more_states: states,
    violations: viol,
    sample: Some(json!({"frames": seq.describe(), "wire_bytes": want.len(), "segmentations": segs.len()})),
  }
}

pub fn run(tier: Tier) -> Report {
  let mut rep = Report::new("C03", tier, "model_checking");
  rep.assume("payload contents are a fixed pattern per (frame index, length); lengths and flags are what the framing logic branches on");
  rep.assume("streams longer than 16 bytes: every single cut and every pair of cuts from the boundary set {frame start, +1, header end -1/0/+1, long-header bytes 4 and 8, mid-payload, frame end -1} plus header-bytewise; streams of at most 16 bytes: all 2^(n-1) segmentations");
  let seqs = sequences(tier);
  let mut sub = Sub::new("roundtrip", "E1");
  sub.rule = "case = one frame sequence; an evaluation = one encoder run compared with the spec bytes, or one decoder run over one segmentation; non-trivial = more than one frame or a non-empty payload; states = distinct (segmentation, stream) pairs".into();
  sub.bounds = json!({"lengths": LENS, "lengths_3frames": LENS_SMALL, "frames_per_sequence": "1..3", "sequences": seqs.len(), "flags": "all 4 MORE/COMMAND combinations per frame", "pair_cuts": tier.pick("streams <= 2048 bytes", "all streams")});
  par::enumerate(&mut sub, seqs.len(), |i| one_sequence(&seqs[i], tier));
  rep.add(sub);
  rep
}

pub fn replay(_sub: &str, w: &Value) -> Result<String, String> {
  // witness: {"frames": ["len=.. more=.. cmd=.."], ...}
  let mut frames = vec![];
  for f in w["frames"].as_array().ok_or("bad witness")? {
    let s = f.as_str().unwrap_or("");
    let get = |k: &str| s.split_whitespace().find_map(|p| p.strip_prefix(k)).unwrap_or("").to_string();
    frames.push((get("len=").parse::<usize>().map_err(|e| e.to_string())?, get("more=") == "true", get("cmd=") == "true"));
  }
  let c = one_sequence(&Seq { frames }, Tier::Thorough);
  if c.violations.is_empty() {
    Ok("all encoders/decoders agree".into())
  } else {
    Err(c.violations.iter().map(|v| format!("{}/{}: {}", v.0, v.1, v.2)).collect::<Vec<_>>().join("; "))
  }
}
