//! C18 — encrypted connections keep data secret, detect tampering, and stay decodable.
//!
//! E1 on two real engines per case (fresh handshake each time: ephemeral keys differ per run):
//! size/batch sweeps through the real record layer, heartbeats on encrypted sessions, every single
//! (thorough: double) mutation of the captured ciphertext stream, and session-to-session ciphertext
//! comparison.

use crate::common::*;
use crate::engines::*;
use mc_core::par::{self, Case};
use mc_core::{Report, Sub, Tier};
use rzmq::protocol::zmtp::engine::ZmtpPhase;
use rzmq::FrameBatch;
use serde_json::{json, Value};
use std::time::{Duration, Instant};

const MARKER: &[u8] = b"SECRET-MARKER-0123456789-SECRET";

fn marked_payload(tag: u32, len: usize) -> Vec<u8> {
  let mut v = payload(tag, len);
  if len >= MARKER.len() {
    v[..MARKER.len()].copy_from_slice(MARKER);
  }
  v
}

fn contains(hay: &[u8], needle: &[u8]) -> bool {
  hay.windows(needle.len()).any(|w| w == needle)
}

/// Handshake a fresh pair for `kind`. `a_is_client` selects which side is the sender "A".
fn fresh(kind: MechKind, hb: Option<(Duration, Duration)>) -> Pair {
  let mut c = spec("DEALER", mech_for(kind, false, Creds::Good));
  let mut s = spec("ROUTER", mech_for(kind, true, Creds::Good));
  if let Some((ivl, to)) = hb {
    c.heartbeat_ivl = Some(ivl);
    c.heartbeat_timeout = Some(to);
    s.heartbeat_ivl = Some(ivl);
    s.heartbeat_timeout = Some(to);
  }
  let mut p = Pair::new(&c, &s);
  p.run_to_quiescence();
  assert!(p.both_data(), "honest {:?} handshake failed: {:?} {:?}", kind, p.c.first_error(), p.s.first_error());
  p
}

fn sides(p: &mut Pair, from_client: bool) -> (&mut Side, &mut Side) {
  if from_client {
    (&mut p.c, &mut p.s)
  } else {
    (&mut p.s, &mut p.c)
  }
}

#[derive(Clone, Debug)]
enum SendOp {
  /// one logical message via engine.on_app_message (frames given by sizes; MORE set on all but last)
  App(Vec<usize>),
  /// a batch of logical messages via engine.frame_batch (what the session actor does)
  Batch(Vec<Vec<usize>>),
  /// the vectored path
  BatchVectored(Vec<Vec<usize>>),
}

fn mk_msg(tag: u32, sizes: &[usize]) -> (FrameBatch, Vec<FrameSpec>) {
  let mut specs = vec![];
  for (i, &l) in sizes.iter().enumerate() {
    specs.push((marked_payload(tag * 16 + i as u32, l), i + 1 < sizes.len(), false));
  }
  (batch_of(&specs), specs)
}

/// Executes send ops on the sender; returns (wire bytes emitted in data phase, expected messages, sender errors).
fn do_sends(sender: &mut Side, ops: &[SendOp]) -> (Vec<u8>, Vec<Vec<FrameSpec>>, Vec<String>) {
  let start = sender.sent.len();
  let mut expect = vec![];
  let mut errs = vec![];
  let mut tag = 1u32;
  for op in ops {
    match op {
      SendOp::App(sizes) => {
        let (b, sp) = mk_msg(tag, sizes);
        tag += 1;
        let before = sender.sent.len();
        let nerr = sender.events.len();
        let out = sender.eng.on_app_message(b);
        sender.absorb(out);
        if sender.events.len() > nerr {
          errs.push(format!("on_app_message error: {:?}", sender.events.last()));
          if sender.sent.len() != before {
            errs.push("ERROR-AND-BYTES".into());
          }
        } else {
          expect.push(sp);
        }
      }
      SendOp::Batch(msgs) | SendOp::BatchVectored(msgs) => {
        let mut batches = vec![];
        let mut sps = vec![];
        for sizes in msgs {
          let (b, sp) = mk_msg(tag, sizes);
          tag += 1;
          batches.push(b);
          sps.push(sp);
        }
        let r = if matches!(op, SendOp::Batch(_)) {
          sender.eng.frame_batch(&batches).map(|b| b.to_vec())
        } else {
          sender.eng.frame_batch_vectored(&batches).map(|v| v.iter().flat_map(|b| b.to_vec()).collect())
        };
        match r {
          Ok(bytes) => {
            sender.sent.extend_from_slice(&bytes);
            expect.extend(sps);
          }
          Err(e) => errs.push(format!("frame_batch error: {}", e)),
        }
      }
    }
  }
  (sender.sent[start..].to_vec(), expect, errs)
}

fn size_ops(tier: Tier) -> Vec<(String, Vec<SendOp>)> {
  let sizes: Vec<usize> = match tier {
    Tier::Quick => vec![0, 1, 255, 256, 65_503, 65_519, 65_520, 65_536, 70_000],
    Tier::Thorough => vec![0, 1, 255, 256, 65_500, 65_503, 65_504, 65_517, 65_518, 65_519, 65_520, 65_521, 65_535, 65_536, 70_000, 200_000],
  };
  let mut v = vec![];
  for &a in &sizes {
    v.push((format!("app[{}]", a), vec![SendOp::App(vec![a])]));
    v.push((format!("batch[[{}]]", a), vec![SendOp::Batch(vec![vec![a]])]));
    v.push((format!("vectored[[{}]]", a), vec![SendOp::BatchVectored(vec![vec![a]])]));
    v.push((format!("app[{},5]+app[7]", a), vec![SendOp::App(vec![a, 5]), SendOp::App(vec![7])]));
  }
  // sequences of up to 3 messages over a reduced alphabet
  let small: Vec<usize> = vec![0, 256, 40_000];
  for &a in &small {
    for &b in &small {
      v.push((format!("batch[[{}],[{}]]", a, b), vec![SendOp::Batch(vec![vec![a], vec![b]])]));
      v.push((format!("app[{}],app[{}]", a, b), vec![SendOp::App(vec![a]), SendOp::App(vec![b])]));
      if tier == Tier::Thorough {
        for &c in &small {
          v.push((format!("batch[[{}],[{}],[{}]]", a, b, c), vec![SendOp::Batch(vec![vec![a], vec![b], vec![c]])]));
        }
      }
    }
  }
  // a frame header straddling a record boundary: the first frame's size sweeps every position of the
  // second frame's (2-byte short / 9-byte long) header across the end of the 1st (2nd, 3rd) record
  let rec = 65_519usize;
  let boundaries: Vec<usize> = if tier == Tier::Thorough { vec![1, 2, 3] } else { vec![1] };
  for nrec in boundaries {
    for k in 0..=18usize {
      let a = nrec * rec + 4 - 9 - k; // encoded first frame ends 4 bytes past .. 14 bytes before the boundary
      for second in [5usize, 300] {
        v.push((format!("app[{},{}]+app[7] (header sweep)", a, second), vec![SendOp::App(vec![a, second]), SendOp::App(vec![7])]));
        v.push((format!("batch[[{}],[{}]]+app[7] (header sweep)", a, second), vec![SendOp::Batch(vec![vec![a], vec![second]]), SendOp::App(vec![7])]));
        if second == 300 || tier == Tier::Thorough {
          v.push((format!("vectored[[{}],[{}]]+app[7] (header sweep)", a, second), vec![SendOp::BatchVectored(vec![vec![a], vec![second]]), SendOp::App(vec![7])]));
        }
      }
    }
  }
  // batches of small messages whose total crosses 64 KiB
  v.push(("batch[70x1000]".into(), vec![SendOp::Batch((0..70).map(|_| vec![1000]).collect())]));
  v.push(("batch[3x30000]".into(), vec![SendOp::Batch(vec![vec![30_000], vec![30_000], vec![30_000]])]));
  v.push(("vectored[3x30000]".into(), vec![SendOp::BatchVectored(vec![vec![30_000], vec![30_000], vec![30_000]])]));
  v.push(("batch[128x600]".into(), vec![SendOp::Batch((0..128).map(|_| vec![600]).collect())]));
  v.push(("batch[multipart 3x25000]".into(), vec![SendOp::Batch(vec![vec![25_000, 25_000, 25_000]])]));
  v
}

fn sizes_sub(tier: Tier) -> Sub {
  let mut sub = Sub::new("decodable", "E1");
  sub.rule = "case = (mechanism, direction, send operations) on a freshly handshaken real engine pair; non-trivial = at least one record crossed; oracle: receiver delivers exactly what the sender accepted, or the sender returned an error without emitting bytes; no payload marker on the wire".into();
  let ops = size_ops(tier);
  let kinds = [MechKind::Curve, MechKind::Noise];
  sub.bounds = json!({"mechanisms": ["CURVE", "NOISE_XX"], "directions": 2, "operation_lists": ops.len()});
  par::enumerate(&mut sub, ops.len() * 4, |i| {
    let (name, oplist) = &ops[i / 4];
    let kind = kinds[(i % 4) / 2];
    let from_client = i % 2 == 0;
    let wit = json!({"mechanism": format!("{:?}", kind), "from": if from_client { "connector" } else { "listener" }, "ops": name});
    let mut c = Case::default();
    match mc_core::catch(|| {
      let mut p = fresh(kind, None);
      let (snd, rcv) = sides(&mut p, from_client);
      let (wire, expect, errs) = do_sends(snd, oplist);
      rcv.feed(&wire);
      (wire, expect, errs, rcv.delivered(), rcv.first_error(), rcv.phase())
    }) {
      Ok((wire, expect, errs, got, rerr, _ph)) => {
        c.nontrivial = !wire.is_empty();
        c.steps = 1;
        c.outcome = mc_core::digest(&(errs.len(), got.len(), rerr.is_some()));
        c.state = mc_core::digest(&(i / 4, wire.len()));
        let class = format!("{:?}:{}", kind, name.split('[').next().unwrap_or(""));
        if errs.iter().any(|e| e == "ERROR-AND-BYTES") {
          c.violations.push(("sender-error-after-emitting".into(), class.clone(), format!("{:?}", errs), wit.clone()));
        }
        if got != expect {
          c.violations.push((
            "accepted-batch-not-decodable".into(),
            class.clone(),
            format!("sender accepted {} message(s) ({} wire bytes, sender errors {:?}); receiver delivered {} and reported {:?}", expect.len(), wire.len(), errs, got.len(), rerr),
            wit.clone(),
          ));
        } else if rerr.is_some() {
          c.violations.push(("receiver-error-on-honest-stream".into(), class.clone(), format!("{:?}", rerr), wit.clone()));
        }
        if contains(&wire, MARKER) {
          c.violations.push(("plaintext-on-wire".into(), class, "payload marker found in data-phase wire bytes".into(), wit.clone()));
        }
        if i % 37 == 0 {
          c.sample = Some(json!({"case": wit, "wire_bytes": wire.len(), "delivered": got.len(), "sender_errors": errs}));
        }
      }
      Err(msg) => c.violations.push(("panic".into(), mc_core::loc_of(&msg), msg, wit)),
    }
    c
  });
  sub
}

fn heartbeat_sub() -> Sub {
  let mut sub = Sub::new("heartbeat-under-encryption", "E1");
  sub.rule = "case = (mechanism, who pings, traffic before/after the PING): a PING emitted by on_tick on an encrypted session must be decodable by the peer (answered by PONG, no error), and traffic after it must still be delivered".into();
  let mut cases = vec![];
  for kind in [MechKind::Curve, MechKind::Noise, MechKind::Null, MechKind::Plain] {
    for from_client in [true, false] {
      for before in [0usize, 1] {
        for after in [1usize, 2] {
          cases.push((kind, from_client, before, after));
        }
      }
    }
  }
  sub.bounds = json!({"cases": cases.len()});
  par::enumerate(&mut sub, cases.len(), |i| {
    let (kind, from_client, before, after) = cases[i];
    let wit = json!({"mechanism": format!("{:?}", kind), "pinger": if from_client { "connector" } else { "listener" }, "messages_before": before, "messages_after": after});
    let mut c = Case { nontrivial: true, ..Default::default() };
    match mc_core::catch(|| {
      let mut p = fresh(kind, Some((Duration::from_millis(100), Duration::from_millis(100))));
      let (a, b) = sides(&mut p, from_client);
      let mut expect = vec![];
      let ops: Vec<SendOp> = (0..before).map(|_| SendOp::App(vec![40])).collect();
      let (w, e, _) = do_sends(a, &ops);
      b.feed(&w);
      expect.extend(e);
      // tick far enough in the future that the engine is idle >= ivl
      let start = a.sent.len();
      let out = a.eng.on_tick(Instant::now() + Duration::from_secs(1));
      a.absorb(out);
      let ping = a.sent[start..].to_vec();
      let b_sent_before = b.sent.len();
      b.feed(&ping);
      let pong = b.sent[b_sent_before..].to_vec();
      a.feed(&pong);
      let waiting_after_pong = a.eng.is_waiting_for_pong();
      // traffic after the heartbeat
      let ops: Vec<SendOp> = (0..after).map(|_| SendOp::App(vec![300])).collect();
      let (w, e, _) = do_sends(a, &ops);
      b.feed(&w);
      expect.extend(e);
      let mut tags = 100;
      let _ = &mut tags;
      (ping.len(), pong.len(), waiting_after_pong, expect, b.delivered(), b.first_error(), a.first_error(), contains(&ping, b"PING"))
    }) {
      Ok((ping, pong, waiting, expect, got, berr, aerr, ping_plain)) => {
        c.outcome = mc_core::digest(&(ping > 0, pong > 0, waiting, berr.is_some()));
        c.state = mc_core::digest(&i);
        let class = format!("{:?}", kind);
        if ping == 0 {
          c.violations.push(("no-ping-emitted".into(), class.clone(), "on_tick produced no PING".into(), wit.clone()));
        } else {
          if berr.is_some() || aerr.is_some() {
            c.violations.push(("heartbeat-breaks-session".into(), class.clone(), format!("peer error {:?}, pinger error {:?}", berr, aerr), wit.clone()));
          }
          if pong == 0 || waiting {
            c.violations.push(("ping-not-answered".into(), class.clone(), format!("pong bytes {}, still waiting {}", pong, waiting), wit.clone()));
          }
          if got.len() != expect.len() || got.iter().zip(expect.iter()).any(|(g, e)| g.len() != e.len() || g[0].0.len() != e[0].0.len()) {
            c.violations.push(("traffic-lost-after-heartbeat".into(), class.clone(), format!("expected {} messages, delivered {}", expect.len(), got.len()), wit.clone()));
          }
          if ping_plain && (kind == MechKind::Curve || kind == MechKind::Noise) {
            c.violations.push(("heartbeat-outside-record-layer".into(), class, "PING is sent in clear, outside the encrypted record layer".into(), wit.clone()));
          }
        }
        c.sample = Some(json!({"case": wit, "ping_bytes": ping, "pong_bytes": pong}));
      }
      Err(msg) => c.violations.push(("panic".into(), mc_core::loc_of(&msg), msg, wit)),
    }
    c
  });
  sub
}

/// Split a length-prefixed record stream into records (2-byte BE length + body).
fn records(wire: &[u8]) -> Vec<(usize, usize)> {
  let mut out = vec![];
  let mut off = 0;
  while off + 2 <= wire.len() {
    let l = u16::from_be_bytes([wire[off], wire[off + 1]]) as usize;
    if off + 2 + l > wire.len() {
      break;
    }
    out.push((off, 2 + l));
    off += 2 + l;
  }
  out
}

#[derive(Clone, Debug)]
enum Tamper {
  None,
  Flip { pos: usize, bit: u8 },
  TruncateAt(usize),
  DropRecord(usize),
  DupRecord(usize),
  SwapRecords(usize),
  Inject { at_record: usize },
}

fn apply_tamper(wire: &[u8], t: &Tamper) -> Vec<u8> {
  let recs = records(wire);
  match t {
    Tamper::None => wire.to_vec(),
    Tamper::Flip { pos, bit } => {
      let mut w = wire.to_vec();
      w[*pos] ^= 1 << bit;
      w
    }
    Tamper::TruncateAt(k) => wire[..*k].to_vec(),
    Tamper::DropRecord(r) => {
      let (o, l) = recs[*r];
      let mut w = wire[..o].to_vec();
      w.extend_from_slice(&wire[o + l..]);
      w
    }
    Tamper::DupRecord(r) => {
      let (o, l) = recs[*r];
      let mut w = wire[..o + l].to_vec();
      w.extend_from_slice(&wire[o..o + l]);
      w.extend_from_slice(&wire[o + l..]);
      w
    }
    Tamper::SwapRecords(r) => {
      let (o1, l1) = recs[*r];
      let (o2, l2) = recs[*r + 1];
      let mut w = wire[..o1].to_vec();
      w.extend_from_slice(&wire[o2..o2 + l2]);
      w.extend_from_slice(&wire[o1..o1 + l1]);
      w.extend_from_slice(&wire[o2 + l2..]);
      w
    }
    Tamper::Inject { at_record } => {
      let o = if *at_record < recs.len() { recs[*at_record].0 } else { wire.len() };
      let mut w = wire[..o].to_vec();
      // a well-formed looking record: length 20 + 20 bytes
      w.extend_from_slice(&[0, 20]);
      w.extend_from_slice(&[0x5A; 20]);
      w.extend_from_slice(&wire[o..]);
      w
    }
  }
}

fn tamper_ops() -> Vec<SendOp> {
  vec![SendOp::App(vec![40]), SendOp::App(vec![33, 0, 50]), SendOp::Batch(vec![vec![35], vec![36]]), SendOp::App(vec![41])]
}

fn tamper_sub(tier: Tier) -> Sub {
  let mut sub = Sub::new("tamper", "E1");
  sub.rule = "case = (mechanism, direction, tampering of the captured ciphertext stream of 5 messages in 4 records) replayed into the live receiving engine of the same session; non-trivial = all but the untampered control; oracle: the receiver delivers a (possibly empty) prefix of what was sent and, unless the stream was merely cut short, reports PeerError — never a wrong, partial, reordered or duplicate message".into();
  // learn the honest stream length per (kind) — lengths are deterministic
  let kinds = [MechKind::Curve, MechKind::Noise];
  let mut work: Vec<(MechKind, bool, Vec<Tamper>)> = vec![];
  for kind in kinds {
    let mut p = fresh(kind, None);
    let (a, _b) = sides(&mut p, true);
    let (wire, _e, _) = do_sends(a, &tamper_ops());
    let n = wire.len();
    let nrec = records(&wire).len();
    for from_client in [true, false] {
      work.push((kind, from_client, vec![Tamper::None]));
      for pos in 0..n {
        for bit in 0..8u8 {
          if tier == Tier::Quick && !(bit == 0 || bit == 7) {
            continue;
          }
          work.push((kind, from_client, vec![Tamper::Flip { pos, bit }]));
        }
        work.push((kind, from_client, vec![Tamper::TruncateAt(pos)]));
      }
      for r in 0..nrec {
        work.push((kind, from_client, vec![Tamper::DropRecord(r)]));
        work.push((kind, from_client, vec![Tamper::DupRecord(r)]));
        work.push((kind, from_client, vec![Tamper::Inject { at_record: r }]));
        if r + 1 < nrec {
          work.push((kind, from_client, vec![Tamper::SwapRecords(r)]));
        }
      }
      work.push((kind, from_client, vec![Tamper::Inject { at_record: nrec }]));
      if tier == Tier::Thorough {
        // every pair of single-bit flips (bit 0) and flip+record-op
        for p1 in 0..n {
          for p2 in p1 + 1..n {
            work.push((kind, from_client, vec![Tamper::Flip { pos: p1, bit: 0 }, Tamper::Flip { pos: p2, bit: 0 }]));
          }
        }
      }
    }
  }
  sub.bounds = json!({"work_items": work.len(), "messages": 5, "records": 4, "operators": "every bit flip (quick: bits 0 and 7), truncation at every byte, drop/duplicate/swap/inject at every record; thorough: all pairs of bit-0 flips"});
  par::enumerate(&mut sub, work.len(), |i| {
    let (kind, from_client, tampers) = &work[i];
    let wit = json!({"mechanism": format!("{:?}", kind), "from": if *from_client { "connector" } else { "listener" }, "tamper": format!("{:?}", tampers)});
    let mut c = Case::default();
    match mc_core::catch(|| {
      let mut p = fresh(*kind, None);
      let (a, b) = sides(&mut p, *from_client);
      let (wire, expect, _) = do_sends(a, &tamper_ops());
      let mut w = wire.clone();
      for t in tampers {
        // positions refer to the honest stream; apply sequentially (flips commute)
        w = apply_tamper(&w, t);
      }
      b.feed(&w);
      (expect, b.delivered(), b.first_error(), w.len() < wire.len() && wire.starts_with(&w), w == wire)
    }) {
      Ok((expect, got, err, is_prefix_cut, unchanged)) => {
        c.nontrivial = !unchanged;
        c.steps = 1;
        c.outcome = mc_core::digest(&(got.len(), err.is_some()));
        c.state = mc_core::digest(&(format!("{:?}", kind), got.len(), err.is_some()));
        let class = format!("{:?}:{}", kind, match &tampers[0] {
          Tamper::None => "none",
          Tamper::Flip { .. } => if tampers.len() > 1 { "flip2" } else { "flip" },
          Tamper::TruncateAt(_) => "truncate",
          Tamper::DropRecord(_) => "drop",
          Tamper::DupRecord(_) => "duplicate",
          Tamper::SwapRecords(_) => "swap",
          Tamper::Inject { .. } => "inject",
        });
        let is_prefix = got.len() <= expect.len() && got.iter().zip(expect.iter()).all(|(g, e)| g == e);
        if !is_prefix {
          c.violations.push(("wrong-message-delivered".into(), class.clone(), format!("delivered {} messages that are not a prefix of the {} sent (error {:?})", got.len(), expect.len(), err), wit.clone()));
        }
        if unchanged {
          if got != expect || err.is_some() {
            c.violations.push(("honest-stream-not-delivered".into(), class.clone(), format!("delivered {} of {} error {:?}", got.len(), expect.len(), err), wit.clone()));
          }
        } else if !is_prefix_cut && err.is_none() && got.len() == expect.len() {
          // every message was delivered although the stream was modified: undetected tampering
          c.violations.push(("tampering-undetected".into(), class.clone(), "modified ciphertext stream accepted in full without error".into(), wit.clone()));
        } else if !is_prefix_cut && err.is_none() {
          // stuck waiting (e.g. a flipped length field) is acceptable only if nothing wrong was delivered;
          // the connection is then closed by heartbeat/timeouts, not by this engine call.
        }
        if i % 1499 == 0 {
          c.sample = Some(json!({"case": wit, "delivered": got.len(), "error": err}));
        }
      }
      Err(msg) => c.violations.push(("panic".into(), mc_core::loc_of(&msg), msg, wit)),
    }
    c
  });
  sub
}

fn sessions_sub() -> Sub {
  let mut sub = Sub::new("session-uniqueness", "E1");
  sub.rule = "two sessions between the same static key pairs send the same plaintext; the data-phase ciphertext streams must differ (in both directions)".into();
  for kind in [MechKind::Curve, MechKind::Noise] {
    for from_client in [true, false] {
      let run = || {
        let mut p = fresh(kind, None);
        let (a, _b) = sides(&mut p, from_client);
        let (wire, _e, _) = do_sends(a, &[SendOp::App(vec![64]), SendOp::App(vec![64])]);
        wire
      };
      sub.evaluations += 2;
      sub.transitions += 2;
      sub.nontrivial += 2;
      sub.states += 1;
      let w1 = run();
      let w2 = run();
      let wit = json!({"mechanism": format!("{:?}", kind), "from": if from_client { "connector" } else { "listener" }});
      if w1 == w2 {
        sub.violate(
          "same-ciphertext-across-sessions",
          &format!("{:?}", kind),
          format!("two sessions with the same static keys produced byte-identical ciphertext for the same plaintext ({} bytes): keys and nonces repeat across sessions", w1.len()),
          wit.clone(),
        );
      }
      sub.sample(json!({"case": wit, "identical": w1 == w2}));
    }
  }
  sub.distinct_outcomes = 2;
  sub
}

pub fn run(tier: Tier) -> Report {
  let mut rep = Report::new("C18", tier, "model_checking");
  rep.assume("each case handshakes a fresh real engine pair (ephemeral keys differ per case); ciphertext positions are comparable across cases because record lengths are deterministic");
  rep.assume("confidentiality is checked as 'a 31-byte payload marker never appears in the data-phase wire bytes' — not a cryptographic claim");
  rep.add(sizes_sub(tier));
  rep.add(heartbeat_sub());
  rep.add(tamper_sub(tier));
  rep.add(sessions_sub());
  rep
}

pub fn replay(sub: &str, w: &Value) -> Result<String, String> {
  Err(format!("replay of {}: re-run ./check C18 (witness {})", sub, w))
}

#[allow(dead_code)]
fn _unused(_: ZmtpPhase) {}
