//! C02 — multipart messages stay whole, contiguous and correctly flagged.
//!
//! E3 worlds on the real stack: (a) all multipart shapes (frame counts incl. the 254/255/256
//! boundary, empty frames in every position, sizes across the short/long header boundary) x socket
//! pairs x transports x receive styles (recv only / recv_multipart only / every mix up to length 4) x
//! MORE flags pre-set or not; (b) every event script up to depth d over {second peer attaches,
//! detaches, sends; first peer sends a 3-frame message; recv; recv_multipart} so that attach/detach
//! lands while a message is half-read.

use crate::common::payload;
use crate::stack::{self, msg};
use mc_core::par::{self, Case};
use mc_core::world::{self, settle, settle_n};
use mc_core::{Report, Sub, Tier};
use rzmq::socket::options as o;
use rzmq::{Context, Msg, MsgFlags, Socket, SocketType};
use serde_json::{json, Value};

#[derive(Clone, Copy, Debug, PartialEq, Eq)]
enum Pair {
  PushPull,
  DealerRouter,
  RouterDealer,
  PubSub,
  DealerDealer,
  /// ROUTER -> ROUTER: no delimiter is added or removed on either side, every payload frame is payload
  RouterRouter,
  /// a multipart request read by a REP application (sent by a DEALER: rzmq's REQ refuses
  /// send_multipart by design - "use DEALER for general multipart messaging")
  DealerRep,
  /// a REP's multipart reply read by a REQ application
  RepReq,
}

#[derive(Clone, Copy, Debug, PartialEq, Eq)]
enum Tr {
  Zmtp,
  Inproc,
}

#[derive(Clone, Copy, Debug, PartialEq, Eq)]
enum Rx {
  Recv,
  RecvMultipart,
}

#[derive(Clone, Debug)]
struct Shape {
  pair: Pair,
  tr: Tr,
  /// frame sizes of the message under test (followed by a 1-frame sentinel message)
  frames: Vec<usize>,
  /// MORE flags pre-set on the frames handed to send_multipart
  preset_more: bool,
  /// receive style pattern, repeated cyclically
  rx: Vec<Rx>,
}

type Flat = Vec<(Vec<u8>, bool)>;

/// Split a flat frame stream into messages at frames without MORE.
fn split_messages(flat: &Flat) -> (Vec<Vec<Vec<u8>>>, bool) {
  let mut out = vec![];
  let mut cur = vec![];
  for (d, more) in flat {
    cur.push(d.clone());
    if !*more {
      out.push(std::mem::take(&mut cur));
    }
  }
  (out, !cur.is_empty())
}

async fn receive_flat(s: &Socket, pattern: &[Rx], max_frames: usize) -> Flat {
  let mut flat: Flat = vec![];
  let mut i = 0;
  let mut idle = 0;
  while flat.len() < max_frames && idle < 2 {
    match pattern[i % pattern.len()] {
      Rx::Recv => match s.recv().await {
        Ok(m) => {
          idle = 0;
          flat.push((m.data().unwrap_or(&[]).to_vec(), m.is_more()));
        }
        Err(_) => idle += 1,
      },
      Rx::RecvMultipart => match s.recv_multipart().await {
        Ok(v) => {
          idle = 0;
          for m in v {
            flat.push((m.data().unwrap_or(&[]).to_vec(), m.is_more()));
          }
        }
        Err(_) => idle += 1,
      },
    }
    i += 1;
  }
  flat
}

fn mk_frames(tag: u32, sizes: &[usize], preset_more: bool) -> (Vec<Msg>, Vec<Vec<u8>>) {
  let n = sizes.len();
  let mut msgs = vec![];
  let mut datas = vec![];
  for (i, l) in sizes.iter().enumerate() {
    let d = payload(tag * 512 + i as u32 + 1, *l);
    let mut m = Msg::from_vec(d.clone());
    if preset_more && i + 1 < n {
      m.set_flags(MsgFlags::MORE);
    }
    msgs.push(m);
    datas.push(d);
  }
  (msgs, datas)
}

#[derive(Debug, Clone, PartialEq, Eq)]
struct ShapeOut {
  send_result: Result<(), String>,
  sentinel_result: Result<(), String>,
  flat: Flat,
}

fn run_shape(sh: &Shape) -> world::WorldResult<ShapeOut> {
  let sh = sh.clone();
  world::run(1, move || async move {
    let ctx = Context::new().expect("context");
    let (ta, tb) = match sh.pair {
      Pair::PushPull => (SocketType::Push, SocketType::Pull),
      Pair::DealerRouter => (SocketType::Dealer, SocketType::Router),
      Pair::RouterDealer => (SocketType::Router, SocketType::Dealer),
      Pair::PubSub => (SocketType::Pub, SocketType::Sub),
      Pair::DealerDealer => (SocketType::Dealer, SocketType::Dealer),
      Pair::RouterRouter => (SocketType::Router, SocketType::Router),
      Pair::DealerRep => (SocketType::Dealer, SocketType::Rep),
      Pair::RepReq => (SocketType::Rep, SocketType::Req),
    };
    let a = stack::mk(&ctx, ta, &[(o::SNDTIMEO, 500), (o::RCVTIMEO, 100), (o::LINGER, 0), (o::SNDHWM, 1000)]).await;
    let b = stack::mk(&ctx, tb, &[(o::RCVTIMEO, 100), (o::LINGER, 0), (o::RCVHWM, 1000)]).await;
    let mut prefix: Option<Vec<u8>> = None;
    if sh.pair == Pair::RouterDealer {
      a.set_option(o::ROUTER_MANDATORY, 1i32).await.unwrap();
      b.set_option(o::ROUTING_ID, &b"rx"[..]).await.unwrap();
      prefix = Some(b"rx".to_vec());
    }
    if sh.pair == Pair::PubSub {
      b.set_option(o::SUBSCRIBE, &b""[..]).await.unwrap();
    }
    if sh.pair == Pair::RouterRouter {
      a.set_option(o::ROUTER_MANDATORY, 1i32).await.unwrap();
      a.set_option(o::ROUTING_ID, &b"tx"[..]).await.unwrap();
      b.set_option(o::ROUTING_ID, &b"rx"[..]).await.unwrap();
      prefix = Some(b"rx".to_vec());
    }
    match sh.tr {
      Tr::Zmtp => {
        let _l = stack::link_pair(&a, &b, 1 << 16).await;
        settle_n(4).await;
        mc_core::world::keep(_l);
      }
      Tr::Inproc => {
        b.bind("inproc://c02").await.expect("bind");
        a.connect("inproc://c02").await.expect("connect");
        settle_n(3).await;
      }
    }
    let (mut msgs, _datas) = mk_frames(1, &sh.frames, sh.preset_more);
    if let Some(p) = &prefix {
      let mut id = Msg::from_vec(p.clone());
      id.set_flags(MsgFlags::MORE);
      msgs.insert(0, id);
    }
    let mut out = ShapeOut { send_result: Ok(()), sentinel_result: Ok(()), flat: vec![] };
    if sh.pair == Pair::DealerRep {
      // the REP application must answer before it may receive again: two receive rounds
      out.send_result = a.send_multipart(std::mem::take(&mut msgs)).await.map_err(|e| e.to_string());
      out.sentinel_result = a.send(Msg::from_vec(b"sentinel".to_vec())).await.map_err(|e| e.to_string());
      settle_n(3).await;
      for _ in 0..2 {
        out.flat.extend(receive_flat(&b, &sh.rx, 700).await);
        let _ = b.send(Msg::from_vec(b"answer".to_vec())).await;
        settle_n(3).await;
      }
      let _ = tokio::time::timeout(std::time::Duration::from_secs(30), ctx.term()).await;
      return out;
    }
    if sh.pair == Pair::RepReq {
      // the REQ (b) asks, the REP (a) answers with the message under test; second round: the sentinel
      for round in 0..2 {
        let payload_msgs = if round == 0 { std::mem::take(&mut msgs) } else { vec![Msg::from_vec(b"sentinel".to_vec())] };
        let _ = b.send(Msg::from_vec(b"question".to_vec())).await;
        settle_n(3).await;
        let _ = a.recv_multipart().await;
        let r = a.send_multipart(payload_msgs).await.map_err(|e| e.to_string());
        let sent_ok = r.is_ok();
        if round == 0 {
          out.send_result = r;
        } else {
          out.sentinel_result = r;
        }
        if !sent_ok {
          // a refused reply leaves the request open: answer it plainly, so that the REQ's round ends
          // (the plain answer is taken out of the observation below)
          let _ = a.send(Msg::from_vec(b"plain".to_vec())).await;
        }
        settle_n(3).await;
        let got = receive_flat(&b, &sh.rx, 700).await;
        out.flat.extend(got.into_iter().filter(|(d, more)| !(d == b"plain" && !*more)));
      }
      let _ = tokio::time::timeout(std::time::Duration::from_secs(30), ctx.term()).await;
      return out;
    }
    out.send_result = a.send_multipart(msgs).await.map_err(|e| e.to_string());
    // sentinel: a later single-frame message must still arrive, after the one under test
    let mut sent = vec![Msg::from_vec(b"sentinel".to_vec())];
    if let Some(p) = &prefix {
      let mut id = Msg::from_vec(p.clone());
      id.set_flags(MsgFlags::MORE);
      sent.insert(0, id);
    }
    out.sentinel_result = a.send_multipart(sent).await.map_err(|e| e.to_string());
    settle_n(3).await;
    out.flat = receive_flat(&b, &sh.rx, 700).await;
    let _ = tokio::time::timeout(std::time::Duration::from_secs(30), ctx.term()).await;
    out
  })
}

fn judge_shape(sh: &Shape, out: &ShapeOut) -> Vec<(String, String, String)> {
  let mut v = vec![];
  let class = format!("{:?}:{:?}:{}frames{}", sh.pair, sh.tr, sh.frames.len(), if sh.preset_more { "" } else { ":more-not-preset" });
  let (mut msgs, dangling) = split_messages(&out.flat);
  // strip the routing envelope the ROUTER adds
  if sh.pair == Pair::DealerRouter || sh.pair == Pair::RouterRouter {
    for m in msgs.iter_mut() {
      if !m.is_empty() {
        m.remove(0);
      }
    }
  }
  let want: Vec<Vec<u8>> = sh.frames.iter().enumerate().map(|(i, l)| payload(512 + i as u32 + 1, *l)).collect();
  let sentinel = vec![b"sentinel".to_vec()];
  if dangling {
    v.push(("dangling-more-frame".into(), class.clone(), "the last frame returned to the application still has MORE set".into()));
  }
  match &out.send_result {
    Ok(()) => {
      // accepted: must arrive whole, or the connection must have been closed (nothing further arrives)
      let delivered_whole = msgs.first() == Some(&want);
      let nothing = msgs.is_empty();
      if !delivered_whole && !nothing {
        if std::env::var_os("MC_DEBUG").is_some() {
          eprintln!("DEBUG {:?} rx={:?} flat={:?}", sh.frames, sh.rx, out.flat.iter().map(|(d, m)| (d.len(), *m)).collect::<Vec<_>>());
        }
        let got_sizes: Vec<Vec<usize>> = msgs.iter().map(|m| m.iter().map(|f| f.len()).collect()).collect();
        v.push((
          "multipart-delivered-wrong".into(),
          class.clone(),
          format!("sent {} frames (sizes {:?}); application saw messages with frame sizes {:?}", want.len(), if want.len() > 8 { vec![] } else { sh.frames.clone() }, if got_sizes.iter().map(|g| g.len()).sum::<usize>() > 24 { got_sizes.iter().map(|g| vec![g.len()]).collect::<Vec<_>>() } else { got_sizes }),
        ));
      }
      if nothing && sh.frames.len() <= 250 {
        v.push(("multipart-lost".into(), class.clone(), format!("send_multipart of {} frames returned Ok but nothing arrived (sentinel result {:?})", sh.frames.len(), out.sentinel_result)));
      }
      if delivered_whole && out.sentinel_result.is_ok() && msgs.get(1) != Some(&sentinel) {
        v.push(("following-message-wrong".into(), class.clone(), format!("the message after the one under test arrived as {:?}", msgs.get(1).map(|m| m.iter().map(|f| f.len()).collect::<Vec<_>>()))));
      }
    }
    Err(e) => {
      // refused at the sender: nothing of it may arrive, later traffic must be unaffected
      if sh.frames.len() + (sh.pair == Pair::RouterDealer || sh.pair == Pair::RouterRouter) as usize <= 253 {
        v.push(("supported-shape-refused".into(), class.clone(), format!("send_multipart of {} frames failed: {}", sh.frames.len(), e)));
      }
      if !msgs.is_empty() && msgs[0] != sentinel {
        v.push(("refused-message-partially-delivered".into(), class.clone(), format!("{} messages arrived, first has {} frames (first frame {:?}); the send failed with: {}", msgs.len(), msgs[0].len(), String::from_utf8_lossy(&msgs[0][0][..msgs[0][0].len().min(16)]), e)));
      }
    }
  }
  v
}

fn shapes(tier: Tier) -> Vec<Shape> {
  let mut frames_list: Vec<Vec<usize>> = vec![];
  // 1..3 frames over {0,1,255,256}: every combination (empty frame in every position included)
  let alpha = [0usize, 1, 255, 256];
  for a in alpha {
    frames_list.push(vec![a]);
    for b in alpha {
      frames_list.push(vec![a, b]);
      for c in alpha {
        if tier == Tier::Thorough || (a <= 1 || b <= 1 || c <= 1) {
          frames_list.push(vec![a, b, c]);
        }
      }
    }
  }
  // boundary counts: all 1-byte frames, with an empty frame first / middle / last
  for n in [253usize, 254, 255, 256, 257, 300] {
    frames_list.push(vec![1; n]);
    let mut f = vec![1; n];
    f[0] = 0;
    frames_list.push(f);
    let mut f = vec![1; n];
    f[n / 2] = 0;
    frames_list.push(f);
    let mut f = vec![1; n];
    f[n - 1] = 0;
    frames_list.push(f);
  }
  let rx_patterns: Vec<Vec<Rx>> = {
    let mut v = vec![vec![Rx::Recv], vec![Rx::RecvMultipart]];
    // every mixed pattern of length 2..4 (used cyclically)
    for len in 2..=tier.pick(3, 4) {
      for mask in 1..((1 << len) - 1) {
        v.push((0..len).map(|i| if mask & (1 << i) != 0 { Rx::RecvMultipart } else { Rx::Recv }).collect());
      }
    }
    v
  };
  let mut out = vec![];
  for pair in [Pair::PushPull, Pair::DealerRouter, Pair::RouterDealer, Pair::PubSub, Pair::DealerDealer, Pair::RouterRouter, Pair::DealerRep, Pair::RepReq] {
    for tr in [Tr::Zmtp, Tr::Inproc] {
      if (pair == Pair::DealerDealer || pair == Pair::RouterRouter || pair == Pair::DealerRep) && tr == Tr::Inproc {
        continue; // inproc refuses DEALER-DEALER (C05 known finding)
      }
      for f in &frames_list {
        for preset_more in [true, false] {
          if !preset_more && (pair == Pair::RouterDealer || pair == Pair::RouterRouter) {
            continue; // the ROUTER API requires the caller to flag MORE itself (documented contract)
          }
          let big = f.len() > 3;
          for (ri, rx) in rx_patterns.iter().enumerate() {
            // large shapes and unset-MORE variants: the two pure styles and one mixed pattern only
            if (big || !preset_more) && ri > 2 {
              continue;
            }
            if tier == Tier::Quick && f.len() == 3 && ri > 3 {
              continue;
            }
            out.push(Shape { pair, tr, frames: f.clone(), preset_more, rx: rx.clone() });
          }
        }
      }
    }
  }
  out
}

// ------------------------------------------------------------------------------------------------
// (b) attach / detach / traffic interleaved with a partially read message
// ------------------------------------------------------------------------------------------------

#[derive(Clone, Copy, Debug, PartialEq, Eq)]
enum Ev {
  P1Send3,
  P2Send1,
  P2Attach,
  P2Detach,
  Recv,
  RecvMp,
}

#[derive(Clone, Copy, Debug, PartialEq, Eq)]
enum RxType {
  Pull,
  Router,
  Dealer,
  Sub,
}

fn script_valid(s: &[Ev]) -> bool {
  let mut attached = false;
  for e in s {
    match e {
      Ev::P2Attach => {
        if attached {
          return false;
        }
        attached = true;
      }
      Ev::P2Detach | Ev::P2Send1 => {
        if !attached {
          return false;
        }
        if *e == Ev::P2Detach {
          attached = false;
        }
      }
      _ => {}
    }
  }
  // only scripts in which a receive call happens after P1 sent are interesting
  s.iter().any(|e| *e == Ev::P1Send3) && s.iter().any(|e| matches!(e, Ev::Recv | Ev::RecvMp))
}

#[derive(Debug, Default, Clone, PartialEq, Eq)]
struct ScriptOut {
  flat: Flat,
  p1_sent: usize,
  p2_sent: usize,
}

fn run_script(rt: RxType, tr: Tr, script: &[Ev]) -> world::WorldResult<ScriptOut> {
  let script = script.to_vec();
  world::run(1, move || async move {
    let ctx = Context::new().expect("context");
    let (trx, tpeer) = match rt {
      RxType::Pull => (SocketType::Pull, SocketType::Push),
      RxType::Router => (SocketType::Router, SocketType::Dealer),
      RxType::Dealer => (SocketType::Dealer, SocketType::Router),
      RxType::Sub => (SocketType::Sub, SocketType::Pub),
    };
    let r = stack::mk(&ctx, trx, &[(o::RCVTIMEO, 50), (o::LINGER, 0)]).await;
    if rt == RxType::Sub {
      r.set_option(o::SUBSCRIBE, &b""[..]).await.unwrap();
    }
    if rt == RxType::Dealer {
      r.set_option(o::ROUTING_ID, &b"rx"[..]).await.unwrap();
    }
    let mkpeer = |name: &'static [u8]| {
      let ctx = ctx.clone();
      async move {
        let p = stack::mk(&ctx, tpeer, &[(o::SNDTIMEO, 200), (o::LINGER, 0)]).await;
        if tpeer == SocketType::Dealer {
          p.set_option(o::ROUTING_ID, name).await.unwrap();
        }
        if tpeer == SocketType::Router {
          p.set_option(o::ROUTER_MANDATORY, 1i32).await.unwrap();
        }
        p
      }
    };
    if tr == Tr::Inproc {
      r.bind("inproc://c02s").await.expect("bind");
    }
    let connect = |p: Socket| {
      let r = r.clone();
      async move {
        match tr {
          Tr::Zmtp => {
            let l = stack::link_pair(&p, &r, 1 << 16).await;
            mc_core::world::keep(l);
          }
          Tr::Inproc => p.connect("inproc://c02s").await.expect("connect"),
        }
        settle_n(4).await;
        p
      }
    };
    let p1 = connect(mkpeer(b"p1").await).await;
    let mut p2: Option<Socket> = None;
    let mut out = ScriptOut::default();
    let prefix = |more: bool| -> Option<Msg> {
      if tpeer == SocketType::Router {
        let mut id = Msg::from_vec(b"rx".to_vec());
        if more {
          id.set_flags(MsgFlags::MORE);
        }
        Some(id)
      } else {
        None
      }
    };
    for e in &script {
      match e {
        Ev::P1Send3 => {
          let k = out.p1_sent as u8;
          let mut v = vec![msg(&[b'A', k, 1], true), msg(&[b'A', k, 2], true), msg(&[b'A', k, 3], false)];
          if let Some(id) = prefix(true) {
            v.insert(0, id);
          }
          if p1.send_multipart(v).await.is_ok() {
            out.p1_sent += 1;
          }
        }
        Ev::P2Send1 => {
          if let Some(p) = &p2 {
            let k = out.p2_sent as u8;
            let mut v = vec![msg(&[b'B', k, 1], false)];
            if let Some(id) = prefix(true) {
              v.insert(0, id);
            }
            if p.send_multipart(v).await.is_ok() {
              out.p2_sent += 1;
            }
          }
        }
        Ev::P2Attach => {
          p2 = Some(connect(mkpeer(b"p2").await).await);
        }
        Ev::P2Detach => {
          if let Some(p) = p2.take() {
            let _ = p.close().await;
          }
        }
        Ev::Recv => {
          if let Ok(m) = r.recv().await {
            out.flat.push((m.data().unwrap_or(&[]).to_vec(), m.is_more()));
          }
        }
        Ev::RecvMp => {
          if let Ok(v) = r.recv_multipart().await {
            for m in v {
              out.flat.push((m.data().unwrap_or(&[]).to_vec(), m.is_more()));
            }
          }
        }
      }
      settle().await;
    }
    // drain the rest frame by frame
    out.flat.extend(receive_flat(&r, &[Rx::Recv], 64).await);
    let _ = tokio::time::timeout(std::time::Duration::from_secs(30), ctx.term()).await;
    out
  })
}

fn judge_script(rt: RxType, out: &ScriptOut) -> Vec<(String, String, String)> {
  let mut v = vec![];
  let class = format!("{:?}", rt);
  let (mut msgs, dangling) = split_messages(&out.flat);
  if rt == RxType::Router {
    // envelope = identity frame; check it then strip it
    for m in msgs.iter_mut() {
      if m.is_empty() {
        continue;
      }
      let id = m.remove(0);
      let from_p1 = m.first().map(|f| f.first() == Some(&b'A')).unwrap_or(false);
      let want: &[u8] = if from_p1 { b"p1" } else { b"p2" };
      if !m.is_empty() && id != want {
        v.push(("wrong-identity-envelope".into(), class.clone(), format!("message {:?} delivered with identity {:?}", m, String::from_utf8_lossy(&id))));
      }
    }
  }
  if dangling {
    v.push(("dangling-more-frame".into(), class.clone(), "stream ends inside a message (last frame has MORE)".into()));
  }
  // every delivered message must be exactly one sent message; P1's must all arrive, in order
  let mut p1_seen = vec![];
  for m in &msgs {
    let is_a = m.len() == 3 && m.iter().enumerate().all(|(i, f)| f.len() == 3 && f[0] == b'A' && f[2] == i as u8 + 1 && f[1] == m[0][1]);
    let is_b = m.len() == 1 && m[0].len() == 3 && m[0][0] == b'B';
    if is_a {
      p1_seen.push(m[0][1]);
    } else if !is_b {
      v.push(("message-torn-or-merged".into(), class.clone(), format!("application saw a message that was never sent as such: {:?} (all messages: {:?})", m, msgs)));
      break;
    }
  }
  let want: Vec<u8> = (0..out.p1_sent as u8).collect();
  if v.is_empty() && p1_seen != want {
    v.push(("first-peer-message-lost-or-reordered".into(), class, format!("P1 sent {:?}, application saw {:?}", want, p1_seen)));
  }
  v
}

fn all_scripts(depth: usize) -> Vec<Vec<Ev>> {
  let alpha = [Ev::P1Send3, Ev::Recv, Ev::RecvMp, Ev::P2Attach, Ev::P2Detach, Ev::P2Send1];
  let mut out = vec![];
  let mut level: Vec<Vec<Ev>> = vec![vec![]];
  for _ in 0..depth {
    let mut next = vec![];
    for s in &level {
      for a in alpha {
        let mut s2 = s.clone();
        s2.push(a);
        next.push(s2);
      }
    }
    for s in &next {
      if script_valid(s) {
        out.push(s.clone());
      }
    }
    level = next;
  }
  out
}

pub fn run(tier: Tier) -> Report {
  let mut rep = Report::new("C02", tier, "model_checking");
  rep.assume("deterministic paused-clock worlds; the ZMTP path uses in-memory duplex streams attached through the tcp/ipc post-accept/connect code; a message of more than 255 frames (FrameBatch capacity) must be refused at the sender or close the connection at the receiver");
  rep.assume("messages of a peer that detaches may be dropped with it; the first peer (never detached) must see all its messages delivered whole and in order");
  // (a)
  let list = shapes(tier);
  let mut sub = Sub::new("shapes", "E3");
  sub.rule = "case = one world: sender socket, receiver socket, one multipart message of the given shape followed by a 1-frame sentinel, received with the given cyclic pattern of recv()/recv_multipart(); non-trivial = more than one frame; oracle: frames returned, cut at frames without MORE, equal the sent message then the sentinel; >255 frames: error at the sender or nothing delivered; no panic in any task".into();
  sub.bounds = json!({"worlds": list.len(), "frame_counts": [1, 2, 3, 253, 254, 255, 256, 257, 300], "sizes": [0, 1, 255, 256]});
  par::enumerate(&mut sub, list.len(), |i| {
    let sh = &list[i];
    let r = run_shape(sh);
    let mut c = Case { steps: sh.frames.len() as u64 + 4, nontrivial: sh.frames.len() > 1, ..Default::default() };
    let wit = json!({"explorer": "e3", "pair": format!("{:?}", sh.pair), "transport": format!("{:?}", sh.tr), "frames": if sh.frames.len() > 8 { json!(format!("{} frames, sizes like {:?}..", sh.frames.len(), &sh.frames[..3])) } else { json!(sh.frames) }, "preset_more": sh.preset_more, "rx": format!("{:?}", sh.rx)});
    let class = format!("{:?}:{:?}:{}frames", sh.pair, sh.tr, sh.frames.len());
    for p in &r.panics {
      c.violations.push(("panic".into(), format!("{}:{}", p.rsplit(" @ ").next().map(mc_core::short_loc).unwrap_or_default(), class), p.clone(), wit.clone()));
    }
    match r.result {
      Some(out) => {
        c.outcome = mc_core::digest(&(out.send_result.is_ok(), out.flat.len().min(8)));
        c.state = mc_core::digest(&(format!("{:?}{:?}", sh.pair, sh.tr), sh.frames.len(), out.send_result.is_ok(), out.flat.len()));
        if r.panics.is_empty() {
          for (clause, class, detail) in judge_shape(sh, &out) {
            c.violations.push((clause, class, detail, wit.clone()));
          }
        }
        if i % 997 == 0 {
          c.sample = Some(json!({"case": wit, "send": format!("{:?}", out.send_result), "frames_received": out.flat.len()}));
        }
      }
      None => {
        if r.panics.is_empty() {
          c.violations.push(("panic".into(), "world".into(), "scenario aborted".into(), wit));
        }
      }
    }
    c
  });
  rep.add(sub);
  // (b)
  let scripts = all_scripts(tier.pick(5, 8));
  let mut combos = vec![];
  for rt in [RxType::Pull, RxType::Router, RxType::Dealer, RxType::Sub] {
    for tr in [Tr::Zmtp, Tr::Inproc] {
      if tier == Tier::Quick && tr == Tr::Inproc && rt != RxType::Pull {
        continue;
      }
      for (si, _) in scripts.iter().enumerate() {
        combos.push((rt, tr, si));
      }
    }
  }
  let mut sub = Sub::new("interleaving", "E3");
  sub.rule = "case = one world running one event script over {P1 sends a 3-frame message, P2 attaches, P2 detaches, P2 sends, recv(), recv_multipart()} with quiescence after every event, then a frame-by-frame drain; non-trivial = an attach/detach/other-peer send happens between two receive calls; oracle: the frames seen by the application, cut at frames without MORE, are whole sent messages; all of P1's arrive in order; ROUTER envelopes name the true sender".into();
  sub.bounds = json!({"depth": tier.pick(5, 8), "scripts": scripts.len(), "worlds": combos.len(), "receivers": ["PULL", "ROUTER", "DEALER", "SUB"]});
  par::enumerate(&mut sub, combos.len(), |i| {
    let (rt, tr, si) = combos[i];
    let script = &scripts[si];
    let r = run_script(rt, tr, script);
    let wit = json!({"explorer": "e3", "receiver": format!("{:?}", rt), "transport": format!("{:?}", tr), "script": format!("{:?}", script)});
    let mut c = Case { steps: script.len() as u64 + 3, ..Default::default() };
    c.nontrivial = script.windows(2).any(|w| matches!(w[0], Ev::Recv | Ev::RecvMp) && matches!(w[1], Ev::P2Attach | Ev::P2Detach | Ev::P2Send1));
    for p in &r.panics {
      c.violations.push(("panic".into(), format!("{}:{:?}", p.rsplit(" @ ").next().map(mc_core::short_loc).unwrap_or_default(), rt), p.clone(), wit.clone()));
    }
    if let Some(out) = r.result {
      c.outcome = mc_core::digest(&(out.flat.len(), out.p1_sent, out.p2_sent));
      c.state = mc_core::digest(&(format!("{:?}{:?}", rt, tr), out.flat.len(), out.p1_sent, out.p2_sent));
      if r.panics.is_empty() {
        for (clause, class, detail) in judge_script(rt, &out) {
          c.violations.push((clause, format!("{}:{:?}", class, tr), detail, wit.clone()));
        }
      }
      if i % 1999 == 0 {
        c.sample = Some(json!({"case": wit, "frames_seen": out.flat.len()}));
      }
    }
    c
  });
  rep.add(sub);
  rep
}

pub fn replay(sub: &str, w: &Value) -> Result<String, String> {
  Err(format!("replay of {}: re-run ./check C02 (witness {})", sub, w))
}
