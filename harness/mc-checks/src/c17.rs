//! C17 — one connection's failure stays local; lost outbound connections come back.
//!
//! E1: `ReconnectState::on_connection_failure` for every (RECONNECT_IVL, RECONNECT_IVL_MAX, attempt)
//!     triple of a boundary grid.
//! E3: fault-locality worlds. A socket X under test with one healthy rzmq peer H (whole real stack
//!     on both sides) and 1..2 scripted raw peers that inject a fault, chunk by chunk; after every
//!     chunk the healthy connection must still carry traffic, and after the fault X must still be
//!     open, answer API calls, accept a new healthy peer and exchange traffic with it.
//!     Inproc: refused / incompatible connects must leave the binder and the connector's other
//!     connections alone.
//! E4 (real clock, loopback tcp): retry intervals reported and observed for a refusing port, and
//!     traffic resuming when the listener appears / comes back.

use crate::stack::{self, frame, msg, ready, v3_greeting};
use mc_core::par::{self, Case};
use mc_core::world::{self, settle, settle_n};
use mc_core::{Report, Sub, Tier};
use rzmq::socket::options as o;
use rzmq::{Context, Socket, SocketType};
use serde_json::{json, Value};
use std::time::Duration;
use tokio::io::AsyncWriteExt;

// ------------------------------------------------------------------------------------------------
// E1: back-off arithmetic
// ------------------------------------------------------------------------------------------------

fn backoff_sub(tier: Tier) -> Sub {
  let mut sub = Sub::new("backoff-arithmetic", "E1");
  sub.rule = "case = one (base, max) pair, 0..N consecutive failures on the real ReconnectState, then a success and N more failures; oracle: d0 = min(base, max if 0 < max), d(k+1) >= d(k), d(k+1) <= 2*d(k), d(k) <= max when max >= base > 0, no panic; after on_connection_success the sequence restarts at d0".into();
  let ms = |v: u64| Duration::from_millis(v);
  let bases: Vec<u64> = vec![0, 1, 2, 3, 20, 100, 999, 1000, 60_000, i32::MAX as u64];
  let maxes: Vec<u64> = vec![0, 1, 2, 19, 20, 21, 80, 100, 101, 250, 1000, 60_000, 3_600_000, i32::MAX as u64];
  let n = tier.pick(70, 1000);
  sub.bounds = json!({"bases_ms": bases, "maxes_ms": maxes, "attempts": n});
  let pairs: Vec<(u64, u64)> = bases.iter().flat_map(|b| maxes.iter().map(move |m| (*b, *m))).collect();
  par::enumerate(&mut sub, pairs.len(), |i| {
    let (b, m) = pairs[i];
    let mut case = Case { nontrivial: b > 0, steps: 2 * n as u64, ..Default::default() };
    let wit = json!({"explorer": "e1", "base_ms": b, "max_ms": m});
    let r = mc_core::catch(|| {
      let mut v: Vec<(String, String)> = vec![];
      let mut h = rzmq::verif::core::ReconnectH::new();
      for round in 0..2 {
        let mut prev: Option<Duration> = None;
        for k in 0..n {
          let d = h.on_failure(ms(b), ms(m));
          if k == 0 {
            let want = if m > 0 && m < b { ms(m) } else { ms(b) };
            if d != want {
              v.push(("first-delay-not-base".into(), format!("round {}: first delay {:?}, want {:?}", round, d, want)));
            }
          }
          if let Some(p) = prev {
            if d < p {
              v.push(("delay-shrinks".into(), format!("attempt {}: {:?} after {:?}", k, d, p)));
            }
            if d > p.saturating_mul(2) {
              v.push(("growth-more-than-geometric".into(), format!("attempt {}: {:?} after {:?}", k, d, p)));
            }
          }
          if m > 0 && d > ms(m) {
            v.push(("exceeds-reconnect-ivl-max".into(), format!("attempt {}: {:?} > max {:?}", k, d, ms(m))));
          }
          prev = Some(d);
        }
        h.on_success();
        if h.attempts() != 0 {
          v.push(("success-does-not-reset".into(), format!("attempts = {} after success", h.attempts())));
        }
      }
      v
    });
    match r {
      Ok(v) => {
        for (clause, d) in v.into_iter().take(3) {
          case.violations.push((clause, "ReconnectState".into(), d, wit.clone()));
        }
      }
      Err(p) => case.violations.push(("panic".into(), mc_core::loc_of(&p), p, wit.clone())),
    }
    case.outcome = mc_core::digest(&(b.min(1), m.min(1), m < b));
    case.state = mc_core::digest(&(b, m));
    case
  });
  sub
}

// ------------------------------------------------------------------------------------------------
// E3: fault locality
// ------------------------------------------------------------------------------------------------

#[derive(Clone, Copy, Debug, PartialEq, Eq, Hash)]
enum Pair {
  PullPush,
  PushPull,
  RouterDealer,
  DealerRouter,
  RepReq,
  ReqRep,
  PubSub,
  SubPub,
}

impl Pair {
  fn types(self) -> (SocketType, SocketType) {
    match self {
      Pair::PullPush => (SocketType::Pull, SocketType::Push),
      Pair::PushPull => (SocketType::Push, SocketType::Pull),
      Pair::RouterDealer => (SocketType::Router, SocketType::Dealer),
      Pair::DealerRouter => (SocketType::Dealer, SocketType::Router),
      Pair::RepReq => (SocketType::Rep, SocketType::Req),
      Pair::ReqRep => (SocketType::Req, SocketType::Rep),
      Pair::PubSub => (SocketType::Pub, SocketType::Sub),
      Pair::SubPub => (SocketType::Sub, SocketType::Pub),
    }
  }
  /// wire name of the healthy peer's type (what a well-behaved F would announce) and an incompatible one
  fn peer_names(self) -> (&'static str, &'static str) {
    match self {
      Pair::PullPush => ("PUSH", "PULL"),
      Pair::PushPull => ("PULL", "PUSH"),
      Pair::RouterDealer => ("DEALER", "PUB"),
      Pair::DealerRouter => ("ROUTER", "SUB"),
      Pair::RepReq => ("REQ", "REP"),
      Pair::ReqRep => ("REP", "PUSH"),
      Pair::PubSub => ("SUB", "PUB"),
      Pair::SubPub => ("PUB", "REQ"),
    }
  }
  /// X may hand a message to a faulty-but-established connection instead of H (load balancing)
  fn x_load_balances(self) -> bool {
    matches!(self, Pair::PushPull | Pair::DealerRouter | Pair::ReqRep)
  }
}

#[derive(Clone, Copy, Debug, PartialEq, Eq, Hash)]
enum Sec {
  Null,
  Plain,
}

#[derive(Clone, Copy, Debug, PartialEq, Eq, Hash)]
enum Fault {
  BadSignature,
  BadSignatureTail,
  UnknownMechanism,
  MechanismMismatch,
  TruncatedReadyMetadata,
  WrongSocketType,
  DataBeforeReady,
  ErrorCommand,
  HugeFrameHeader,
  OverMaxMsgSize,
  TooManyFrames,
  ReservedFlags,
  UnknownCommandInData,
  EofPartialGreeting,
  EofAfterGreeting,
  EofAfterReady,
  EofMidFrame,
  HalfCloseAfterReady,
  Silent,
  WrongCredentials,
  MalformedHello,
  ByteAtATimeThenGarbage,
}

#[derive(Clone, Copy, Debug, PartialEq, Eq)]
enum End {
  /// the raw peer keeps the stream open
  Stay,
  /// drop the stream (EOF + broken pipe)
  Drop,
  /// shut down the write side only, keep reading
  HalfClose,
  /// stay open and let 40 s of virtual time pass (handshake / heartbeat timers)
  Wait,
}

fn plain_hello(user: &[u8], pass: &[u8]) -> Vec<u8> {
  let mut b = b"\x05HELLO".to_vec();
  b.push(user.len() as u8);
  b.extend_from_slice(user);
  b.push(pass.len() as u8);
  b.extend_from_slice(pass);
  frame(0x04, &b)
}

/// chunks written by the faulty peer, how it ends, and whether the connection completed the
/// handshake before the fault (then X may legitimately have routed a message to it)
fn fault_script(f: Fault, pair: Pair, sec: Sec) -> (Vec<Vec<u8>>, End, bool) {
  let (good, bad) = pair.peer_names();
  let mech = if sec == Sec::Plain { "PLAIN" } else { "NULL" };
  let greet = v3_greeting(mech, false);
  // a correct handshake for this security setting
  let mut hs: Vec<Vec<u8>> = vec![greet.clone()];
  if sec == Sec::Plain {
    hs.push(plain_hello(b"u", b"p"));
    // INITIATE carries the metadata for PLAIN
    let mut init = b"\x08INITIATE".to_vec();
    init.push(11);
    init.extend_from_slice(b"Socket-Type");
    init.extend_from_slice(&(good.len() as u32).to_be_bytes());
    init.extend_from_slice(good.as_bytes());
    hs.push(frame(0x04, &init));
  } else {
    hs.push(ready(good, None));
  }
  let with = |extra: Vec<Vec<u8>>| {
    let mut v = hs.clone();
    v.extend(extra);
    v
  };
  match f {
    Fault::BadSignature => (vec![vec![0u8; 64]], End::Stay, false),
    Fault::BadSignatureTail => {
      let mut g = greet.clone();
      g[9] = 0x00;
      (vec![g], End::Stay, false)
    }
    Fault::UnknownMechanism => (vec![v3_greeting("BOGUS", false)], End::Stay, false),
    Fault::MechanismMismatch => (vec![v3_greeting(if sec == Sec::Plain { "NULL" } else { "PLAIN" }, false), if sec == Sec::Plain { ready(good, None) } else { plain_hello(b"u", b"p") }], End::Stay, false),
    Fault::TruncatedReadyMetadata => {
      let mut b = b"\x05READY".to_vec();
      b.push(11);
      b.extend_from_slice(b"Socket-Type");
      b.extend_from_slice(&[0, 0, 0xff, 0xff]);
      b.extend_from_slice(b"PU");
      (vec![v3_greeting("NULL", false), frame(0x04, &b)], End::Stay, false)
    }
    Fault::WrongSocketType => (vec![v3_greeting("NULL", false), ready(bad, None)], End::Stay, false),
    Fault::DataBeforeReady => (vec![greet.clone(), frame(0x00, b"hello")], End::Stay, false),
    Fault::ErrorCommand => (vec![greet.clone(), frame(0x04, b"\x05ERROR\x03bad")], End::Stay, false),
    Fault::HugeFrameHeader => {
      let mut h = vec![0x02u8];
      h.extend_from_slice(&(1u64 << 40).to_be_bytes());
      h.extend_from_slice(b"abc");
      (with(vec![h]), End::Stay, true)
    }
    Fault::OverMaxMsgSize => (with(vec![frame(0x00, &vec![7u8; 3000])]), End::Stay, true),
    Fault::TooManyFrames => {
      let mut b = vec![];
      for _ in 0..300 {
        b.extend_from_slice(&frame(0x01, b"x"));
      }
      b.extend_from_slice(&frame(0x00, b"end"));
      (with(vec![b]), End::Stay, true)
    }
    Fault::ReservedFlags => (with(vec![vec![0xf8, 0x01, b'x']]), End::Stay, true),
    Fault::UnknownCommandInData => (with(vec![frame(0x04, b"\x03FOOxyz")]), End::Stay, true),
    Fault::EofPartialGreeting => (vec![greet[..5].to_vec()], End::Drop, false),
    Fault::EofAfterGreeting => (vec![greet.clone()], End::Drop, false),
    Fault::EofAfterReady => (hs.clone(), End::Drop, true),
    Fault::EofMidFrame => (with(vec![vec![0x00, 0x10, b'a', b'b']]), End::Drop, true),
    Fault::HalfCloseAfterReady => (hs.clone(), End::HalfClose, true),
    Fault::Silent => (vec![], End::Wait, false),
    Fault::WrongCredentials => (vec![v3_greeting("PLAIN", false), plain_hello(b"u", b"wrong")], End::Stay, false),
    Fault::MalformedHello => (vec![v3_greeting("PLAIN", false), frame(0x04, b"\x05HELLO\xff\x01")], End::Stay, false),
    Fault::ByteAtATimeThenGarbage => {
      let mut v: Vec<Vec<u8>> = greet[..12].iter().map(|b| vec![*b]).collect();
      v.push(vec![0xAA; 80]);
      (v, End::Stay, false)
    }
  }
}

fn faults_for(sec: Sec, tier: Tier) -> Vec<Fault> {
  use Fault::*;
  let mut v = vec![
    BadSignature,
    BadSignatureTail,
    UnknownMechanism,
    MechanismMismatch,
    DataBeforeReady,
    ErrorCommand,
    HugeFrameHeader,
    OverMaxMsgSize,
    TooManyFrames,
    // (ReservedFlags is not in the list: rzmq ignores the reserved flag bits, so such a frame is an
    // ordinary message from an ordinary peer and takes part in the pattern like any other)
    UnknownCommandInData,
    EofPartialGreeting,
    EofAfterGreeting,
    EofAfterReady,
    EofMidFrame,
    HalfCloseAfterReady,
    Silent,
  ];
  if sec == Sec::Null {
    v.push(TruncatedReadyMetadata);
    v.push(WrongSocketType);
  } else {
    v.push(WrongCredentials);
    v.push(MalformedHello);
  }
  if tier == Tier::Thorough || sec == Sec::Null {
    v.push(ByteAtATimeThenGarbage);
  }
  v
}

#[derive(Clone, Debug)]
struct Scenario {
  pair: Pair,
  sec: Sec,
  faults: Vec<Fault>,
  /// X is the accepting side of the faulty connection(s) (false: X dialled out to them)
  x_is_server: bool,
  /// the healthy peer attaches before (true) or after the fault was injected
  healthy_first: bool,
}

#[derive(Debug, Default, Clone)]
struct Out {
  /// (stage, what failed)
  broken: Vec<(String, String)>,
  x_closed: Option<String>,
  h_closed: Option<String>,
  new_peer_failed: Option<String>,
  exchanges_ok: usize,
  /// per faulty connection: X closed it (the raw peer saw EOF) before the raw peer itself ended it
  fault_conn_closed_by_x: Vec<bool>,
}

async fn mk_sock(ctx: &Context, ty: SocketType, sec: Sec, server: bool, extra: &[(i32, i32)]) -> Socket {
  let mut opts = vec![(o::RCVTIMEO, 50), (o::SNDTIMEO, 50), (o::LINGER, 0)];
  opts.extend_from_slice(extra);
  let s = stack::mk(ctx, ty, &opts).await;
  s.set_option(o::MAXMSGSIZE, &2000i64.to_ne_bytes()[..]).await.expect("maxmsgsize");
  if sec == Sec::Plain {
    if server {
      s.set_option(o::PLAIN_SERVER, 1i32).await.expect("plain server");
    }
    s.set_option(o::PLAIN_USERNAME, &b"u"[..]).await.expect("plain user");
    s.set_option(o::PLAIN_PASSWORD, &b"p"[..]).await.expect("plain pass");
  }
  if ty == SocketType::Sub {
    s.set_option(o::SUBSCRIBE, &b""[..]).await.expect("subscribe");
  }
  if ty == SocketType::Dealer || ty == SocketType::Req {
    // a stable identity so that a ROUTER peer can answer
  }
  s
}

/// One application-level exchange between X and its healthy peer P in the direction(s) the pair
/// supports. `x_may_send`: false while a faulty-but-established connection could legitimately
/// receive X's message instead.
async fn exchange(pair: Pair, x: &Socket, p: &Socket, tag: &str, x_may_send: bool) -> Result<(), String> {
  let body = format!("m-{}", tag).into_bytes();
  let same = |got: Result<rzmq::Msg, rzmq::ZmqError>, what: &str| -> Result<(), String> {
    match got {
      Ok(m) if m.data().unwrap_or(&[]) == &body[..] => Ok(()),
      Ok(m) => Err(format!("{}: wrong payload {:?}", what, String::from_utf8_lossy(m.data().unwrap_or(&[])))),
      Err(e) => Err(format!("{}: {}", what, e)),
    }
  };
  // messages that a faulty-but-established peer managed to deliver legitimately (valid frames before
  // its fault) are not ours: skip anything that does not carry the "m-" marker
  async fn recv_ours(s: &Socket) -> Result<rzmq::Msg, rzmq::ZmqError> {
    loop {
      let m = s.recv().await?;
      if m.data().unwrap_or(&[]).starts_with(b"m-") && !m.is_more() {
        return Ok(m);
      }
    }
  }
  async fn recv_ours_mp(s: &Socket) -> Result<Vec<rzmq::Msg>, rzmq::ZmqError> {
    loop {
      let fr = s.recv_multipart().await?;
      if fr.len() == 2 && fr[1].data().unwrap_or(&[]).starts_with(b"m-") {
        return Ok(fr);
      }
    }
  }
  match pair {
    Pair::PullPush => {
      p.send(msg(&body, false)).await.map_err(|e| format!("healthy PUSH send: {}", e))?;
      settle().await;
      same(recv_ours(x).await, "PULL recv")
    }
    Pair::SubPub => {
      p.send(msg(&body, false)).await.map_err(|e| format!("healthy PUB send: {}", e))?;
      settle().await;
      same(recv_ours(x).await, "SUB recv")
    }
    Pair::PubSub => {
      x.send(msg(&body, false)).await.map_err(|e| format!("PUB send: {}", e))?;
      settle().await;
      same(p.recv().await, "healthy SUB recv")
    }
    Pair::PushPull => {
      if !x_may_send {
        return Ok(());
      }
      x.send(msg(&body, false)).await.map_err(|e| format!("PUSH send: {}", e))?;
      settle().await;
      same(p.recv().await, "healthy PULL recv")
    }
    Pair::RouterDealer => {
      p.send(msg(&body, false)).await.map_err(|e| format!("healthy DEALER send: {}", e))?;
      settle().await;
      let fr = recv_ours_mp(x).await.map_err(|e| format!("ROUTER recv: {}", e))?;
      if fr.len() != 2 || fr[1].data().unwrap_or(&[]) != &body[..] {
        return Err(format!("ROUTER recv: {} frames", fr.len()));
      }
      let id = fr[0].data().unwrap_or(&[]).to_vec();
      x.send_multipart(vec![msg(&id, true), msg(&body, false)]).await.map_err(|e| format!("ROUTER reply: {}", e))?;
      settle().await;
      same(p.recv().await, "healthy DEALER recv")
    }
    Pair::DealerRouter => {
      if !x_may_send {
        return Ok(());
      }
      x.send(msg(&body, false)).await.map_err(|e| format!("DEALER send: {}", e))?;
      settle().await;
      let fr = p.recv_multipart().await.map_err(|e| format!("healthy ROUTER recv: {}", e))?;
      if fr.len() != 2 || fr[1].data().unwrap_or(&[]) != &body[..] {
        return Err(format!("healthy ROUTER recv: {} frames", fr.len()));
      }
      let id = fr[0].data().unwrap_or(&[]).to_vec();
      p.send_multipart(vec![msg(&id, true), msg(&body, false)]).await.map_err(|e| format!("healthy ROUTER reply: {}", e))?;
      settle().await;
      same(recv_ours(x).await, "DEALER recv")
    }
    Pair::RepReq => {
      p.send(msg(&body, false)).await.map_err(|e| format!("healthy REQ send: {}", e))?;
      settle().await;
      same(recv_ours(x).await, "REP recv")?;
      x.send(msg(&body, false)).await.map_err(|e| format!("REP send: {}", e))?;
      settle().await;
      same(p.recv().await, "healthy REQ recv")
    }
    Pair::ReqRep => {
      if !x_may_send {
        return Ok(());
      }
      x.send(msg(&body, false)).await.map_err(|e| format!("REQ send: {}", e))?;
      settle().await;
      same(p.recv().await, "healthy REP recv")?;
      p.send(msg(&body, false)).await.map_err(|e| format!("healthy REP send: {}", e))?;
      settle().await;
      same(x.recv().await, "REQ recv")
    }
  }
}

async fn still_open(s: &Socket) -> Option<String> {
  match tokio::time::timeout(Duration::from_secs(2), s.set_option(o::SNDHWM, 77i32)).await {
    Ok(Ok(())) => None,
    Ok(Err(e)) => Some(format!("set_option: {}", e)),
    Err(_) => Some("set_option hangs".into()),
  }
}

fn run_scenario(sc: &Scenario) -> world::WorldResult<Out> {
  let sc = sc.clone();
  world::run(1, move || async move {
    let ctx = Context::new().expect("context");
    let hctx = Context::new().expect("context-h");
    let (tx, th) = sc.pair.types();
    // X plays the PLAIN server when it accepts; H then is a PLAIN client (and vice versa)
    let x = mk_sock(&ctx, tx, sc.sec, sc.x_is_server, &[]).await;
    let h = mk_sock(&hctx, th, sc.sec, !sc.x_is_server, &[]).await;
    let mut out = Out::default();
    let mut links = vec![];
    let attach_h = |x: Socket, p: Socket, x_is_server: bool| async move {
      if x_is_server {
        stack::link_pair(&p, &x, 1 << 16).await
      } else {
        stack::link_pair(&x, &p, 1 << 16).await
      }
    };
    if sc.healthy_first {
      links.push(attach_h(x.clone(), h.clone(), sc.x_is_server).await);
      settle_n(6).await;
      match exchange(sc.pair, &x, &h, "pre", true).await {
        Ok(()) => out.exchanges_ok += 1,
        Err(e) => out.broken.push(("before-any-fault".into(), e)),
      }
    }
    // faulty peers, one chunk at a time, round-robin over the faulty connections
    let mut raws = vec![];
    let mut scripts = vec![];
    for f in &sc.faults {
      raws.push(Some(stack::raw_peer(&x, sc.x_is_server, 1 << 16).await));
      scripts.push(fault_script(*f, sc.pair, sc.sec));
    }
    settle_n(3).await;
    let maxlen = scripts.iter().map(|s| s.0.len()).max().unwrap_or(0);
    let mut established_fault_alive = false;
    for step in 0..maxlen {
      for (i, (chunks, _, est)) in scripts.iter().enumerate() {
        if let (Some(c), Some(r)) = (chunks.get(step), raws[i].as_mut()) {
          let _ = stack::write_settle(r, c).await;
          if *est {
            established_fault_alive = true;
          }
        }
      }
      settle_n(3).await;
      if sc.healthy_first {
        let _ = established_fault_alive;
        let may = !sc.pair.x_load_balances();
        match exchange(sc.pair, &x, &h, &format!("s{}", step), may).await {
          Ok(()) => out.exchanges_ok += 1,
          Err(e) => out.broken.push((format!("after-chunk-{}", step), e)),
        }
      }
    }
    // did X tear the faulty connection(s) down? (recorded, not judged: C06/C07 decide what must be refused)
    for r in raws.iter_mut() {
      let mut closed = false;
      if let Some(r) = r.as_mut() {
        use tokio::io::AsyncReadExt;
        let mut buf = [0u8; 4096];
        loop {
          match tokio::time::timeout(Duration::from_micros(10), r.read(&mut buf)).await {
            Ok(Ok(0)) | Ok(Err(_)) => {
              closed = true;
              break;
            }
            Ok(Ok(_)) => continue,
            Err(_) => break,
          }
        }
      }
      out.fault_conn_closed_by_x.push(closed);
    }
    // endings
    let mut kept = vec![];
    let mut wait = false;
    for (i, (_, end, _)) in scripts.iter().enumerate() {
      match end {
        End::Stay => kept.push(raws[i].take()),
        End::Drop => drop(raws[i].take()),
        End::HalfClose => {
          if let Some(mut r) = raws[i].take() {
            let _ = r.shutdown().await;
            kept.push(Some(r));
          }
        }
        End::Wait => {
          wait = true;
          kept.push(raws[i].take());
        }
      }
    }
    settle_n(4).await;
    if wait {
      // let handshake timers of the silent connection fire while the healthy one keeps talking
      for k in 0..4 {
        tokio::time::sleep(Duration::from_secs(10)).await;
        if sc.healthy_first {
          let may = !sc.pair.x_load_balances();
          match exchange(sc.pair, &x, &h, &format!("w{}", k), may).await {
            Ok(()) => out.exchanges_ok += 1,
            Err(e) => out.broken.push((format!("while-silent-peer-times-out-{}", k), e)),
          }
        }
      }
    }
    if !sc.healthy_first {
      links.push(attach_h(x.clone(), h.clone(), sc.x_is_server).await);
      settle_n(6).await;
    }
    // the faulty connections that are still open go away now: everything X sends must reach H
    drop(kept);
    settle_n(6).await;
    // a load-balancing X may have parked one message on a connection that died meanwhile; give the
    // rotation one round to notice (a send that fails with an error is not a locality violation)
    let mut last = exchange(sc.pair, &x, &h, "post1", true).await;
    if last.is_err() && sc.pair.x_load_balances() {
      if sc.pair == Pair::ReqRep {
        // REQ: a request that went to a vanished peer is answered by an error on recv; then the FSM is ready again
        let _ = x.recv().await;
      }
      last = exchange(sc.pair, &x, &h, "post2", true).await;
    }
    match last {
      Ok(()) => out.exchanges_ok += 1,
      Err(e) => out.broken.push(("after-fault".into(), e)),
    }
    out.x_closed = still_open(&x).await;
    out.h_closed = still_open(&h).await;
    // X still takes new connections
    let h2 = mk_sock(&hctx, th, sc.sec, !sc.x_is_server, &[]).await;
    links.push(attach_h(x.clone(), h2.clone(), sc.x_is_server).await);
    settle_n(6).await;
    // with two healthy peers a load-balancing X alternates: try twice
    let mut ok = false;
    let mut err = String::new();
    for k in 0..3 {
      let (a, b) = (exchange_one_of(sc.pair, &x, &h2, &h, &format!("n{}", k)).await, ());
      let _ = b;
      match a {
        Ok(()) => {
          ok = true;
          break;
        }
        Err(e) => err = e,
      }
    }
    if !ok {
      out.new_peer_failed = Some(err);
    }
    for l in &links {
      l.destroy();
    }
    let _ = tokio::time::timeout(Duration::from_secs(30), ctx.term()).await;
    let _ = tokio::time::timeout(Duration::from_secs(30), hctx.term()).await;
    out
  })
}

/// exchange with the new peer `p`; for X that spreads its sends over several peers, messages that
/// `other` receives are drained so that they do not confuse later rounds
async fn exchange_one_of(pair: Pair, x: &Socket, p: &Socket, other: &Socket, tag: &str) -> Result<(), String> {
  let r = exchange(pair, x, p, tag, true).await;
  if r.is_err() && pair.x_load_balances() {
    // the message went to the other healthy peer: complete that exchange so that REQ/DEALER stay usable
    match pair {
      Pair::PushPull => {
        let _ = other.recv().await;
      }
      Pair::DealerRouter => {
        if let Ok(fr) = other.recv_multipart().await {
          if fr.len() == 2 {
            let id = fr[0].data().unwrap_or(&[]).to_vec();
            let _ = other.send_multipart(vec![msg(&id, true), msg(fr[1].data().unwrap_or(&[]), false)]).await;
            settle().await;
            let _ = x.recv().await;
          }
        }
      }
      Pair::ReqRep => {
        if let Ok(m) = other.recv().await {
          let _ = other.send(msg(m.data().unwrap_or(&[]), false)).await;
          settle().await;
          let _ = x.recv().await;
        }
      }
      _ => {}
    }
  }
  r
}

fn scenarios(tier: Tier) -> Vec<Scenario> {
  let mut v = vec![];
  let pairs = [Pair::PullPush, Pair::PushPull, Pair::RouterDealer, Pair::DealerRouter, Pair::RepReq, Pair::ReqRep, Pair::PubSub, Pair::SubPub];
  for pair in pairs {
    for sec in [Sec::Null, Sec::Plain] {
      let fs = faults_for(sec, tier);
      for x_is_server in [true, false] {
        if sec == Sec::Plain && !x_is_server {
          continue; // the scripted peer only plays the PLAIN client
        }
        for healthy_first in [true, false] {
          for f in &fs {
            v.push(Scenario { pair, sec, faults: vec![*f], x_is_server, healthy_first });
          }
          // two faulty connections at once
          if healthy_first && (tier == Tier::Thorough || (sec == Sec::Null && x_is_server)) {
            for (i, f) in fs.iter().enumerate() {
              for g in fs.iter().skip(i) {
                if tier == Tier::Quick && !(matches!(f, Fault::TooManyFrames | Fault::EofMidFrame | Fault::WrongSocketType | Fault::BadSignature) || matches!(g, Fault::Silent | Fault::HalfCloseAfterReady)) {
                  continue;
                }
                v.push(Scenario { pair, sec, faults: vec![*f, *g], x_is_server, healthy_first });
              }
            }
          }
        }
      }
    }
  }
  v
}

fn locality_sub(tier: Tier) -> Sub {
  let mut sub = Sub::new("fault-locality", "E3");
  sub.rule = "case = one world: socket X, a healthy rzmq peer H (attached before or after the fault) and 1-2 scripted raw peers each injecting one fault chunk by chunk; after every chunk one application exchange X<->H in the direction(s) the pair supports; after the fault: exchange again, X and H answer set_option, a new healthy peer attaches and exchanges; non-trivial = at least two exchanges succeeded; oracle: no exchange on the healthy connection fails, X and H stay open, the new peer works, nothing panics".into();
  let list = scenarios(tier);
  sub.bounds = json!({"scenarios": list.len(), "pairs": 8, "security": ["NULL", "PLAIN"], "faults": faults_for(Sec::Null, tier).len() + 2});
  par::enumerate(&mut sub, list.len(), |i| {
    let sc = &list[i];
    let r = run_scenario(sc);
    let wit = json!({"explorer": "e3", "sub": "fault-locality", "index": i, "scenario": format!("{:?}", sc)});
    let fname = sc.faults.iter().map(|f| format!("{:?}", f)).collect::<Vec<_>>().join("+");
    let class = format!("{:?}:{}:{}", sc.pair, fname, if sc.x_is_server { "accepted" } else { "dialled" });
    let mut case = Case { steps: 6, ..Default::default() };
    for p in &r.panics {
      case.violations.push(("panic".into(), format!("{}:{}", p.rsplit(" @ ").next().map(mc_core::short_loc).unwrap_or_default(), fname), p.clone(), wit.clone()));
    }
    if let Some(o) = r.result {
      case.nontrivial = o.exchanges_ok >= 2;
      case.outcome = mc_core::digest(&(o.broken.len(), o.x_closed.is_some(), o.new_peer_failed.is_some(), o.fault_conn_closed_by_x.clone(), o.exchanges_ok));
      case.state = mc_core::digest(&(format!("{:?}", sc), o.exchanges_ok));
      if let Some((stage, e)) = o.broken.first() {
        case.violations.push(("healthy-connection-disturbed".into(), class.clone(), format!("{}: {} (security {:?}, healthy peer attached {})", stage, e, sc.sec, if sc.healthy_first { "first" } else { "afterwards" }), wit.clone()));
      }
      if let Some(e) = &o.x_closed {
        case.violations.push(("socket-shut-down-by-peer-fault".into(), class.clone(), e.clone(), wit.clone()));
      }
      if let Some(e) = &o.h_closed {
        case.violations.push(("healthy-peer-socket-shut-down".into(), class.clone(), e.clone(), wit.clone()));
      }
      if let Some(e) = &o.new_peer_failed {
        case.violations.push(("new-connection-not-served-after-fault".into(), class.clone(), e.clone(), wit.clone()));
      }
      if i % 97 == 0 {
        case.sample = Some(json!({"scenario": format!("{:?}", sc), "exchanges_ok": o.exchanges_ok, "faulty_connection_closed_by_x": o.fault_conn_closed_by_x}));
      }
    }
    case
  });
  sub
}

// ------------------------------------------------------------------------------------------------
// E3: inproc refusals
// ------------------------------------------------------------------------------------------------

#[derive(Clone, Copy, Debug, PartialEq, Eq)]
enum InprocFault {
  IncompatibleConnector,
  ConnectToUnboundName,
  BinderOfOtherNameCloses,
  ConnectorCloses,
  BurstOfConnectDisconnect,
}

fn inproc_world(pair: Pair, f: InprocFault, healthy_first: bool) -> world::WorldResult<Out> {
  world::run(1, move || async move {
    let ctx = Context::new().expect("context");
    let (tx, th) = pair.types();
    let x = mk_sock(&ctx, tx, Sec::Null, true, &[]).await;
    let h = mk_sock(&ctx, th, Sec::Null, false, &[]).await;
    let mut out = Out::default();
    if let Err(e) = x.bind("inproc://c17-x").await {
      out.x_closed = Some(format!("bind: {}", e));
      return out;
    }
    let connect_h = |h: Socket| async move { h.connect("inproc://c17-x").await };
    if healthy_first {
      if let Err(e) = connect_h(h.clone()).await {
        out.broken.push(("healthy-connect".into(), e.to_string()));
      }
      settle_n(4).await;
      match exchange(pair, &x, &h, "pre", true).await {
        Ok(()) => out.exchanges_ok += 1,
        Err(e) => out.broken.push(("before-any-fault".into(), e)),
      }
    }
    match f {
      InprocFault::IncompatibleConnector => {
        // a socket type X cannot talk to
        let bad_ty = match tx {
          SocketType::Pull | SocketType::Sub => SocketType::Req,
          SocketType::Push | SocketType::Pub => SocketType::Rep,
          SocketType::Router | SocketType::Dealer => SocketType::Pub,
          SocketType::Rep => SocketType::Sub,
          SocketType::Req => SocketType::Push,
          _ => SocketType::Pub,
        };
        let bad = mk_sock(&ctx, bad_ty, Sec::Null, false, &[]).await;
        let r = tokio::time::timeout(Duration::from_secs(5), bad.connect("inproc://c17-x")).await;
        if !matches!(r, Ok(Err(_))) {
          // accepted: then C05 (not C17) is concerned; here only locality matters
        }
        settle_n(4).await;
        let _ = bad.close().await;
      }
      InprocFault::ConnectToUnboundName => {
        // X itself dials a name nobody bound: refused; X's bound name and H must be unaffected
        let r = tokio::time::timeout(Duration::from_secs(5), x.connect("inproc://c17-nobody")).await;
        if matches!(r, Err(_)) {
          out.broken.push(("connect-to-unbound-name".into(), "connect() hangs".into()));
        }
      }
      InprocFault::BinderOfOtherNameCloses => {
        let other = mk_sock(&ctx, th, Sec::Null, false, &[]).await;
        let _ = other.bind("inproc://c17-other").await;
        let _ = x.connect("inproc://c17-other").await;
        settle_n(4).await;
        let _ = other.close().await;
      }
      InprocFault::ConnectorCloses => {
        let other = mk_sock(&ctx, th, Sec::Null, false, &[]).await;
        let _ = other.connect("inproc://c17-x").await;
        settle_n(4).await;
        let _ = other.close().await;
      }
      InprocFault::BurstOfConnectDisconnect => {
        for _ in 0..12 {
          let other = mk_sock(&ctx, th, Sec::Null, false, &[]).await;
          let _ = other.connect("inproc://c17-x").await;
          settle().await;
          let _ = other.close().await;
        }
      }
    }
    settle_n(6).await;
    if !healthy_first {
      if let Err(e) = connect_h(h.clone()).await {
        out.broken.push(("healthy-connect-after-fault".into(), e.to_string()));
      }
      settle_n(4).await;
    }
    let mut last = exchange(pair, &x, &h, "post1", true).await;
    if last.is_err() && pair.x_load_balances() {
      if pair == Pair::ReqRep {
        let _ = x.recv().await;
      }
      last = exchange(pair, &x, &h, "post2", true).await;
    }
    match last {
      Ok(()) => out.exchanges_ok += 1,
      Err(e) => out.broken.push(("after-fault".into(), e)),
    }
    out.x_closed = still_open(&x).await;
    out.h_closed = still_open(&h).await;
    let h2 = mk_sock(&ctx, th, Sec::Null, false, &[]).await;
    match h2.connect("inproc://c17-x").await {
      Err(e) => out.new_peer_failed = Some(format!("connect: {}", e)),
      Ok(()) => {
        settle_n(4).await;
        let mut ok = false;
        let mut err = String::new();
        for k in 0..3 {
          match exchange_one_of(pair, &x, &h2, &h, &format!("n{}", k)).await {
            Ok(()) => {
              ok = true;
              break;
            }
            Err(e) => err = e,
          }
        }
        if !ok {
          out.new_peer_failed = Some(err);
        }
      }
    }
    let _ = tokio::time::timeout(Duration::from_secs(30), ctx.term()).await;
    out
  })
}

fn inproc_sub(_tier: Tier) -> Sub {
  let mut sub = Sub::new("inproc-locality", "E3");
  sub.rule = "case = one world: X binds an inproc name, a healthy peer connects (before or after), then an incompatible socket connects / X dials an unbound name / another binder X is connected to closes / another connector closes / 12 connect-close cycles; oracle as fault-locality".into();
  let pairs = [Pair::PullPush, Pair::PushPull, Pair::RouterDealer, Pair::DealerRouter, Pair::RepReq, Pair::ReqRep, Pair::PubSub, Pair::SubPub];
  let faults = [InprocFault::IncompatibleConnector, InprocFault::ConnectToUnboundName, InprocFault::BinderOfOtherNameCloses, InprocFault::ConnectorCloses, InprocFault::BurstOfConnectDisconnect];
  let mut list = vec![];
  for p in pairs {
    for f in faults {
      for hf in [true, false] {
        list.push((p, f, hf));
      }
    }
  }
  sub.bounds = json!({"worlds": list.len()});
  par::enumerate(&mut sub, list.len(), |i| {
    let (pair, f, hf) = list[i];
    let r = inproc_world(pair, f, hf);
    let wit = json!({"explorer": "e3", "sub": "inproc-locality", "index": i, "scenario": format!("{:?} {:?} healthy_first={}", pair, f, hf)});
    let class = format!("{:?}:{:?}", pair, f);
    let mut case = Case { steps: 5, ..Default::default() };
    for p in &r.panics {
      case.violations.push(("panic".into(), format!("{}:{:?}", p.rsplit(" @ ").next().map(mc_core::short_loc).unwrap_or_default(), f), p.clone(), wit.clone()));
    }
    if let Some(o) = r.result {
      case.nontrivial = o.exchanges_ok >= 1;
      case.outcome = mc_core::digest(&(o.broken.len(), o.x_closed.is_some(), o.new_peer_failed.is_some()));
      case.state = mc_core::digest(&(i, o.exchanges_ok));
      if let Some((stage, e)) = o.broken.first() {
        case.violations.push(("healthy-connection-disturbed".into(), class.clone(), format!("{}: {}", stage, e), wit.clone()));
      }
      if let Some(e) = &o.x_closed {
        case.violations.push(("socket-shut-down-by-peer-fault".into(), class.clone(), e.clone(), wit.clone()));
      }
      if let Some(e) = &o.h_closed {
        case.violations.push(("healthy-peer-socket-shut-down".into(), class.clone(), e.clone(), wit.clone()));
      }
      if let Some(e) = &o.new_peer_failed {
        case.violations.push(("new-connection-not-served-after-fault".into(), class.clone(), e.clone(), wit.clone()));
      }
    }
    case
  });
  sub
}

// ------------------------------------------------------------------------------------------------
// E3: event-bus pressure — other sockets' lifecycle events while X's core loop is occupied
// ------------------------------------------------------------------------------------------------

/// X = SUB with `subs` subscriptions and SNDHWM=1 whose connection is held in the handshake: its
/// core loop sits in pipe_attached() pushing subscriptions into the (full) pipe and does not read
/// the context's event bus. Meanwhile other sockets of the same context do `cycles` inproc
/// connect/close cycles. Then the handshake is released.
fn bus_pressure_world(subs: usize, cycles: usize) -> world::WorldResult<Out> {
  world::run(1, move || async move {
    let ctx = Context::new().expect("context");
    let hctx = Context::new().expect("context-h");
    let mut out = Out::default();
    let x = stack::mk(&ctx, SocketType::Sub, &[(o::RCVTIMEO, 50), (o::LINGER, 0), (o::SNDHWM, 1)]).await;
    for i in 0..subs {
      x.set_option(o::SUBSCRIBE, format!("t{}", i).as_bytes()).await.expect("subscribe");
    }
    x.set_option(o::SUBSCRIBE, &b"m-"[..]).await.expect("subscribe");
    let h = stack::mk(&hctx, SocketType::Pub, &[(o::SNDTIMEO, 50), (o::LINGER, 0)]).await;
    let (x_end, link_a) = tokio::io::duplex(1 << 16);
    let (link_b, h_end) = tokio::io::duplex(1 << 16);
    let l = world::Link::spawn(link_a, link_b);
    l.hold_both();
    let (ux, uh) = (stack::fresh_uri(), stack::fresh_uri());
    rzmq::verif::session::attach_stream(&x, x_end, false, &ux, &ux).await;
    rzmq::verif::session::attach_stream(&h, h_end, true, &uh, &uh).await;
    settle_n(6).await;
    // lifecycle churn by other sockets of X's context
    let b = stack::mk(&ctx, SocketType::Pull, &[(o::LINGER, 0)]).await;
    b.bind("inproc://c17-churn").await.expect("bind");
    for _ in 0..cycles {
      let c = stack::mk(&ctx, SocketType::Push, &[(o::LINGER, 0)]).await;
      let _ = c.connect("inproc://c17-churn").await;
      let _ = c.close().await;
    }
    settle_n(4).await;
    l.release_both();
    settle_n(10).await;
    tokio::time::sleep(Duration::from_millis(200)).await;
    settle_n(10).await;
    out.x_closed = still_open(&x).await;
    match exchange(Pair::SubPub, &x, &h, "after-churn", true).await {
      Ok(()) => out.exchanges_ok += 1,
      Err(e) => out.broken.push(("after-churn".into(), e)),
    }
    l.destroy();
    let _ = tokio::time::timeout(Duration::from_secs(30), ctx.term()).await;
    let _ = tokio::time::timeout(Duration::from_secs(30), hctx.term()).await;
    out
  })
}

fn bus_pressure_sub(tier: Tier) -> Sub {
  let mut sub = Sub::new("event-bus-pressure", "E3");
  sub.rule = "case = one world: a SUB socket (SNDHWM=1, k subscriptions) whose only connection is held half-way through the handshake, so that the initial subscription sync cannot drain (before the fix recorded in known_findings.jsonl this wedged the core loop for good); other sockets of the same context perform n inproc connect/close cycles; then the handshake is released; oracle: the SUB socket is still open and receives the publisher's next message".into();
  let mut list = vec![];
  for subs in [0usize, 1, 3] {
    for cycles in tier.pick(vec![0usize, 5, 40, 120], vec![0usize, 5, 20, 40, 60, 80, 120, 300]) {
      list.push((subs, cycles));
    }
  }
  sub.bounds = json!({"worlds": list.len(), "subscriptions": [0, 1, 3], "cycles": list.iter().map(|c| c.1).collect::<std::collections::BTreeSet<_>>()});
  par::enumerate(&mut sub, list.len(), |i| {
    let (subs, cycles) = list[i];
    let r = bus_pressure_world(subs, cycles);
    let wit = json!({"explorer": "e3", "sub": "event-bus-pressure", "index": i, "scenario": format!("subs={} cycles={}", subs, cycles)});
    let class = format!("SUB:{}", if subs >= 1 { "core-occupied" } else { "core-idle" });
    let mut case = Case { steps: cycles as u64 + 4, nontrivial: cycles > 0, ..Default::default() };
    for p in &r.panics {
      case.violations.push(("panic".into(), p.rsplit(" @ ").next().map(mc_core::short_loc).unwrap_or_default(), p.clone(), wit.clone()));
    }
    if let Some(o) = r.result {
      case.outcome = mc_core::digest(&(o.broken.len(), o.x_closed.is_some()));
      case.state = mc_core::digest(&(subs, cycles, o.exchanges_ok));
      if let Some(e) = &o.x_closed {
        case.violations.push(("socket-shut-down-by-other-sockets-activity".into(), class.clone(), format!("{} subscriptions, {} connect/close cycles elsewhere in the context: {}", subs, cycles, e), wit.clone()));
      } else if let Some((stage, e)) = o.broken.first() {
        case.violations.push(("healthy-connection-disturbed".into(), class.clone(), format!("{}: {} ({} subscriptions, {} cycles)", stage, e, subs, cycles), wit.clone()));
      }
    }
    case
  });
  sub
}


// ------------------------------------------------------------------------------------------------
// E3: the connection fails while X has a send towards it in flight
// ------------------------------------------------------------------------------------------------

#[derive(Clone, Copy, Debug, PartialEq, Eq)]
enum MidFault {
  /// the peer's stream is dropped (EOF + broken pipe)
  Drop,
  /// the peer writes a frame header announcing 2^40 bytes
  Garbage,
  /// the peer shuts down its write side and keeps the stream
  HalfClose,
}

#[derive(Clone, Copy, Debug, PartialEq, Eq)]
enum When {
  /// X's send towards the faulty peer is parked on its full pipe
  SendBlocked,
  /// right after the k-th send towards the faulty peer returned
  AfterSends(usize),
}

#[derive(Clone, Copy, Debug)]
struct MidScenario {
  /// X's pair (X first); the faulty peer plays the second type
  pair: Pair,
  fault: MidFault,
  when: When,
  sndtimeo: i32,
  healthy_first: bool,
  x_is_server: bool,
}

#[derive(Debug, Default, Clone)]
struct MidOut {
  sends_done_before_fault: usize,
  send_was_blocked: bool,
  sender_finished: bool,
  sender_last: String,
  base: Out,
}

const BIG: usize = 6000;

fn mid_world(sc: MidScenario) -> world::WorldResult<MidOut> {
  world::run(1, move || async move {
    use std::sync::atomic::{AtomicUsize, Ordering};
    use std::sync::Arc;
    let ctx = Context::new().expect("context");
    let hctx = Context::new().expect("context-h");
    let (tx, th) = sc.pair.types();
    let x = mid_sock(&ctx, tx, &[(o::SNDHWM, 1), (o::SNDTIMEO, sc.sndtimeo)]).await;
    // inbound limit on X only (it makes the impossible frame header a fault); H must be able to take the big messages
    x.set_option(o::MAXMSGSIZE, &2000i64.to_ne_bytes()[..]).await.expect("maxmsgsize");
    let h = mid_sock(&hctx, th, &[]).await;
    let mut out = MidOut::default();
    let mut links = vec![];
    let attach_h = |x: Socket, p: Socket, x_is_server: bool| async move {
      if x_is_server {
        stack::link_pair(&p, &x, 1 << 16).await
      } else {
        stack::link_pair(&x, &p, 1 << 16).await
      }
    };
    if sc.healthy_first {
      links.push(attach_h(x.clone(), h.clone(), sc.x_is_server).await);
      settle_n(6).await;
      match mid_exchange(sc.pair, &x, &h, "pre").await {
        Ok(()) => out.base.exchanges_ok += 1,
        Err(e) => out.base.broken.push(("before-any-fault".into(), e)),
      }
    }
    // the peer that is going to fail: a correct handshake, the traffic its role needs, then it stops reading
    let (good, _) = sc.pair.peer_names();
    let f_type = match sc.pair {
      Pair::RepReq => "DEALER", // a REQ cannot pipeline; a DEALER talking to REP can
      _ => good,
    };
    let mut f = stack::raw_peer(&x, sc.x_is_server, 512).await;
    let _ = stack::write_settle(&mut f, &v3_greeting("NULL", false)).await;
    let _ = stack::write_settle(&mut f, &ready(f_type, if sc.pair == Pair::RouterDealer { Some(b"F") } else { None })).await;
    settle_n(4).await;
    let _ = stack::drain_peer(&mut f).await;
    match sc.pair {
      Pair::RepReq => {
        let mut b = vec![];
        for i in 0..24 {
          b.extend_from_slice(&frame(0x01, b""));
          b.extend_from_slice(&frame(0x00, format!("req-F-{}", i).as_bytes()));
        }
        let _ = stack::write_settle(&mut f, &b).await;
      }
      Pair::RouterDealer => {
        let _ = stack::write_settle(&mut f, &frame(0x00, b"hello-from-F")).await;
      }
      Pair::PubSub => {
        let _ = stack::write_settle(&mut f, &frame(0x00, b"\x01")).await;
      }
      _ => {}
    }
    settle_n(4).await;
    let _ = stack::drain_peer(&mut f).await;
    // X's sender: everything it sends goes (or is meant to go) to F
    let done = Arc::new(AtomicUsize::new(0));
    let finished = Arc::new(parking_lot_free::Flag::default());
    let last = Arc::new(std::sync::Mutex::new(String::new()));
    let limit = match sc.when {
      When::SendBlocked => 64usize,
      When::AfterSends(k) => k,
    };
    let spawn_sender = |limit: usize| {
      let (x, done, finished, last) = (x.clone(), done.clone(), finished.clone(), last.clone());
      let pair = sc.pair;
      tokio::spawn(async move {
        let big = vec![b'B'; BIG];
        for _ in 0..limit {
          let r = match pair {
            Pair::RepReq => match x.recv().await {
              Ok(m) if m.data().unwrap_or(&[]).starts_with(b"req-F") => x.send(msg(&big, false)).await,
              Ok(_) => x.send(msg(b"m-stray", false)).await,
              Err(e) => Err(e),
            },
            Pair::RouterDealer => x.send_multipart(vec![msg(b"F", true), msg(&big, false)]).await,
            _ => x.send(msg(&big, false)).await,
          };
          match r {
            Ok(()) => {
              done.fetch_add(1, Ordering::SeqCst);
            }
            Err(e) => {
              *last.lock().unwrap() = e.to_string();
              break;
            }
          }
        }
        finished.set();
      })
    };
    if sc.pair == Pair::RouterDealer {
      // learn F's identity the way an application does (and take its hello out of the way)
      let _ = x.recv_multipart().await;
    }
    let sender = spawn_sender(limit);
    // wait until the sender is parked (virtual time passes only while everything is idle)
    let mut stable = 0;
    let mut prev = usize::MAX;
    for _ in 0..40 {
      settle_n(3).await;
      if sc.sndtimeo < 0 || matches!(sc.when, When::AfterSends(_)) {
        tokio::time::sleep(Duration::from_millis(1)).await;
      }
      let d = done.load(Ordering::SeqCst);
      if finished.get() {
        break;
      }
      if d == prev {
        stable += 1;
        if stable >= 3 {
          break;
        }
      } else {
        stable = 0;
        prev = d;
      }
    }
    out.sends_done_before_fault = done.load(Ordering::SeqCst);
    out.send_was_blocked = !finished.get();
    // the fault
    let mut keep_f = None;
    match sc.fault {
      MidFault::Drop => drop(f),
      MidFault::Garbage => {
        let mut g = vec![0x02u8];
        g.extend_from_slice(&(1u64 << 40).to_be_bytes());
        g.extend_from_slice(b"abc");
        let _ = f.write_all(&g).await;
        let _ = f.flush().await;
        keep_f = Some(f);
      }
      MidFault::HalfClose => {
        let _ = f.shutdown().await;
        keep_f = Some(f);
      }
    }
    settle_n(6).await;
    let wait_finished = |finished: Arc<parking_lot_free::Flag>| async move {
      let _ = tokio::time::timeout(Duration::from_secs(60), async {
        while !finished.get() {
          tokio::time::sleep(Duration::from_millis(20)).await;
        }
      })
      .await;
    };
    wait_finished(finished.clone()).await;
    let mut senders = vec![sender];
    if matches!(sc.when, When::AfterSends(_)) && finished.get() {
      // keep sending into the failing / failed connection
      finished.clear();
      senders.push(spawn_sender(8));
      wait_finished(finished.clone()).await;
    }
    out.sender_finished = finished.get();
    out.sender_last = last.lock().unwrap().clone();
    settle_n(6).await;
    drop(keep_f);
    settle_n(6).await;
    if !sc.healthy_first {
      links.push(attach_h(x.clone(), h.clone(), sc.x_is_server).await);
      settle_n(6).await;
    }
    // X is an ordinary socket again: its healthy connection works (a load-balancing X may still
    // be delivering the sender's remaining messages to H: the exchange skips them)
    let mut first_err: Option<String> = None;
    let mut ok = false;
    for k in 0..4 {
      match mid_exchange(sc.pair, &x, &h, &format!("post{}", k)).await {
        Ok(()) => {
          ok = true;
          break;
        }
        Err(e) => {
          first_err.get_or_insert(e);
        }
      }
    }
    if ok {
      out.base.exchanges_ok += 1;
    } else {
      out.base.broken.push(("after-fault".into(), first_err.unwrap_or_default()));
    }
    out.base.x_closed = still_open(&x).await;
    out.base.h_closed = still_open(&h).await;
    let h2 = mid_sock(&hctx, th, &[]).await;
    links.push(attach_h(x.clone(), h2.clone(), sc.x_is_server).await);
    settle_n(6).await;
    let mut ok = false;
    let mut first_err: Option<String> = None;
    for k in 0..5 {
      match mid_exchange(sc.pair, &x, &h2, &format!("n{}", k)).await {
        Ok(()) => {
          ok = true;
          break;
        }
        Err(e) => {
          first_err.get_or_insert(e);
        }
      }
    }
    if !ok {
      out.base.new_peer_failed = first_err;
    }
    drop(senders);
    for l in &links {
      l.destroy();
    }
    let _ = tokio::time::timeout(Duration::from_secs(30), ctx.term()).await;
    let _ = tokio::time::timeout(Duration::from_secs(30), hctx.term()).await;
    out
  })
}

async fn mid_sock(ctx: &Context, ty: SocketType, extra: &[(i32, i32)]) -> Socket {
  let mut opts = vec![(o::RCVTIMEO, 50), (o::SNDTIMEO, 50), (o::LINGER, 0)];
  opts.extend_from_slice(extra);
  let s = stack::mk(ctx, ty, &opts).await;
  if ty == SocketType::Sub {
    s.set_option(o::SUBSCRIBE, &b""[..]).await.expect("subscribe");
  }
  s
}

/// receive until a message whose last frame is `body` shows up; everything else (left-overs of the
/// failed peer, the sender's big messages, strays of earlier rounds) is skipped
async fn recv_body(s: &Socket, body: &[u8], what: &str) -> Result<Vec<rzmq::Msg>, String> {
  let mut idle = 0;
  for _ in 0..400 {
    match s.recv_multipart().await {
      Ok(fr) => {
        if fr.last().map(|m| m.data().unwrap_or(&[]) == body).unwrap_or(false) {
          return Ok(fr);
        }
      }
      Err(e) if stack::is_would_block(&e) => {
        idle += 1;
        if idle >= 3 {
          return Err(format!("{}: {}", what, e));
        }
      }
      Err(e) => return Err(format!("{}: {}", what, e)),
    }
  }
  Err(format!("{}: the expected message never arrived", what))
}

/// One application-level exchange X <-> P that tolerates foreign messages on both sides. A REP X
/// answers whatever is left over from the failed peer first (an application serving a REP socket
/// does exactly that: recv, send, recv, ...).
async fn mid_exchange(pair: Pair, x: &Socket, p: &Socket, tag: &str) -> Result<(), String> {
  let body = format!("m-{}", tag).into_bytes();
  match pair {
    Pair::RepReq => {
      if let Err(e) = p.send(msg(&body, false)).await {
        // a REQ whose previous round failed: finish that round, then try once more
        let _ = p.recv().await;
        p.send(msg(&body, false)).await.map_err(|e2| format!("healthy REQ send: {} (then {})", e, e2))?;
      }
      settle().await;
      let mut idle = 0;
      let mut errors = 0;
      for _ in 0..120 {
        let m = match x.recv().await {
          Ok(m) => m,
          Err(e) if stack::is_would_block(&e) && idle < 3 => {
            idle += 1;
            continue;
          }
          // a request of the vanished peer that was already queued may surface as an error of this
          // one recv(); the socket has to carry on with the next request
          Err(e) if !stack::is_would_block(&e) && errors < 40 => {
            errors += 1;
            let _ = e;
            continue;
          }
          Err(e) => return Err(format!("REP recv: {}", e)),
        };
        let ours = m.data().unwrap_or(&[]) == &body[..];
        let r = x.send(msg(if ours { &body[..] } else { &b"left-over"[..] }, false)).await;
        if ours {
          r.map_err(|e| format!("REP send: {}", e))?;
          settle().await;
          return recv_body(p, &body, "healthy REQ recv").await.map(|_| ());
        }
      }
      Err("REP never saw the healthy peer's request".into())
    }
    Pair::RouterDealer => {
      p.send(msg(&body, false)).await.map_err(|e| format!("healthy DEALER send: {}", e))?;
      settle().await;
      let fr = recv_body(x, &body, "ROUTER recv").await?;
      if fr.len() != 2 {
        return Err(format!("ROUTER recv: {} frames", fr.len()));
      }
      let id = fr[0].data().unwrap_or(&[]).to_vec();
      x.send_multipart(vec![msg(&id, true), msg(&body, false)]).await.map_err(|e| format!("ROUTER reply: {}", e))?;
      settle().await;
      recv_body(p, &body, "healthy DEALER recv").await.map(|_| ())
    }
    Pair::DealerRouter => {
      x.send(msg(&body, false)).await.map_err(|e| format!("DEALER send: {}", e))?;
      settle().await;
      let fr = recv_body(p, &body, "healthy ROUTER recv").await?;
      if fr.len() != 2 {
        return Err(format!("healthy ROUTER recv: {} frames", fr.len()));
      }
      let id = fr[0].data().unwrap_or(&[]).to_vec();
      p.send_multipart(vec![msg(&id, true), msg(&body, false)]).await.map_err(|e| format!("healthy ROUTER reply: {}", e))?;
      settle().await;
      recv_body(x, &body, "DEALER recv").await.map(|_| ())
    }
    Pair::PushPull => {
      x.send(msg(&body, false)).await.map_err(|e| format!("PUSH send: {}", e))?;
      settle().await;
      recv_body(p, &body, "healthy PULL recv").await.map(|_| ())
    }
    Pair::PubSub => {
      x.send(msg(&body, false)).await.map_err(|e| format!("PUB send: {}", e))?;
      settle().await;
      recv_body(p, &body, "healthy SUB recv").await.map(|_| ())
    }
    _ => Err("pair not used in this sub".into()),
  }
}

mod parking_lot_free {
  use std::sync::atomic::{AtomicBool, Ordering};
  #[derive(Default)]
  pub struct Flag(AtomicBool);
  impl Flag {
    pub fn set(&self) {
      self.0.store(true, Ordering::SeqCst)
    }
    pub fn clear(&self) {
      self.0.store(false, Ordering::SeqCst)
    }
    pub fn get(&self) -> bool {
      self.0.load(Ordering::SeqCst)
    }
  }
}

fn mid_scenarios(tier: Tier) -> Vec<MidScenario> {
  let mut v = vec![];
  for pair in [Pair::RepReq, Pair::RouterDealer, Pair::DealerRouter, Pair::PushPull, Pair::PubSub] {
    for fault in [MidFault::Drop, MidFault::Garbage, MidFault::HalfClose] {
      let whens: Vec<When> = if tier == Tier::Thorough { vec![When::SendBlocked, When::AfterSends(1), When::AfterSends(2), When::AfterSends(3), When::AfterSends(5)] } else { vec![When::SendBlocked, When::AfterSends(1), When::AfterSends(3)] };
      for when in whens {
        let timeos: Vec<i32> = if pair == Pair::PubSub { vec![300] } else if tier == Tier::Thorough { vec![-1, 300, 5000] } else { vec![-1, 300] };
        for sndtimeo in timeos {
          let firsts: &[bool] = if pair.x_load_balances() { &[false] } else { &[true, false] };
          for &healthy_first in firsts {
            for x_is_server in [true, false] {
              v.push(MidScenario { pair, fault, when, sndtimeo, healthy_first, x_is_server });
            }
          }
        }
      }
    }
  }
  v
}

fn mid_sub(tier: Tier) -> Sub {
  let mut sub = Sub::new("fault-during-send", "E3");
  sub.rule = "case = one world: socket X (SNDHWM=1) with a scripted peer F that completes the handshake, sends what its role needs (pipelined requests / a hello / a subscription) and stops reading; X keeps sending 6000-byte messages towards F; the fault (stream dropped / impossible frame header / half-close) is injected either while X's send is parked on F's full pipe or right after the k-th send returned; afterwards X exchanges with a healthy rzmq peer H (attached before or after) and with a newly attached peer; non-trivial = X's sender had accepted at least one message for F; oracle: the exchanges with H and with the new peer succeed, X and H stay open, nothing panics, the parked send returns".into();
  let list = mid_scenarios(tier);
  sub.bounds = json!({"scenarios": list.len(), "x_types": ["REP", "ROUTER", "DEALER", "PUSH", "PUB"], "faults": 3, "sndtimeo_ms": [-1, 300, 5000]});
  par::enumerate(&mut sub, list.len(), |i| {
    let sc = list[i];
    let r = mid_world(sc);
    let wit = json!({"explorer": "e3", "sub": "fault-during-send", "index": i, "scenario": format!("{:?}", sc)});
    let class = format!("{:?}:{:?}:{}", sc.pair, sc.fault, if sc.when == When::SendBlocked { "send-parked" } else { "between-sends" });
    let mut case = Case { steps: 6, ..Default::default() };
    for p in &r.panics {
      case.violations.push(("panic".into(), format!("{}:{:?}", p.rsplit(" @ ").next().map(mc_core::short_loc).unwrap_or_default(), sc.fault), p.clone(), wit.clone()));
    }
    if let Some(o) = r.result {
      case.nontrivial = o.sends_done_before_fault >= 1;
      case.outcome = mc_core::digest(&(o.base.broken.len(), o.base.x_closed.is_some(), o.base.new_peer_failed.is_some(), o.send_was_blocked, o.sender_finished, o.sender_last.clone()));
      case.state = mc_core::digest(&(format!("{:?}", sc), o.sends_done_before_fault, o.send_was_blocked));
      if let Some((stage, e)) = o.base.broken.first() {
        case.violations.push(("healthy-connection-disturbed".into(), class.clone(), format!("{}: {} (SNDTIMEO {}, healthy peer attached {}, {} sends accepted before the fault, sender ended with {:?})", stage, e, sc.sndtimeo, if sc.healthy_first { "first" } else { "afterwards" }, o.sends_done_before_fault, o.sender_last), wit.clone()));
      }
      if let Some(e) = &o.base.x_closed {
        case.violations.push(("socket-shut-down-by-peer-fault".into(), class.clone(), e.clone(), wit.clone()));
      }
      if let Some(e) = &o.base.h_closed {
        case.violations.push(("healthy-peer-socket-shut-down".into(), class.clone(), e.clone(), wit.clone()));
      }
      if let Some(e) = &o.base.new_peer_failed {
        case.violations.push(("new-connection-not-served-after-fault".into(), class.clone(), e.clone(), wit.clone()));
      }
      if !o.sender_finished && !(sc.pair.x_load_balances() && sc.sndtimeo < 0) {
        case.violations.push(("send-to-failed-peer-never-returns".into(), class.clone(), format!("X's sender was still inside send() 60 s (virtual) after the connection failed (SNDTIMEO {})", sc.sndtimeo), wit.clone()));
      }
      if i % 23 == 0 {
        case.sample = Some(json!({"scenario": format!("{:?}", sc), "sends_before_fault": o.sends_done_before_fault, "send_was_parked": o.send_was_blocked, "sender_ended_with": o.sender_last}));
      }
    }
    case
  });
  sub
}

pub fn run(tier: Tier) -> Report {
  let mut rep = Report::new("C17", tier, "model_checking");
  rep.assume("E3 fault injection happens on in-memory streams attached through the tcp/ipc post-accept / post-connect code path; faults are injected chunk by chunk at quiescence points; the healthy peer lives in its own context");
  rep.assume("RECONNECT_IVL_MAX smaller than RECONNECT_IVL: the first delay may be either value (libzmq ignores such a maximum); all other clauses apply");
  rep.add(backoff_sub(tier));
  rep.add(locality_sub(tier));
  rep.add(mid_sub(tier));
  rep.add(inproc_sub(tier));
  rep.add(bus_pressure_sub(tier));
  rep.add(crate::c17_real::retry_sub(tier));
  rep
}

pub fn replay(_sub: &str, w: &Value) -> Result<String, String> {
  if w["explorer"] == "e4" {
    return crate::c17_real::replay(w);
  }
  if w["explorer"] == "e1" {
    return Err(format!("re-run ./check C17 (witness {})", w));
  }
  let idx = w["index"].as_u64().ok_or("no index")? as usize;
  let summarize = |r: world::WorldResult<Out>| -> Result<String, String> {
    if !r.panics.is_empty() {
      return Err(format!("panics: {:?}", r.panics));
    }
    let o = r.result.ok_or("world did not finish")?;
    if o.broken.is_empty() && o.x_closed.is_none() && o.h_closed.is_none() && o.new_peer_failed.is_none() {
      Ok(format!("world completes without violation: {:?}", o))
    } else {
      Err(format!("{:?}", o))
    }
  };
  if w["sub"] == "fault-during-send" {
    for tier in [Tier::Quick, Tier::Thorough] {
      let list = mid_scenarios(tier);
      if let Some(sc) = list.get(idx) {
        if w["scenario"] == format!("{:?}", sc) {
          let r = mid_world(*sc);
          if !r.panics.is_empty() {
            return Err(format!("panics: {:?}", r.panics));
          }
          let o = r.result.ok_or("world did not finish")?;
          return if o.base.broken.is_empty() && o.base.x_closed.is_none() && o.base.h_closed.is_none() && o.base.new_peer_failed.is_none() && o.sender_finished {
            Ok(format!("world completes without violation: {:?}", o))
          } else {
            Err(format!("{:?}", o))
          };
        }
      }
    }
    return Err("scenario not found".into());
  }
  if w["sub"] == "event-bus-pressure" {
    let sc = w["scenario"].as_str().unwrap_or("");
    let nums: Vec<usize> = sc.split(|c: char| !c.is_ascii_digit()).filter(|t| !t.is_empty()).filter_map(|t| t.parse().ok()).collect();
    if nums.len() != 2 {
      return Err("bad scenario".into());
    }
    return summarize(bus_pressure_world(nums[0], nums[1]));
  }
  if w["sub"] == "inproc-locality" {
    let pairs = [Pair::PullPush, Pair::PushPull, Pair::RouterDealer, Pair::DealerRouter, Pair::RepReq, Pair::ReqRep, Pair::PubSub, Pair::SubPub];
    let faults = [InprocFault::IncompatibleConnector, InprocFault::ConnectToUnboundName, InprocFault::BinderOfOtherNameCloses, InprocFault::ConnectorCloses, InprocFault::BurstOfConnectDisconnect];
    let mut list = vec![];
    for p in pairs {
      for f in faults {
        for hf in [true, false] {
          list.push((p, f, hf));
        }
      }
    }
    let (p, f, hf) = *list.get(idx).ok_or("index out of range")?;
    return summarize(inproc_world(p, f, hf));
  }
  for tier in [Tier::Quick, Tier::Thorough] {
    let list = scenarios(tier);
    if let Some(sc) = list.get(idx) {
      if w["scenario"] == format!("{:?}", sc) {
        return summarize(run_scenario(sc));
      }
    }
  }
  Err("scenario not found".into())
}
