//! Exhaustive enumeration of an indexed finite space on all cores, deterministic aggregation.

use crate::report::Sub;
use serde_json::Value;
use std::collections::HashSet;
use std::sync::atomic::{AtomicU64, AtomicUsize, Ordering};
use std::sync::Mutex;

/// What one case reports back.
#[derive(Default)]
pub struct Case {
  pub nontrivial: bool,
  /// digest of the observable outcome (for distinct-outcome counting)
  pub outcome: u64,
  /// digest of the canonical state reached (for `states`)
  pub state: u64,
  /// events / steps executed by this case
  pub steps: u64,
  /// number of real-code executions this case performed (0 is counted as 1)
  pub evals: u64,
  /// additional state / outcome digests visited inside this case
  pub more_states: Vec<u64>,
  /// (oracle clause, witness class, detail, witness)
  pub violations: Vec<(String, String, String, Value)>,
  pub sample: Option<Value>,
}

thread_local! {
  static LOCAL_THREADS: std::cell::Cell<Option<usize>> = const { std::cell::Cell::new(None) };
}

/// Limit the worker count used by explorers started from this thread (for nested parallelism).
pub fn set_local_threads(n: Option<usize>) {
  LOCAL_THREADS.with(|c| c.set(n));
}

pub fn threads() -> usize {
  if let Some(n) = LOCAL_THREADS.with(|c| c.get()) {
    return n;
  }
  std::env::var("MC_THREADS")
    .ok()
    .and_then(|s| s.parse().ok())
    .unwrap_or_else(|| std::thread::available_parallelism().map(|n| n.get()).unwrap_or(4))
}

/// Run `f(i)` for every `i in 0..n` on all cores. Violations are reported smallest-index first
/// per signature, so the witness is the simplest one under the caller's enumeration order.
pub fn enumerate(sub: &mut Sub, n: usize, f: impl Fn(usize) -> Case + Sync) {
  let next = AtomicUsize::new(0);
  let evals = AtomicU64::new(0);
  let steps = AtomicU64::new(0);
  let nontriv = AtomicU64::new(0);
  let outcomes: Mutex<HashSet<u64>> = Mutex::new(HashSet::new());
  let states: Mutex<HashSet<u64>> = Mutex::new(HashSet::new());
  let viol: Mutex<Vec<(usize, String, String, String, Value)>> = Mutex::new(vec![]);
  let samples: Mutex<Vec<(usize, Value)>> = Mutex::new(vec![]);
  let deadline = crate::world::deadline_from_env();
  let capped = std::sync::atomic::AtomicBool::new(false);
  let chunk = (n / (threads() * 64)).clamp(1, 4096);
  std::thread::scope(|s| {
    for _ in 0..threads() {
      s.spawn(|| {
        let mut lo = HashSet::new();
        let mut ls = HashSet::new();
        loop {
          let start = next.fetch_add(chunk, Ordering::Relaxed);
          if start >= n {
            break;
          }
          if let Some(d) = deadline {
            if std::time::Instant::now() > d {
              capped.store(true, Ordering::Relaxed);
              break;
            }
          }
          for i in start..(start + chunk).min(n) {
            let c = f(i);
            evals.fetch_add(c.evals.max(1), Ordering::Relaxed);
            ls.extend(c.more_states.iter().copied());
            steps.fetch_add(c.steps, Ordering::Relaxed);
            if c.nontrivial {
              nontriv.fetch_add(1, Ordering::Relaxed);
            }
            lo.insert(c.outcome);
            ls.insert(c.state);
            if !c.violations.is_empty() {
              let mut v = viol.lock().unwrap();
              for (a, b, d, w) in c.violations {
                v.push((i, a, b, d, w));
              }
            }
            if let Some(sv) = c.sample {
              let mut sm = samples.lock().unwrap();
              if sm.len() < 64 {
                sm.push((i, sv));
              }
            }
          }
        }
        outcomes.lock().unwrap().extend(lo);
        states.lock().unwrap().extend(ls);
      });
    }
  });
  sub.evaluations += evals.load(Ordering::Relaxed);
  sub.transitions += steps.load(Ordering::Relaxed);
  sub.nontrivial += nontriv.load(Ordering::Relaxed);
  sub.distinct_outcomes += outcomes.lock().unwrap().len() as u64;
  sub.states += states.lock().unwrap().len() as u64;
  if capped.load(Ordering::Relaxed) {
    sub.exhaustive = false;
    sub.caps_hit.push(format!("wall-clock cap reached after {} of {} cases", evals.load(Ordering::Relaxed), n));
  }
  let mut v = viol.into_inner().unwrap();
  v.sort_by(|a, b| a.0.cmp(&b.0));
  for (_, clause, class, detail, w) in v {
    sub.violate(&clause, &class, detail, w);
  }
  let mut sm = samples.into_inner().unwrap();
  sm.sort_by(|a, b| a.0.cmp(&b.0));
  for (_, s) in sm.into_iter().take(3) {
    sub.sample(s);
  }
}


/// For real-clock (E4) cells, which are single real-time executions under whatever load the machine
/// has: a violation is reported only if the same (clause, class) shows again when the cell is
/// executed a second time. A defect that is there reproduces; a one-off caused by scheduling noise
/// does not, and is recorded in the sample as unconfirmed instead of raising an alarm.
pub fn confirmed(run_cell: impl Fn() -> Case) -> Case {
  let mut first = run_cell();
  if first.violations.is_empty() {
    return first;
  }
  let second = run_cell();
  let mut unconfirmed = vec![];
  first.violations.retain(|v| {
    let again = second.violations.iter().any(|w| w.0 == v.0 && w.1 == v.1);
    if !again {
      unconfirmed.push(format!("{}/{}: {}", v.0, v.1, v.2));
    }
    again
  });
  first.evals = first.evals.max(1) + second.evals.max(1);
  if !unconfirmed.is_empty() {
    let prev = first.sample.take().unwrap_or(serde_json::Value::Null);
    first.sample = Some(serde_json::json!({"observed_once_not_on_the_second_run": unconfirmed, "sample": prev}));
  }
  first
}
