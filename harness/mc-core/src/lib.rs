//! Shared machinery for the rzmq model-checking harness: evidence/report writer, known-findings
//! matcher, exhaustive enumerators (E1), the preemption-bounded scheduler over shuttle (E2) and the
//! deterministic paused-clock world (E3).

pub mod bfs;
pub mod e2;
pub mod par;
pub mod report;
pub mod world;

pub use report::{Report, Sub, Tier, Violation};

/// Deterministic 64-bit digest (SipHash with fixed keys) of anything hashable.
pub fn digest<T: std::hash::Hash>(t: &T) -> u64 {
  use std::hash::Hasher;
  #[allow(deprecated)]
  let mut h = std::hash::SipHasher::new_with_keys(0x5eed, 0xc0ffee);
  t.hash(&mut h);
  h.finish()
}

/// Run `f`, converting a panic into `Err(message)`.
pub fn catch<R>(f: impl FnOnce() -> R) -> Result<R, String> {
  let _ = take_panic_location();
  match std::panic::catch_unwind(std::panic::AssertUnwindSafe(f)) {
    Ok(r) => Ok(r),
    Err(e) => {
      // keep the location available for the caller (take_panic_location) but also in the text
      let loc = LAST_PANIC_LOC.with(|c| c.borrow().clone()).map(|l| short_loc(&l)).unwrap_or_default();
      Err(format!("{} [at {}]", panic_msg(&e), loc))
    }
  }
}

/// Extracts the "[at file:line]" suffix appended by `catch`.
pub fn loc_of(msg: &str) -> String {
  match msg.rfind("[at ") {
    Some(i) => msg[i + 4..].trim_end_matches(']').to_string(),
    None => String::new(),
  }
}

pub fn panic_msg(e: &Box<dyn std::any::Any + Send>) -> String {
  if let Some(s) = e.downcast_ref::<&str>() {
    s.to_string()
  } else if let Some(s) = e.downcast_ref::<String>() {
    s.clone()
  } else {
    "<non-string panic>".to_string()
  }
}

thread_local! {
  static LAST_PANIC_LOC: std::cell::RefCell<Option<String>> = const { std::cell::RefCell::new(None) };
}

/// Install a quiet panic hook that records the panic location per thread (so that thousands of
/// expected, caught panics do not flood stderr) — call once at start-up.
pub fn install_quiet_panic_hook() {
  std::panic::set_hook(Box::new(|info| {
    let loc = info.location().map(|l| format!("{}:{}", l.file(), l.line())).unwrap_or_default();
    LAST_PANIC_LOC.with(|c| *c.borrow_mut() = Some(loc.clone()));
    world::note_panic(&format!("{} @ {}", payload_str(info), loc));
    if std::env::var_os("MC_VERBOSE_PANICS").is_some() {
      eprintln!("panic: {} at {}", payload_str(info), loc);
    }
  }));
}

fn payload_str(info: &std::panic::PanicHookInfo<'_>) -> String {
  if let Some(s) = info.payload().downcast_ref::<&str>() {
    s.to_string()
  } else if let Some(s) = info.payload().downcast_ref::<String>() {
    s.clone()
  } else {
    "<panic>".into()
  }
}

/// Location ("file:line") of the most recent panic on this thread, if any; clears it.
pub fn take_panic_location() -> Option<String> {
  LAST_PANIC_LOC.with(|c| c.borrow_mut().take())
}

/// Strip the machine-specific prefix from a source path so signatures are stable.
pub fn short_loc(loc: &str) -> String {
  match loc.find("core/src/") {
    Some(i) => loc[i..].to_string(),
    None => match loc.rfind("/src/") {
      Some(i) => {
        let start = loc[..i].rfind('/').map(|j| j + 1).unwrap_or(0);
        loc[start..].to_string()
      }
      None => loc.to_string(),
    },
  }
}
