//! E3 — deterministic world: a paused-clock, current-thread tokio runtime on which the whole rzmq
//! stack runs over `inproc://` or over in-memory duplex streams attached through the verif facade.
//! Also: process-wide caps (wall-clock deadline, watchdog) and the machinery-error flag.

use std::cell::RefCell;
use std::future::Future;
use std::sync::atomic::{AtomicBool, AtomicU64, Ordering};
use std::sync::Arc;
use std::time::{Duration, Instant};
use tokio::io::{AsyncReadExt, AsyncWriteExt, DuplexStream};

static MACHINERY_ERROR: AtomicBool = AtomicBool::new(false);
static PROGRESS: AtomicU64 = AtomicU64::new(0);

pub fn flag_machinery_error() {
  MACHINERY_ERROR.store(true, Ordering::SeqCst);
}
pub fn machinery_error() -> bool {
  MACHINERY_ERROR.load(Ordering::SeqCst)
}

static DEADLINE: std::sync::OnceLock<Option<Instant>> = std::sync::OnceLock::new();

/// Per-process soft deadline for explorers (`MC_BUDGET_S`): explorers stop enumerating, report
/// `exhaustive:false` and name the cap. Unset = no cap beyond the per-explorer ones.
pub fn deadline_from_env() -> Option<Instant> {
  *DEADLINE.get_or_init(|| {
    std::env::var("MC_BUDGET_S").ok().and_then(|s| s.parse::<u64>().ok()).map(|s| Instant::now() + Duration::from_secs(s))
  })
}

pub fn tick_progress() {
  PROGRESS.fetch_add(1, Ordering::Relaxed);
}

/// Hard watchdog: if the process makes no progress for `stall` or runs longer than `total`, it is
/// a machinery failure (exit 2), never a verdict.
pub fn start_watchdog(total: Duration, what: String) {
  std::thread::spawn(move || {
    let start = Instant::now();
    loop {
      std::thread::sleep(Duration::from_secs(5));
      if start.elapsed() > total {
        eprintln!("MACHINERY: watchdog: {} exceeded {:?} — aborting (no verdict)", what, total);
        std::process::exit(2);
      }
    }
  });
}

thread_local! {
  static PANICS: RefCell<Vec<String>> = const { RefCell::new(Vec::new()) };
}

pub fn note_panic(msg: &str) {
  crate::e2::note_panic_step();
  PANICS.with(|p| {
    let mut p = p.borrow_mut();
    if p.len() < 16 {
      p.push(msg.to_string());
    }
  });
}

pub fn take_panics() -> Vec<String> {
  PANICS.with(|p| std::mem::take(&mut *p.borrow_mut()))
}

/// Quiescence: under a paused clock a sleep completes only when every other task is idle.
pub async fn settle() {
  tokio::time::sleep(Duration::from_millis(1)).await;
}

pub async fn settle_n(n: usize) {
  for _ in 0..n {
    settle().await;
  }
}

/// Virtual seconds a single scenario may take.
pub const VIRTUAL_BUDGET_S: u64 = 4 * 3600;

pub struct WorldResult<R> {
  pub result: Option<R>,
  /// panics seen on this thread (any task) during the run
  pub panics: Vec<String>,
  pub alive_tasks_after: usize,
}

thread_local! {
  static KEEP: std::cell::RefCell<Vec<Box<dyn std::any::Any>>> = std::cell::RefCell::new(Vec::new());
}

/// Keeps a value (typically a `Link`) alive until the current world ends, then drops it. Use this
/// instead of `mem::forget`: a forgotten `Link` leaks its pumps' `AbortHandle`s, which keep the
/// world's runtime handle — and its epoll/eventfd descriptors — alive for the rest of the process.
pub fn keep<T: 'static>(t: T) {
  KEEP.with(|k| k.borrow_mut().push(Box::new(t)));
}

/// Run one scenario on a fresh deterministic runtime. Panics in any task are collected.
pub fn run<F, Fut, R>(seed: u64, f: F) -> WorldResult<R>
where
  F: FnOnce() -> Fut,
  Fut: Future<Output = R>,
{
  let _ = take_panics();
  let rt = tokio::runtime::Builder::new_current_thread()
    .enable_all()
    .start_paused(true)
    .rng_seed(tokio::runtime::RngSeed::from_bytes(&seed.to_le_bytes()))
    .build()
    .unwrap_or_else(|e| {
      // diagnostic for descriptor exhaustion: say what is open
      let mut kinds: std::collections::BTreeMap<String, usize> = Default::default();
      if let Ok(rd) = std::fs::read_dir("/proc/self/fd") {
        for ent in rd.flatten() {
          let t = std::fs::read_link(ent.path()).map(|p| p.to_string_lossy().split(':').next().unwrap_or("").to_string()).unwrap_or_default();
          *kinds.entry(t).or_default() += 1;
        }
      }
      eprintln!("MACHINERY: cannot build a runtime: {} (open descriptors by kind: {:?})", e, kinds);
      flag_machinery_error();
      panic!("runtime: {}", e)
    });
  // every scenario is bounded in virtual time: a scenario that never finishes (a call blocked for
  // good while timers keep firing) must not hang the explorer
  let result = match std::panic::catch_unwind(std::panic::AssertUnwindSafe(|| {
    rt.block_on(async {
      match tokio::time::timeout(Duration::from_secs(VIRTUAL_BUDGET_S), f()).await {
        Ok(r) => Some(r),
        Err(_) => {
          note_panic("world: scenario exceeded its virtual-time budget (something is blocked for good) @ world-budget");
          None
        }
      }
    })
  })) {
    Ok(r) => r,
    Err(_) => None,
  };
  let alive = rt.metrics().num_alive_tasks();
  KEEP.with(|k| k.borrow_mut().clear());
  rt.shutdown_background();
  tick_progress();
  WorldResult { result, panics: take_panics(), alive_tasks_after: alive }
}

// ------------------------------------------------------------------------------------------------
// Link: a harness-owned byte pump between two in-memory streams.
// ------------------------------------------------------------------------------------------------

#[derive(Debug)]
struct Dir {
  /// bytes read from the source side and not yet forwarded
  pending: std::collections::VecDeque<u8>,
  /// how many bytes may still be forwarded (None = unlimited)
  budget: Option<usize>,
  /// max bytes per single write to the destination (read boundary control); None = all at once
  chunk: Option<usize>,
  eof_seen: bool,
  forwarded: usize,
  closed: bool,
  /// the "network" is stalled: the pump neither forwards nor reads (the sender's stream buffer fills up)
  stalled: bool,
}

impl Dir {
  fn new() -> Self {
    Dir { pending: Default::default(), budget: None, chunk: None, eof_seen: false, forwarded: 0, closed: false, stalled: false }
  }
}

struct LinkState {
  ab: Dir,
  ba: Dir,
  pumps: Vec<tokio::task::AbortHandle>,
}

/// Bidirectional pump. `a` and `b` are the link's own ends; the sockets under test hold the peers
/// of those duplex streams.
#[derive(Clone)]
pub struct Link {
  st: Arc<parking_lot::Mutex<LinkState>>,
  wake: Arc<tokio::sync::Notify>,
}

#[derive(Clone, Copy, Debug, PartialEq, Eq)]
pub enum Way {
  AtoB,
  BtoA,
}

impl Link {
  /// Spawns the two pump tasks on the current runtime.
  pub fn spawn(a: DuplexStream, b: DuplexStream) -> Link {
    let st = Arc::new(parking_lot::Mutex::new(LinkState { ab: Dir::new(), ba: Dir::new(), pumps: vec![] }));
    let wake = Arc::new(tokio::sync::Notify::new());
    let (ar, aw) = tokio::io::split(a);
    let (br, bw) = tokio::io::split(b);
    let l = Link { st, wake };
    let h1 = tokio::spawn(pump(l.clone(), Way::AtoB, ar, bw)).abort_handle();
    let h2 = tokio::spawn(pump(l.clone(), Way::BtoA, br, aw)).abort_handle();
    l.st.lock().pumps = vec![h1, h2];
    l
  }

  /// Ends the two pump tasks (the stream ends they own are dropped: both peers see EOF). Used before
  /// counting the tasks that are still alive in a world, so the harness's own tasks are not counted.
  pub fn destroy(&self) {
    for h in self.st.lock().pumps.drain(..) {
      h.abort();
    }
  }

  fn with<R>(&self, w: Way, f: impl FnOnce(&mut Dir) -> R) -> R {
    let mut s = self.st.lock();
    let r = match w {
      Way::AtoB => f(&mut s.ab),
      Way::BtoA => f(&mut s.ba),
    };
    drop(s);
    self.wake.notify_waiters();
    r
  }

  /// Hold everything in this direction.
  pub fn hold(&self, w: Way) {
    self.with(w, |d| d.budget = Some(0));
  }
  pub fn hold_both(&self) {
    self.hold(Way::AtoB);
    self.hold(Way::BtoA);
  }
  /// Let `n` more bytes through.
  pub fn allow(&self, w: Way, n: usize) {
    self.with(w, |d| d.budget = Some(d.budget.unwrap_or(0) + n));
  }
  /// Forward freely.
  pub fn release(&self, w: Way) {
    self.with(w, |d| d.budget = None);
  }
  pub fn release_both(&self) {
    self.release(Way::AtoB);
    self.release(Way::BtoA);
  }
  /// Stall / un-stall the network in one direction: while stalled nothing is read from the sending
  /// side either, so its stream buffer fills like a kernel socket buffer whose peer has stopped reading.
  pub fn stall(&self, w: Way, on: bool) {
    self.with(w, |d| d.stalled = on);
  }
  pub fn set_chunk(&self, w: Way, chunk: Option<usize>) {
    self.with(w, |d| d.chunk = chunk);
  }
  pub fn pending(&self, w: Way) -> usize {
    self.with(w, |d| d.pending.len())
  }
  pub fn forwarded(&self, w: Way) -> usize {
    self.with(w, |d| d.forwarded)
  }
  /// Drop the connection (both directions see EOF / broken pipe).
  pub fn cut(&self) {
    {
      let mut s = self.st.lock();
      s.ab.closed = true;
      s.ba.closed = true;
    }
    self.wake.notify_waiters();
  }
}

async fn pump(
  l: Link,
  w: Way,
  mut src: tokio::io::ReadHalf<DuplexStream>,
  mut dst: tokio::io::WriteHalf<DuplexStream>,
) {
  let mut buf = vec![0u8; 64 * 1024];
  loop {
    // forward what we may
    loop {
      let (chunk, closed): (Vec<u8>, bool) = {
        let mut s = l.st.lock();
        let d = match w {
          Way::AtoB => &mut s.ab,
          Way::BtoA => &mut s.ba,
        };
        if d.closed {
          (vec![], true)
        } else if d.stalled {
          (vec![], false)
        } else {
          let mut n = d.pending.len();
          if let Some(b) = d.budget {
            n = n.min(b);
          }
          if let Some(c) = d.chunk {
            n = n.min(c);
          }
          let out: Vec<u8> = d.pending.drain(..n).collect();
          if let Some(b) = d.budget.as_mut() {
            *b -= n;
          }
          d.forwarded += n;
          (out, false)
        }
      };
      if closed {
        let _ = dst.shutdown().await;
        return;
      }
      if chunk.is_empty() {
        break;
      }
      if dst.write_all(&chunk).await.is_err() {
        return;
      }
      let _ = dst.flush().await;
      // one chunk per scheduler turn so that the reader really sees separate reads
      tokio::task::yield_now().await;
    }
    let eof = {
      let s = l.st.lock();
      let d = match w {
        Way::AtoB => &s.ab,
        Way::BtoA => &s.ba,
      };
      d.eof_seen && d.pending.is_empty()
    };
    if eof {
      let _ = dst.shutdown().await;
      return;
    }
    let notified = l.wake.notified();
    tokio::pin!(notified);
    let already_eof = {
      let s = l.st.lock();
      match w {
        Way::AtoB => s.ab.eof_seen || s.ab.stalled,
        Way::BtoA => s.ba.eof_seen || s.ba.stalled,
      }
    };
    tokio::select! {
      biased;
      _ = &mut notified => {}
      r = src.read(&mut buf), if !already_eof => {
        match r {
          Ok(0) | Err(_) => {
            let mut s = l.st.lock();
            match w { Way::AtoB => s.ab.eof_seen = true, Way::BtoA => s.ba.eof_seen = true }
          }
          Ok(n) => {
            let mut s = l.st.lock();
            match w { Way::AtoB => s.ab.pending.extend(&buf[..n]), Way::BtoA => s.ba.pending.extend(&buf[..n]) }
          }
        }
      }
    }
  }
}

// ------------------------------------------------------------------------------------------------
// Gates: deterministic control of async check-then-act windows (`verif::sched::gate`).
// ------------------------------------------------------------------------------------------------

struct GateCtl {
  /// (id, label, release flag)
  waiting: Vec<(u64, &'static str, Arc<tokio::sync::Notify>, Arc<AtomicBool>)>,
  next_id: u64,
  /// labels that should block; everything else passes straight through
  armed: Vec<&'static str>,
}

thread_local! {
  static GATES: RefCell<Option<GateCtl>> = const { RefCell::new(None) };
}

/// Arm the given gate labels on this thread (E3 worlds are single-threaded).
pub fn gates_arm(labels: &[&'static str]) {
  GATES.with(|g| *g.borrow_mut() = Some(GateCtl { waiting: vec![], next_id: 0, armed: labels.to_vec() }));
}
pub fn gates_disarm() {
  GATES.with(|g| {
    if let Some(c) = g.borrow_mut().take() {
      for (_, _, n, f) in c.waiting {
        f.store(true, Ordering::SeqCst);
        n.notify_one();
      }
    }
  });
}
/// Tasks currently parked at a gate: (id, label), in arrival order.
pub fn gates_waiting() -> Vec<(u64, &'static str)> {
  GATES.with(|g| g.borrow().as_ref().map(|c| c.waiting.iter().map(|w| (w.0, w.1)).collect()).unwrap_or_default())
}
pub fn gate_release(id: u64) -> bool {
  GATES.with(|g| {
    let mut g = g.borrow_mut();
    let Some(c) = g.as_mut() else { return false };
    if let Some(pos) = c.waiting.iter().position(|w| w.0 == id) {
      let (_, _, n, f) = c.waiting.remove(pos);
      f.store(true, Ordering::SeqCst);
      n.notify_one();
      true
    } else {
      false
    }
  })
}

pub fn hook_gate(label: &'static str) -> Option<rzmq::verif::sched::GateFuture> {
  GATES.with(|g| {
    let mut g = g.borrow_mut();
    let c = g.as_mut()?;
    if !c.armed.contains(&label) {
      return None;
    }
    let n = Arc::new(tokio::sync::Notify::new());
    let f = Arc::new(AtomicBool::new(false));
    let id = c.next_id;
    c.next_id += 1;
    c.waiting.push((id, label, n.clone(), f.clone()));
    let fut: rzmq::verif::sched::GateFuture = Box::pin(async move {
      while !f.load(Ordering::SeqCst) {
        n.notified().await;
      }
    });
    Some(fut)
  })
}
