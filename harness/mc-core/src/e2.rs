//! E2 — controlled scheduler: iterative preemption-bounded depth-first search (CHESS style) over
//! the real code, using shuttle 0.9.3 only as the execution engine (tasks are continuations on one
//! OS thread; a switch can happen only where the scheduler is consulted).
//!
//! Decision points:
//!   * `verif::sched::point(label)`  — between two atomic steps of rzmq code; switching away costs a
//!     preemption (the running task is still runnable);
//!   * `verif::sched::spin(label)`   — inside a retry loop; the spinner is descheduled while anybody
//!     else can run (free switch); a spinner alone more than `SPIN_LIMIT` times = livelock;
//!   * every `Pending` of a future, task exit, spawn (shuttle-internal) — free when the running task
//!     is no longer runnable, a preemption otherwise.
//!
//! Stateless: every schedule re-executes the harness body on fresh objects. The scheduler keeps the
//! DFS stack across executions, checks that a replayed prefix sees the same runnable sets
//! (divergence = uncontrolled nondeterminism = machinery error), and survives a failing execution
//! so that the search continues past a (possibly known) violation.

use crate::report::Sub;
use serde_json::{json, Value};
use shuttle::scheduler::{Schedule, Scheduler, Task, TaskId};
use std::cell::{Cell, RefCell};
use std::collections::HashSet;
use std::sync::{Arc, Mutex};
use std::time::{Duration, Instant};

pub const SPIN_LIMIT: u32 = 64;

thread_local! {
  static IN_SHUTTLE: Cell<bool> = const { Cell::new(false) };
  /// 0 = shuttle-internal point, 1 = hook point, 2 = spin
  static KIND: Cell<u8> = const { Cell::new(0) };
  static LABEL: Cell<&'static str> = const { Cell::new("") };
  static SPINS: Cell<u32> = const { Cell::new(0) };
  static OUTCOME: Cell<Option<u64>> = const { Cell::new(None) };
  static NONTRIVIAL: Cell<bool> = const { Cell::new(false) };
  static STEPS_NOW: Cell<usize> = const { Cell::new(0) };
  static PANIC_STEP: Cell<Option<usize>> = const { Cell::new(None) };
  static VIOL: RefCell<Option<(String, String, String)>> = const { RefCell::new(None) };
}

pub fn in_shuttle() -> bool {
  IN_SHUTTLE.with(|c| c.get())
}

/// Hook bodies (installed globally by `install_hooks`; inert on threads that are not exploring).
pub fn hook_point(label: &'static str) {
  if in_shuttle() && !std::thread::panicking() {
    KIND.with(|k| k.set(1));
    LABEL.with(|l| l.set(label));
    shuttle::thread::yield_now();
  }
}

pub fn hook_spin(label: &'static str) {
  if in_shuttle() && !std::thread::panicking() {
    let n = SPINS.with(|s| {
      s.set(s.get() + 1);
      s.get()
    });
    if n > SPIN_LIMIT {
      fail("livelock", label, format!("spin loop at {} iterated more than {} times in one execution", label, SPIN_LIMIT));
    }
    KIND.with(|k| k.set(2));
    LABEL.with(|l| l.set(label));
    shuttle::thread::yield_now();
  }
}

/// Called by the global panic hook so that the scheduler can discard decisions taken while unwinding.
pub fn note_panic_step() {
  if in_shuttle() {
    PANIC_STEP.with(|p| {
      if p.get().is_none() {
        p.set(Some(STEPS_NOW.with(|s| s.get())))
      }
    });
  }
}

/// Oracle failure inside a harness body: records (clause, class, detail) and panics.
pub fn fail(clause: &str, class: &str, detail: String) -> ! {
  VIOL.with(|v| {
    let mut v = v.borrow_mut();
    if v.is_none() {
      *v = Some((clause.to_string(), class.to_string(), detail.clone()));
    }
  });
  panic!("MCVIOL {}/{}: {}", clause, class, detail);
}

pub fn check(cond: bool, clause: &str, class: &str, detail: impl FnOnce() -> String) {
  if !cond {
    fail(clause, class, detail());
  }
}

/// Harness bodies report the digest of what they observed (distinct-outcome counting) and whether
/// the execution was non-trivial (some task really blocked / an item really crossed threads).
pub fn outcome(d: u64) {
  OUTCOME.with(|o| o.set(Some(d)));
}
/// Name the current task's position ("sender:route#2"); shows up in deadlock classes and reports.
pub fn at(label: &str) {
  if in_shuttle() {
    shuttle::current::set_name_for_task(shuttle::current::me(), label.to_string());
  }
}
pub fn nontrivial() {
  NONTRIVIAL.with(|o| o.set(true));
}

#[derive(Clone, Debug)]
struct Level {
  /// canonical alternatives at this decision point
  choices: Vec<usize>,
  costs: Vec<u8>,
  idx: usize,
  /// preemptions spent strictly before this level on the current path
  pre: usize,
  label: &'static str,
  kind: u8,
  /// runnable set (sorted), for the divergence check
  runnable: Vec<usize>,
  current: Option<usize>,
}

#[derive(Default)]
struct Dfs {
  stack: Vec<Level>,
  step: usize,
  bound: usize,
  started: bool,
  exhausted: bool,
  diverged: Option<String>,
  decisions: u64,
  states: HashSet<u64>,
  max_points: usize,
  /// fixed choice list (replay mode)
  replay: Option<Vec<usize>>,
  replay_trace: Vec<(usize, &'static str)>,
}

impl Dfs {
  /// Move to the next schedule in DFS order within the preemption bound.
  fn advance(&mut self) -> bool {
    loop {
      let Some(top) = self.stack.last_mut() else { return false };
      let mut j = top.idx + 1;
      let mut found = false;
      while j < top.choices.len() {
        if top.pre + top.costs[j] as usize <= self.bound {
          found = true;
          break;
        }
        j += 1;
      }
      if found {
        top.idx = j;
        return true;
      }
      self.stack.pop();
    }
  }
}

struct Handle(Arc<Mutex<Dfs>>);

impl Scheduler for Handle {
  fn new_execution(&mut self) -> Option<Schedule> {
    let mut d = self.0.lock().unwrap();
    if d.diverged.is_some() {
      return None;
    }
    if d.replay.is_some() {
      if d.started {
        return None;
      }
      d.started = true;
      d.step = 0;
      return Some(Schedule::new(0));
    }
    if d.started {
      // discard decisions that were taken while a panic was unwinding
      if let Some(ps) = PANIC_STEP.with(|p| p.take()) {
        if d.stack.len() > ps {
          d.stack.truncate(ps);
        }
      }
      if !d.advance() {
        d.exhausted = true;
        return None;
      }
    }
    d.started = true;
    d.step = 0;
    reset_execution_locals();
    Some(Schedule::new(0))
  }

  fn next_task(&mut self, runnable: &[&Task], current: Option<TaskId>, _is_yielding: bool) -> Option<TaskId> {
    let kind = KIND.with(|k| k.replace(0));
    let label = if kind == 0 { "" } else { LABEL.with(|l| l.get()) };
    let mut ids: Vec<usize> = runnable.iter().map(|t| usize::from(t.id())).collect();
    ids.sort_unstable();
    let cur: Option<usize> = current.map(usize::from);
    let cur_runnable = cur.map(|c| ids.contains(&c)).unwrap_or(false);

    let mut d = self.0.lock().unwrap();
    let step = d.step;
    d.step += 1;
    d.decisions += 1;
    STEPS_NOW.with(|s| s.set(d.step));
    if std::thread::panicking() || PANIC_STEP.with(|p| p.get()).is_some() {
      // unwinding: keep going deterministically, nothing is recorded
      return Some(TaskId::from(if cur_runnable { cur.unwrap() } else { ids[0] }));
    }

    if let Some(rp) = d.replay.as_ref() {
      let c = if step < rp.len() { rp[step] } else if cur_runnable && kind != 2 { cur.unwrap() } else { ids[0] };
      if !ids.contains(&c) {
        d.diverged = Some(format!("replay step {}: task {} not runnable (runnable {:?})", step, c, ids));
        return None;
      }
      d.replay_trace.push((c, label));
      return Some(TaskId::from(c));
    }

    if step < d.stack.len() {
      let lv = &d.stack[step];
      if lv.runnable != ids || lv.current != cur || lv.kind != kind || lv.label != label {
        d.diverged = Some(format!(
          "step {}: expected runnable {:?} cur {:?} kind {} label {:?}, saw {:?} {:?} {} {:?}",
          step, lv.runnable, lv.current, lv.kind, lv.label, ids, cur, kind, label
        ));
        return None;
      }
      let c = lv.choices[lv.idx];
      return Some(TaskId::from(c));
    }

    // first visit of this decision point: canonical alternatives
    let mut choices = vec![];
    let mut costs = vec![];
    match (kind, cur_runnable) {
      (2, true) => {
        // spin: everybody else first (free); the spinner only if it is alone
        for &i in &ids {
          if Some(i) != cur {
            choices.push(i);
            costs.push(0);
          }
        }
        if choices.is_empty() {
          choices.push(cur.unwrap());
          costs.push(0);
        }
      }
      (_, true) => {
        choices.push(cur.unwrap());
        costs.push(0);
        for &i in &ids {
          if Some(i) != cur {
            choices.push(i);
            costs.push(1);
          }
        }
      }
      (_, false) => {
        for &i in &ids {
          choices.push(i);
          costs.push(0);
        }
      }
    }
    let pre = match d.stack.last() {
      Some(l) => l.pre + l.costs[l.idx] as usize,
      None => 0,
    };
    // state digest: label, who runs, who could, how far along the path we are per task is implied by step
    let dg = crate::digest(&(label, &ids, cur, kind, step));
    d.states.insert(dg);
    let c = choices[0];
    d.stack.push(Level { choices, costs, idx: 0, pre, label, kind, runnable: ids, current: cur });
    if d.stack.len() > d.max_points {
      d.max_points = d.stack.len();
    }
    Some(TaskId::from(c))
  }

  fn next_u64(&mut self) -> u64 {
    0
  }
}

fn reset_execution_locals() {
  SPINS.with(|s| s.set(0));
  OUTCOME.with(|o| o.set(None));
  NONTRIVIAL.with(|o| o.set(false));
  PANIC_STEP.with(|p| p.set(None));
  VIOL.with(|v| *v.borrow_mut() = None);
  KIND.with(|k| k.set(0));
}

#[derive(Clone, Debug)]
pub struct E2Cfg {
  pub max_preemptions: usize,
  pub max_schedules: u64,
  pub max_steps: usize,
  pub time_cap: Duration,
}

impl Default for E2Cfg {
  fn default() -> Self {
    E2Cfg { max_preemptions: 2, max_schedules: 2_000_000, max_steps: 5_000, time_cap: Duration::from_secs(40) }
  }
}

fn shuttle_config(max_steps: usize) -> shuttle::Config {
  let mut c = shuttle::Config::new();
  c.stack_size = 512 * 1024;
  c.failure_persistence = shuttle::FailurePersistence::None;
  c.max_steps = shuttle::MaxSteps::FailAfter(max_steps);
  c.silence_warnings = true;
  c.ungraceful_shutdown_config.immediately_return_on_panic = true;
  c
}

fn classify_panic(msg: &str) -> (String, String, String) {
  if let Some(v) = VIOL.with(|v| v.borrow_mut().take()) {
    return v;
  }
  if msg.starts_with("deadlock!") {
    // class = where the (named) tasks are blocked, so that a different deadlock is a different finding
    // message format: "... (task NAME(id), pending future), ..."
    let mut names: Vec<String> = msg
      .split("(task ")
      .skip(1)
      .filter_map(|seg| seg.split(", ").next())
      .map(|s| match s.rfind('(') {
        Some(i) => s[..i].to_string(),
        None => s.to_string(),
      })
      .filter(|s| !s.is_empty() && s != "main-thread")
      .collect();
    names.sort();
    let class = if names.is_empty() { "all-tasks-blocked".to_string() } else { format!("blocked[{}]", names.join("+")) };
    return ("deadlock".into(), class, msg.to_string());
  }
  if msg.contains("exceeded max_steps") {
    return ("livelock".into(), "step-bound".into(), msg.to_string());
  }
  let loc = crate::take_panic_location().map(|l| crate::short_loc(&l)).unwrap_or_default();
  ("panic".into(), loc, msg.to_string())
}

/// Runs one fixed choice list; returns (failure, trace).
pub fn replay(body: Arc<dyn Fn() + Send + Sync>, choices: &[usize], max_steps: usize) -> (Option<(String, String, String)>, Vec<(usize, &'static str)>, Option<String>) {
  let dfs = Arc::new(Mutex::new(Dfs { replay: Some(choices.to_vec()), ..Default::default() }));
  reset_execution_locals();
  IN_SHUTTLE.with(|c| c.set(true));
  let b = body.clone();
  let h = Handle(dfs.clone());
  let r = std::panic::catch_unwind(std::panic::AssertUnwindSafe(move || {
    shuttle::Runner::new(h, shuttle_config(max_steps)).run(move || b());
  }));
  IN_SHUTTLE.with(|c| c.set(false));
  let d = dfs.lock().unwrap();
  let failure = match r {
    Ok(()) => None,
    Err(e) => Some(classify_panic(&crate::panic_msg(&e))),
  };
  PANIC_STEP.with(|p| p.set(None));
  (failure, d.replay_trace.clone(), d.diverged.clone())
}

/// Explore all schedules of `body` with at most 0, 1, …, `cfg.max_preemptions` preemptions.
pub fn explore(sub: &mut Sub, harness: &str, cfg: &E2Cfg, body: impl Fn() + Send + Sync + 'static) {
  let body: Arc<dyn Fn() + Send + Sync> = Arc::new(body);
  let start = Instant::now();
  let mut outcomes: HashSet<u64> = HashSet::new();
  let mut all_states: HashSet<u64> = HashSet::new();
  let mut per_bound = vec![];
  let mut completed_bound: Option<usize> = None;
  let mut capped = false;
  let mut seen_failures: HashSet<(String, String)> = HashSet::new();
  let mut replay_mismatch: Option<String> = None;

  // a paused runtime handle so that code under test may *construct* tokio timers; it is never
  // driven, so timers never fire (time-outs are modelled by dropping futures explicitly).
  let rt = tokio::runtime::Builder::new_current_thread().enable_time().start_paused(true).build().unwrap();
  let _g = rt.enter();

  'bounds: for bound in 0..=cfg.max_preemptions {
    let dfs = Arc::new(Mutex::new(Dfs { bound, ..Default::default() }));
    let mut schedules = 0u64;
    let mut nontriv = 0u64;
    loop {
      // one Runner lives until it exhausts the search or an execution fails
      let h = Handle(dfs.clone());
      let b = body.clone();
      let counted = Arc::new(Mutex::new((0u64, 0u64, Vec::<u64>::new())));
      let counted2 = counted.clone();
      IN_SHUTTLE.with(|c| c.set(true));
      let mut conf = shuttle_config(cfg.max_steps);
      let remaining = cfg.time_cap.saturating_sub(start.elapsed());
      conf.max_time = Some(remaining);
      let r = std::panic::catch_unwind(std::panic::AssertUnwindSafe(move || {
        shuttle::Runner::new(h, conf).run(move || {
          b();
          // reached only when the body completed without failing
          let mut c = counted2.lock().unwrap();
          c.0 += 1;
          if NONTRIVIAL.with(|n| n.get()) {
            c.1 += 1;
          }
          if let Some(o) = OUTCOME.with(|o| o.get()) {
            c.2.push(o);
          }
        });
      }));
      IN_SHUTTLE.with(|c| c.set(false));
      {
        let c = counted.lock().unwrap();
        schedules += c.0;
        nontriv += c.1;
        outcomes.extend(c.2.iter().copied());
      }
      match r {
        Ok(()) => {
          let d = dfs.lock().unwrap();
          if let Some(dv) = &d.diverged {
            sub.exhaustive = false;
            sub.caps_hit.push(format!("{}: MACHINERY divergence while replaying a prefix: {}", harness, dv));
            crate::world::flag_machinery_error();
            break 'bounds;
          }
          if d.exhausted {
            break;
          }
          // runner stopped because of max_time
          capped = true;
          break;
        }
        Err(e) => {
          // a failing execution: classify, confirm by replaying twice, record, continue the search
          schedules += 1;
          let msg = crate::panic_msg(&e);
          let (clause, class, detail) = classify_panic(&msg);
          let (choices, labels): (Vec<usize>, Vec<String>) = {
            let mut d = dfs.lock().unwrap();
            let upto = PANIC_STEP.with(|p| p.take()).unwrap_or(d.stack.len()).min(d.stack.len());
            // decisions taken while the failure was unwinding are not part of the search tree
            d.stack.truncate(upto);
            (
              d.stack[..upto].iter().map(|l| l.choices[l.idx]).collect(),
              d.stack[..upto].iter().map(|l| format!("T{}@{}", l.choices[l.idx], if l.label.is_empty() { "-" } else { l.label })).collect(),
            )
          };
          let already = !seen_failures.insert((clause.clone(), class.clone()));
          let same = |r: &(Option<(String, String, String)>, Vec<(usize, &'static str)>, Option<String>)| {
            r.2.is_none() && r.0.as_ref().map(|f| (f.0.as_str(), f.1.as_str())) == Some((clause.as_str(), class.as_str()))
          };
          // the first failure of each kind is confirmed by replaying its schedule twice
          let confirmed = already || {
            let r1 = replay(body.clone(), &choices, cfg.max_steps);
            let r2 = replay(body.clone(), &choices, cfg.max_steps);
            if !(same(&r1) && same(&r2)) {
              replay_mismatch = Some(format!("{:?} / {:?}", r1.0, r2.0));
            }
            same(&r1) && same(&r2)
          };
          if confirmed {
            sub.violate(
              &clause,
              &format!("{}:{}", harness, class),
              detail,
              json!({"explorer": "e2", "harness": harness, "preemption_bound": bound, "choices": choices, "schedule": labels}),
            );
          } else {
            sub.exhaustive = false;
            sub.caps_hit.push(format!(
              "{}: MACHINERY failing schedule did not replay identically ({} / {:?})",
              harness, clause, replay_mismatch
            ));
            crate::world::flag_machinery_error();
            break 'bounds;
          }
          if schedules >= cfg.max_schedules || start.elapsed() > cfg.time_cap {
            capped = true;
            break;
          }
        }
      }
      if schedules >= cfg.max_schedules || start.elapsed() > cfg.time_cap {
        capped = true;
        break;
      }
    }
    let d = dfs.lock().unwrap();
    sub.evaluations += schedules;
    sub.transitions += d.decisions;
    sub.nontrivial += nontriv;
    all_states.extend(d.states.iter().copied());
    per_bound.push(json!({"bound": bound, "schedules": schedules, "decisions": d.decisions, "max_points_per_execution": d.max_points, "complete": !capped}));
    if capped {
      sub.exhaustive = false;
      sub.caps_hit.push(format!(
        "{}: cap reached at preemption bound {} after {} schedules ({:.0}s); complete through bound {:?}",
        harness,
        bound,
        schedules,
        start.elapsed().as_secs_f64(),
        completed_bound
      ));
      break;
    }
    completed_bound = Some(bound);
  }
  sub.states += all_states.len() as u64;
  sub.distinct_outcomes += outcomes.len() as u64;
  if let Value::Object(m) = &mut sub.bounds {
    m.insert(harness.to_string(), json!({"per_bound": per_bound, "completed_preemption_bound": completed_bound, "distinct_outcomes": outcomes.len()}));
  }
  if sub.samples.len() < 3 {
    sub.sample(json!({"harness": harness, "per_bound": per_bound}));
  }
}


/// One harness = a name and a body; `explore_all` runs every harness on its own OS thread (each has
/// its own scheduler, DFS stack and thread-local state) and folds the results into `sub`.
pub struct Harness {
  pub name: String,
  pub cfg: E2Cfg,
  pub body: Arc<dyn Fn() + Send + Sync>,
}

impl Harness {
  pub fn new(name: impl Into<String>, cfg: E2Cfg, body: impl Fn() + Send + Sync + 'static) -> Harness {
    Harness { name: name.into(), cfg, body: Arc::new(body) }
  }
}

pub fn explore_all(sub: &mut Sub, harnesses: Vec<Harness>) {
  let threads = crate::par::threads();
  let queue = Mutex::new(harnesses.into_iter().collect::<std::collections::VecDeque<_>>());
  let results: Mutex<Vec<(String, Sub)>> = Mutex::new(vec![]);
  std::thread::scope(|s| {
    for _ in 0..threads {
      s.spawn(|| loop {
        let h = { queue.lock().unwrap().pop_front() };
        let Some(h) = h else { break };
        let mut part = Sub::new("part", "E2");
        let body = h.body.clone();
        explore(&mut part, &h.name, &h.cfg, move || body());
        crate::world::tick_progress();
        results.lock().unwrap().push((h.name.clone(), part));
      });
    }
  });
  let mut rs = results.into_inner().unwrap();
  rs.sort_by(|a, b| a.0.cmp(&b.0));
  for (_, part) in rs {
    sub.absorb(part);
  }
}
