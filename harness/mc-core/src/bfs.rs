//! E1 — explicit-state breadth-first search by re-execution.
//!
//! A state *is* the event history that reaches it: `run(history)` builds fresh real objects, replays
//! the events, evaluates the oracles and returns a canonical key. Level-synchronous: all
//! (state, event) pairs of one depth are executed in parallel, then de-duplicated sequentially in
//! enumeration order, so state/transition counts do not depend on the number of threads and the
//! first counterexample for a signature is a shortest one.

use crate::report::Sub;
use serde_json::Value;
use std::collections::HashSet;
use std::fmt::Debug;
use std::hash::Hash;
use std::sync::atomic::{AtomicUsize, Ordering};
use std::sync::Mutex;

pub struct Visit<K, E> {
  /// canonical key (depth is NOT part of it; the search adds nothing)
  pub key: K,
  /// events enabled in this state (empty = terminal)
  pub enabled: Vec<E>,
  pub nontrivial: bool,
  pub outcome: u64,
  /// (clause, class, detail) — the witness (history) is attached by the search
  pub violations: Vec<(String, String, String)>,
}

pub struct BfsStats {
  pub max_depth_reached: usize,
  pub frontier_sizes: Vec<usize>,
}

pub fn bfs<E, K>(
  sub: &mut Sub,
  max_depth: usize,
  max_states: usize,
  run: impl Fn(&[E]) -> Visit<K, E> + Sync,
) -> BfsStats
where
  E: Clone + Debug + Send + Sync,
  K: Hash + Eq + Send,
{
  let mut seen: HashSet<K> = HashSet::new();
  let mut outcomes: HashSet<u64> = HashSet::new();
  let mut stats = BfsStats { max_depth_reached: 0, frontier_sizes: vec![] };
  let deadline = crate::world::deadline_from_env();

  let root = run(&[]);
  sub.evaluations += 1;
  record(sub, &mut outcomes, &[], &root);
  let mut frontier: Vec<(Vec<E>, Vec<E>)> = vec![(vec![], root.enabled.clone())];
  seen.insert(root.key);

  for depth in 1..=max_depth {
    // work list for this level
    let mut work: Vec<Vec<E>> = vec![];
    for (h, en) in &frontier {
      for e in en {
        let mut h2 = h.clone();
        h2.push(e.clone());
        work.push(h2);
      }
    }
    if work.is_empty() {
      break;
    }
    stats.frontier_sizes.push(work.len());
    let results: Vec<Mutex<Option<Visit<K, E>>>> = (0..work.len()).map(|_| Mutex::new(None)).collect();
    let next = AtomicUsize::new(0);
    let timed_out = std::sync::atomic::AtomicBool::new(false);
    std::thread::scope(|s| {
      for _ in 0..crate::par::threads() {
        s.spawn(|| loop {
          let i = next.fetch_add(1, Ordering::Relaxed);
          if i >= work.len() {
            break;
          }
          if let Some(d) = deadline {
            if std::time::Instant::now() > d {
              timed_out.store(true, Ordering::Relaxed);
              break;
            }
          }
          let v = run(&work[i]);
          *results[i].lock().unwrap() = Some(v);
        });
      }
    });
    let mut next_frontier = vec![];
    for (i, r) in results.into_iter().enumerate() {
      let Some(v) = r.into_inner().unwrap() else { continue };
      sub.evaluations += 1;
      sub.transitions += 1;
      record(sub, &mut outcomes, &work[i], &v);
      if seen.len() >= max_states {
        if sub.exhaustive {
          sub.exhaustive = false;
          sub.caps_hit.push(format!("state cap {} reached at depth {}", max_states, depth));
        }
        continue;
      }
      if seen.insert(v.key) {
        next_frontier.push((work[i].clone(), v.enabled));
      }
    }
    stats.max_depth_reached = depth;
    if timed_out.load(Ordering::Relaxed) {
      sub.exhaustive = false;
      sub.caps_hit.push(format!("wall-clock cap reached at depth {}", depth));
      break;
    }
    frontier = next_frontier;
    if frontier.is_empty() {
      break;
    }
    if depth == max_depth && frontier.iter().any(|(_, en)| !en.is_empty()) {
      // depth bound reached with unexplored successors: complete *to this depth*, not globally
      sub.notes.push(format!("depth bound {} reached; {} frontier states have successors", max_depth, frontier.len()));
    }
  }
  sub.states += seen.len() as u64;
  sub.distinct_outcomes += outcomes.len() as u64;
  stats
}

fn record<K, E: Debug>(sub: &mut Sub, outcomes: &mut HashSet<u64>, hist: &[E], v: &Visit<K, E>) {
  if v.nontrivial {
    sub.nontrivial += 1;
  }
  outcomes.insert(v.outcome);
  for (clause, class, detail) in &v.violations {
    let w: Value = Value::Array(hist.iter().map(|e| Value::String(format!("{:?}", e))).collect());
    sub.violate(clause, class, detail.clone(), w);
  }
  if sub.samples.len() < 3 && hist.len() >= 2 {
    sub.sample(Value::Array(hist.iter().map(|e| Value::String(format!("{:?}", e))).collect()));
  }
}
