//! Evidence file, violation grouping, known-findings matching, replay artefacts, exit code.

use serde_json::{json, Value};
use std::collections::BTreeMap;
use std::path::PathBuf;
use std::time::Instant;

#[derive(Debug, Clone, Copy, PartialEq, Eq)]
pub enum Tier {
  Quick,
  Thorough,
}

impl Tier {
  pub fn name(self) -> &'static str {
    match self {
      Tier::Quick => "quick",
      Tier::Thorough => "thorough",
    }
  }
  pub fn pick<T>(self, quick: T, thorough: T) -> T {
    match self {
      Tier::Quick => quick,
      Tier::Thorough => thorough,
    }
  }
}

#[derive(Debug, Clone)]
pub struct Violation {
  /// `<sub-check>/<oracle clause>/<witness class>` — stable across runs, specific to the failure.
  pub signature: String,
  pub detail: String,
  /// Everything needed to replay this one execution without the explorer.
  pub witness: Value,
}

/// Result of one sub-check (one explorer run).
#[derive(Debug, Clone, Default)]
pub struct Sub {
  pub name: String,
  pub explorer: &'static str,
  /// complete executions of the real code (histories / schedules / scripts / inputs)
  pub evaluations: u64,
  /// distinct canonical states (E1), scheduler decision points digests (E2), observation digests (E3)
  pub states: u64,
  /// events executed / scheduling decisions / script steps
  pub transitions: u64,
  /// executions that were non-trivial by `rule`
  pub nontrivial: u64,
  /// distinct observable outcomes over all executions
  pub distinct_outcomes: u64,
  pub rule: String,
  pub bounds: Value,
  pub exhaustive: bool,
  pub caps_hit: Vec<String>,
  pub samples: Vec<Value>,
  pub violations: Vec<Violation>,
  pub notes: Vec<String>,
}

impl Sub {
  pub fn new(name: &str, explorer: &'static str) -> Self {
    Sub { name: name.into(), explorer, exhaustive: true, bounds: json!({}), ..Default::default() }
  }
  pub fn sample(&mut self, v: Value) {
    if self.samples.len() < 4 {
      self.samples.push(v);
    }
  }
  pub fn violate(&mut self, clause: &str, class: &str, detail: String, witness: Value) {
    let signature = format!("{}/{}/{}", self.name, clause, class);
    // keep only the first witness per signature (alphabets are ordered simplest-first)
    if !self.violations.iter().any(|v| v.signature == signature) {
      self.violations.push(Violation { signature, detail, witness });
    }
  }
  /// Fold another sub-result (e.g. one harness explored on its own thread) into this one.
  pub fn absorb(&mut self, o: Sub) {
    self.evaluations += o.evaluations;
    self.states += o.states;
    self.transitions += o.transitions;
    self.nontrivial += o.nontrivial;
    self.distinct_outcomes += o.distinct_outcomes;
    self.exhaustive &= o.exhaustive;
    self.caps_hit.extend(o.caps_hit);
    self.notes.extend(o.notes);
    for s in o.samples {
      self.sample(s);
    }
    if let (Value::Object(a), Value::Object(b)) = (&mut self.bounds, o.bounds) {
      for (k, v) in b {
        a.insert(k, v);
      }
    }
    // signatures carry the harness name already; re-prefix with this sub's name
    for v in o.violations {
      let sig = match v.signature.split_once('/') {
        Some((_, rest)) => format!("{}/{}", self.name, rest),
        None => v.signature.clone(),
      };
      if !self.violations.iter().any(|x| x.signature == sig) {
        self.violations.push(Violation { signature: sig, detail: v.detail, witness: v.witness });
      }
    }
  }

  pub fn merge_violations(&mut self, vs: Vec<Violation>) {
    for v in vs {
      if !self.violations.iter().any(|x| x.signature == v.signature) {
        self.violations.push(v);
      }
    }
  }
}

pub struct Report {
  pub property: String,
  pub tier: Tier,
  pub seed: i64,
  pub level: &'static str,
  pub subs: Vec<Sub>,
  pub assumptions: Vec<String>,
  start: Instant,
  root: PathBuf,
}

#[derive(Debug, Clone)]
struct Known {
  status: String,
  property: String,
  signature: String,
  what: String,
}

fn load_known(root: &PathBuf) -> Vec<Known> {
  let p = root.join("known_findings.jsonl");
  let mut out = vec![];
  if let Ok(s) = std::fs::read_to_string(&p) {
    for line in s.lines() {
      let line = line.trim();
      if line.is_empty() || line.starts_with('#') {
        continue;
      }
      if let Ok(v) = serde_json::from_str::<Value>(line) {
        out.push(Known {
          status: v["status"].as_str().unwrap_or("").to_string(),
          property: v["property"].as_str().unwrap_or("").to_string(),
          signature: v["signature"].as_str().unwrap_or("").to_string(),
          what: v["what"].as_str().unwrap_or("").to_string(),
        });
      }
    }
  }
  out
}

impl Report {
  pub fn new(property: &str, tier: Tier, level: &'static str) -> Self {
    let seed = std::env::var("VERIF_SEED").ok().and_then(|s| s.parse().ok()).unwrap_or(0);
    let root = std::env::var("VERIF_ROOT").map(PathBuf::from).unwrap_or_else(|_| PathBuf::from("/verif"));
    Report {
      property: property.into(),
      tier,
      seed,
      level,
      subs: vec![],
      assumptions: vec![],
      start: Instant::now(),
      root,
    }
  }

  pub fn assume(&mut self, s: &str) {
    self.assumptions.push(s.into());
  }

  pub fn add(&mut self, sub: Sub) {
    eprintln!(
      "[{}] {:<34} {:<3} evals={:<9} states={:<8} trans={:<10} nontrivial={:<8} outcomes={:<6} exhaustive={} viol={}{}",
      self.property,
      sub.name,
      sub.explorer,
      sub.evaluations,
      sub.states,
      sub.transitions,
      sub.nontrivial,
      sub.distinct_outcomes,
      sub.exhaustive,
      sub.violations.len(),
      if sub.caps_hit.is_empty() { String::new() } else { format!(" caps={:?}", sub.caps_hit) }
    );
    self.subs.push(sub);
  }

  /// Writes replays + evidence, prints verdict lines, returns the process exit code.
  pub fn finish(self) -> i32 {
    let known = load_known(&self.root);
    let wall = self.start.elapsed().as_secs_f64();
    let mut new_violations = 0i64;
    let mut known_hits: Vec<String> = vec![];
    let mut viol_json = vec![];
    let replay_dir = self.root.join("replays");
    let _ = std::fs::create_dir_all(&replay_dir);

    for sub in &self.subs {
      for v in &sub.violations {
        let is_known = known
          .iter()
          .find(|k| k.status == "open" && k.property == self.property && k.signature == v.signature);
        let fname = format!(
          "{}-{}.json",
          self.property,
          v.signature.chars().map(|c| if c.is_ascii_alphanumeric() || c == '-' || c == '.' { c } else { '_' }).collect::<String>()
        );
        let path = replay_dir.join(fname);
        let body = json!({
          "property": self.property,
          "sub": sub.name,
          "signature": v.signature,
          "detail": v.detail,
          "witness": v.witness,
        });
        let _ = std::fs::write(&path, serde_json::to_string_pretty(&body).unwrap());
        match is_known {
          Some(k) => {
            println!("KNOWN-FINDING: property={} {} — {}", self.property, v.signature, k.what);
            known_hits.push(v.signature.clone());
          }
          None => {
            new_violations += 1;
            println!("VIOLATION property={} replay={}", self.property, path.display());
            eprintln!("  signature: {}\n  detail: {}", v.signature, v.detail);
          }
        }
        viol_json.push(json!({"signature": v.signature, "detail": v.detail, "known": is_known.is_some(), "replay": path.display().to_string()}));
      }
    }
    // a known finding that no longer reproduces is worth a note (not an error)
    let mut stale = vec![];
    for k in known.iter().filter(|k| k.status == "open" && k.property == self.property) {
      if !known_hits.contains(&k.signature) {
        stale.push(k.signature.clone());
      }
    }

    let evaluations: u64 = self.subs.iter().map(|s| s.evaluations).sum();
    let states: u64 = self.subs.iter().map(|s| s.states).sum();
    let transitions: u64 = self.subs.iter().map(|s| s.transitions).sum();
    let nontrivial: u64 = self.subs.iter().map(|s| s.nontrivial).sum();
    let exhaustive = self.subs.iter().all(|s| s.exhaustive);
    let mut samples: Vec<Value> = vec![];
    for s in &self.subs {
      for x in s.samples.iter().take(2) {
        samples.push(json!({"sub": s.name, "case": x}));
      }
    }
    if samples.is_empty() {
      samples.push(json!("no samples recorded"));
    }
    let mut rules = BTreeMap::new();
    for s in &self.subs {
      rules.insert(s.name.clone(), s.rule.clone());
    }
    let subs_json: Vec<Value> = self
      .subs
      .iter()
      .map(|s| {
        json!({
          "name": s.name, "explorer": s.explorer, "evaluations": s.evaluations, "states": s.states,
          "transitions": s.transitions, "distinct_nontrivial": s.nontrivial, "distinct_outcomes": s.distinct_outcomes,
          "bounds": s.bounds, "exhaustive": s.exhaustive, "caps_hit": s.caps_hit, "rule": s.rule, "notes": s.notes,
          "violations": s.violations.len(),
        })
      })
      .collect();

    let ev = json!({
      "property_id": self.property,
      "tier": self.tier.name(),
      "seed": self.seed,
      "level": self.level,
      "coverage": {
        "evaluations": evaluations.max(1),
        "distinct_nontrivial": nontrivial,
        "rule": rules.iter().map(|(k, v)| format!("{}: {}", k, v)).collect::<Vec<_>>().join(" | "),
        "samples": samples,
        "states": states.max(1),
        "transitions": transitions.max(1),
        "traces_validated_against_impl": evaluations,
        "explanation": "every state/transition/schedule counted here is an execution of the real rzmq code (no separate model); see sub_checks for per-explorer bounds",
        "exhaustive": exhaustive,
        "sub_checks": subs_json,
        "violations": viol_json,
        "known_findings_reproduced": known_hits,
        "known_findings_not_reproduced": stale,
      },
      "assumptions": self.assumptions,
      "wall_s": wall,
      "violations": new_violations,
    });
    let evdir = self.root.join("evidence");
    let _ = std::fs::create_dir_all(&evdir);
    let evpath = evdir.join(format!("{}.json", self.property));
    std::fs::write(&evpath, serde_json::to_string_pretty(&ev).unwrap()).expect("write evidence");
    eprintln!(
      "[{}] tier={} evals={} states={} transitions={} wall={:.1}s new_violations={} known={} -> {}",
      self.property,
      self.tier.name(),
      evaluations,
      states,
      transitions,
      wall,
      new_violations,
      known_hits.len(),
      evpath.display()
    );
    if new_violations > 0 {
      1
    } else {
      0
    }
  }
}
