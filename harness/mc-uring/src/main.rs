//! C20 differential driver. One process = one io_uring pool configuration (the backend is a
//! process-wide singleton). Every workload runs once per backend variant on real loopback tcp; the
//! observation made with the default (tokio) backend is the reference for all io_uring variants.
//!
//! usage: mc-uring <recv_count> <recv_size> <send_count> <send_size> <quick|thorough>
//! output: one JSON document on stdout:
//!   {"pool": .., "cells": n, "workloads": [...], "variants": [...], "violations": [{clause, class, detail, witness}], "samples": [...]}

use rzmq::socket::options as o;
use rzmq::socket::SocketEvent;
use rzmq::{Context, Msg, MsgFlags, Socket, SocketType};
use serde_json::{json, Value};
use std::io::{Read, Write};
use std::time::{Duration, Instant};

#[derive(Clone, Copy, Debug, PartialEq, Eq)]
struct Variant {
  uring: bool,
  zerocopy: bool,
  multishot: bool,
  cork: bool,
}

impl Variant {
  fn name(&self) -> String {
    if !self.uring {
      return if self.cork { "tokio+cork".into() } else { "tokio".into() };
    }
    format!("uring{}{}{}", if self.zerocopy { "+zc" } else { "" }, if self.multishot { "+ms" } else { "" }, if self.cork { "+cork" } else { "" })
  }
}

fn msg(d: &[u8], more: bool) -> Msg {
  let mut m = Msg::from_vec(d.to_vec());
  if more {
    m.set_flags(MsgFlags::MORE);
  }
  m
}

fn payload(tag: u32, len: usize) -> Vec<u8> {
  let mut v = Vec::with_capacity(len);
  let mut x = tag.wrapping_mul(2654435761).wrapping_add(12345);
  for _ in 0..len {
    x = x.wrapping_mul(1664525).wrapping_add(1013904223);
    v.push((x >> 24) as u8);
  }
  if len >= 4 {
    v[..4].copy_from_slice(&tag.to_be_bytes());
  }
  v
}

fn digest(b: &[u8]) -> String {
  let mut h: u64 = 0xcbf29ce484222325;
  for x in b {
    h ^= *x as u64;
    h = h.wrapping_mul(0x100000001b3);
  }
  format!("{}:{:016x}", b.len(), h)
}

async fn mk(ctx: &Context, ty: SocketType, v: Variant, extra: &[(i32, i32)]) -> Socket {
  let s = ctx.socket(ty).expect("socket");
  for (k, val) in [(o::SNDTIMEO, 3000), (o::RCVTIMEO, 3000), (o::LINGER, 0), (o::RECONNECT_IVL, 0)] {
    s.set_option(k, val).await.expect("base option");
  }
  if v.uring {
    s.set_option(o::IO_URING_SESSION_ENABLED, 1i32).await.expect("uring on");
    s.set_option(o::IO_URING_SNDZEROCOPY, v.zerocopy as i32).await.expect("zc");
    s.set_option(o::IO_URING_RCVMULTISHOT, v.multishot as i32).await.expect("ms");
  }
  if v.cork {
    s.set_option(o::TCP_CORK, 1i32).await.expect("cork");
  }
  for (k, val) in extra {
    s.set_option(*k, *val).await.expect("extra option");
  }
  if ty == SocketType::Sub {
    s.set_option(o::SUBSCRIBE, &b"a"[..]).await.expect("subscribe");
  }
  s
}

async fn bound(s: &Socket) -> String {
  s.bind("tcp://127.0.0.1:0").await.expect("bind");
  String::from_utf8(s.get_option(o::LAST_ENDPOINT).await.expect("last endpoint")).unwrap()
}

fn kind_of(e: &rzmq::ZmqError) -> String {
  let s = format!("{:?}", e);
  s.split(|c: char| !c.is_alphanumeric()).next().unwrap_or("").to_string()
}

// ------------------------------------------------------------------------------------------------
// workloads: each returns an observation (JSON) that must be identical across backends
// ------------------------------------------------------------------------------------------------

#[derive(Clone, Debug)]
enum Workload {
  /// PUSH -> PULL stream; which side runs the variant under test: 0 = sender, 1 = receiver, 2 = both
  Stream { side: u8, sizes: Vec<usize>, repeat: usize, multipart: bool },
  /// DEALER <-> ROUTER echo round trips
  Echo { side: u8, sizes: Vec<usize> },
  ReqRep { side: u8, rounds: usize },
  PubSub { side: u8 },
  /// raw tcp peer writes a valid PUSH transcript in the given chunking towards a PULL under test
  RawCuts { cuts: Vec<usize> },
  /// raw tcp peer misbehaves; what the socket under test does about it
  RawFault { fault: &'static str },
  /// receiver application pauses, sender keeps sending with SNDTIMEO=0; afterwards everything accepted arrives
  Backpressure { side: u8, size: usize },
  /// messages far larger than the socket buffer sent back to back (every write completes short), then a
  /// trickle of further messages while the burst is still going out; the receiver starts late
  LargeBurst { side: u8, size: usize, burst: usize, trickle: usize },
  /// a receiver with a tiny RCVHWM and a slightly slow application: order must survive back-pressure
  SlowConsumer { n: usize, rcvhwm: i32 },
  /// connect / talk / close cycles, then a burst; file descriptors must not leak
  Churn { cycles: usize },
  /// peer completes the handshake and then goes silent: heartbeats must close the connection
  HeartbeatSilentPeer,
  /// peer connects and never says anything: the handshake timeout must close the connection
  HandshakeSilentPeer,
}

fn v_for(side: u8, v: Variant, is_sender: bool) -> Variant {
  let under_test = match side {
    0 => is_sender,
    1 => !is_sender,
    _ => true,
  };
  if under_test {
    v
  } else {
    Variant { uring: false, zerocopy: false, multishot: false, cork: false }
  }
}

async fn wait_connected(_a: &Socket) {
  tokio::time::sleep(Duration::from_millis(80)).await;
}

fn transcript() -> (Vec<u8>, Vec<Vec<Vec<u8>>>) {
  let mut b = vec![0xFF, 0, 0, 0, 0, 0, 0, 0, 0, 0x7F, 3, 0];
  let mut m = [0u8; 20];
  m[..4].copy_from_slice(b"NULL");
  b.extend_from_slice(&m);
  b.push(0);
  b.extend_from_slice(&[0u8; 31]);
  let mut ready = b"\x05READY".to_vec();
  ready.push(11);
  ready.extend_from_slice(b"Socket-Type");
  ready.extend_from_slice(&4u32.to_be_bytes());
  ready.extend_from_slice(b"PUSH");
  b.push(0x04);
  b.push(ready.len() as u8);
  b.extend_from_slice(&ready);
  let msgs: Vec<Vec<Vec<u8>>> = vec![vec![b"one".to_vec()], vec![b"two-a".to_vec(), vec![], payload(7, 300)], vec![payload(9, 70_000)]];
  for m in &msgs {
    for (i, f) in m.iter().enumerate() {
      let more = (i + 1 < m.len()) as u8;
      if f.len() <= 255 {
        b.push(more);
        b.push(f.len() as u8);
      } else {
        b.push(more | 0x02);
        b.extend_from_slice(&(f.len() as u64).to_be_bytes());
      }
      b.extend_from_slice(f);
    }
  }
  (b, msgs)
}

async fn recv_all_msgs(s: &Socket, idle_ms: u64) -> Vec<Vec<String>> {
  let mut out = vec![];
  loop {
    match tokio::time::timeout(Duration::from_millis(idle_ms), s.recv_multipart()).await {
      Ok(Ok(fr)) => out.push(fr.iter().map(|m| digest(m.data().unwrap_or(&[]))).collect()),
      _ => break,
    }
  }
  out
}

async fn run_workload(w: &Workload, v: Variant) -> Value {
  let ctx = Context::new().expect("ctx");
  let pctx = Context::new().expect("pctx");
  let obs = match w {
    Workload::Stream { side, sizes, repeat, multipart } => {
      let rx = mk(&pctx, SocketType::Pull, v_for(*side, v, false), &[(o::RCVHWM, 2000)]).await;
      let ep = bound(&rx).await;
      let tx = mk(&ctx, SocketType::Push, v_for(*side, v, true), &[(o::SNDHWM, 2000)]).await;
      tx.connect(&ep).await.expect("connect");
      wait_connected(&tx).await;
      let mut sent = vec![];
      let mut send_errors = vec![];
      let mut tag = 0u32;
      for _ in 0..*repeat {
        for sz in sizes {
          tag += 1;
          let body = payload(tag, *sz);
          let r = if *multipart {
            let frames = vec![msg(&body, true), msg(b"", true), msg(&payload(tag + 1000, 5), false)];
            sent.push(vec![digest(&body), digest(b""), digest(&payload(tag + 1000, 5))]);
            tx.send_multipart(frames).await
          } else {
            sent.push(vec![digest(&body)]);
            tx.send(msg(&body, false)).await
          };
          if let Err(e) = r {
            send_errors.push(kind_of(&e));
          }
        }
      }
      let mut got = vec![];
      while got.len() < sent.len() {
        match tokio::time::timeout(Duration::from_secs(5), rx.recv_multipart()).await {
          Ok(Ok(fr)) => got.push(fr.iter().map(|m| digest(m.data().unwrap_or(&[]))).collect::<Vec<_>>()),
          _ => break,
        }
      }
      json!({"delivered_equals_sent": got == sent, "delivered": got.len(), "sent": sent.len(), "send_errors": send_errors, "first_difference": got.iter().zip(sent.iter()).position(|(a, b)| a != b)})
    }
    Workload::Echo { side, sizes } => {
      let r = mk(&pctx, SocketType::Router, v_for(*side, v, false), &[]).await;
      let ep = bound(&r).await;
      let d = mk(&ctx, SocketType::Dealer, v_for(*side, v, true), &[]).await;
      d.set_option(o::ROUTING_ID, &b"dlr"[..]).await.unwrap();
      d.connect(&ep).await.expect("connect");
      wait_connected(&d).await;
      let mut log = vec![];
      for (i, sz) in sizes.iter().enumerate() {
        let body = payload(i as u32 + 1, *sz);
        let s = d.send(msg(&body, false)).await.map_err(|e| kind_of(&e));
        let req = tokio::time::timeout(Duration::from_secs(5), r.recv_multipart()).await;
        let mut ok = false;
        if let Ok(Ok(fr)) = req {
          let id = fr[0].data().unwrap_or(&[]).to_vec();
          ok = fr.len() == 2 && id == b"dlr" && fr[1].data().unwrap_or(&[]) == &body[..];
          let _ = r.send_multipart(vec![msg(&id, true), msg(fr.last().unwrap().data().unwrap_or(&[]), false)]).await;
        }
        let rep = tokio::time::timeout(Duration::from_secs(5), d.recv()).await;
        let back = matches!(rep, Ok(Ok(ref m)) if m.data().unwrap_or(&[]) == &body[..]);
        log.push(json!({"size": sz, "send": s.err(), "request_intact": ok, "reply_intact": back}));
      }
      json!({"rounds": log})
    }
    Workload::ReqRep { side, rounds } => {
      let p = mk(&pctx, SocketType::Rep, v_for(*side, v, false), &[]).await;
      let ep = bound(&p).await;
      let q = mk(&ctx, SocketType::Req, v_for(*side, v, true), &[]).await;
      q.connect(&ep).await.expect("connect");
      wait_connected(&q).await;
      let mut log = vec![];
      for i in 0..*rounds {
        let body = payload(i as u32 + 1, 10 + i * 3000);
        let s = q.send(msg(&body, false)).await.map_err(|e| kind_of(&e)).err();
        let got = tokio::time::timeout(Duration::from_secs(5), p.recv()).await;
        let ok = matches!(got, Ok(Ok(ref m)) if m.data().unwrap_or(&[]) == &body[..]);
        let _ = p.send(msg(&body, false)).await;
        let rep = tokio::time::timeout(Duration::from_secs(5), q.recv()).await;
        let back = matches!(rep, Ok(Ok(ref m)) if m.data().unwrap_or(&[]) == &body[..]);
        log.push(json!({"send": s, "request_intact": ok, "reply_intact": back}));
      }
      // an out-of-turn call must be refused the same way
      let again = q.recv().await.map(|_| ()).map_err(|e| kind_of(&e));
      json!({"rounds": log, "recv_out_of_turn": format!("{:?}", again)})
    }
    Workload::PubSub { side } => {
      let p = mk(&pctx, SocketType::Pub, v_for(*side, v, true), &[]).await;
      let ep = bound(&p).await;
      let s = mk(&ctx, SocketType::Sub, v_for(*side, v, false), &[]).await;
      s.connect(&ep).await.expect("connect");
      tokio::time::sleep(Duration::from_millis(300)).await;
      for t in [&b"a1"[..], b"b1", b"a2", b"", b"ab"] {
        let _ = p.send(msg(t, false)).await;
      }
      let _ = p.send_multipart(vec![msg(b"a-multi", true), msg(&payload(3, 20_000), false)]).await;
      let got = recv_all_msgs(&s, 500).await;
      json!({"delivered": got})
    }
    Workload::RawCuts { cuts } => {
      let rx = mk(&ctx, SocketType::Pull, v, &[]).await;
      let ep = bound(&rx).await;
      let addr = ep.trim_start_matches("tcp://").to_string();
      let (bytes, msgs) = transcript();
      let cuts = cuts.clone();
      let writer = std::thread::spawn(move || {
        let mut s = std::net::TcpStream::connect(&addr).expect("raw connect");
        s.set_nodelay(true).ok();
        let mut at = 0usize;
        for c in cuts.iter().chain(std::iter::once(&bytes.len())) {
          let c = (*c).min(bytes.len());
          if c > at {
            let _ = s.write_all(&bytes[at..c]);
            let _ = s.flush();
            at = c;
            std::thread::sleep(Duration::from_millis(4));
          }
        }
        // keep the connection open while the socket reads
        std::thread::sleep(Duration::from_millis(300));
      });
      let mut got = vec![];
      while got.len() < msgs.len() {
        match tokio::time::timeout(Duration::from_secs(3), rx.recv_multipart()).await {
          Ok(Ok(fr)) => got.push(fr.iter().map(|m| digest(m.data().unwrap_or(&[]))).collect::<Vec<_>>()),
          _ => break,
        }
      }
      let _ = writer.join();
      let want: Vec<Vec<String>> = msgs.iter().map(|m| m.iter().map(|f| digest(f)).collect()).collect();
      json!({"delivered_equals_transcript": got == want, "delivered": got.len()})
    }
    Workload::RawFault { fault } => {
      let rx = mk(&ctx, SocketType::Pull, v, &[]).await;
      rx.set_option(o::MAXMSGSIZE, &100_000i64.to_ne_bytes()[..]).await.unwrap();
      let mon = rx.monitor_default().await.expect("monitor");
      let ep = bound(&rx).await;
      let addr = ep.trim_start_matches("tcp://").to_string();
      let (bytes, _) = transcript();
      let hs_len = 64 + 28; // greeting + READY frame (2-byte header + 26-byte body)
      let fault_s = fault.to_string();
      let raw = std::thread::spawn(move || {
        let mut s = std::net::TcpStream::connect(&addr).expect("raw connect");
        s.set_nodelay(true).ok();
        s.set_read_timeout(Some(Duration::from_millis(1200))).ok();
        let to_write: Vec<u8> = match fault_s.as_str() {
          "bad-signature" => vec![0u8; 64],
          "unknown-mechanism" => {
            let mut g = bytes[..64].to_vec();
            g[12..17].copy_from_slice(b"BOGUS");
            g
          }
          "wrong-socket-type" => {
            let mut g = bytes[..hs_len].to_vec();
            let n = g.len();
            g[n - 4..].copy_from_slice(b"PULL");
            g
          }
          "oversize-frame" => {
            let mut g = bytes[..hs_len].to_vec();
            g.push(0x02);
            g.extend_from_slice(&(1u64 << 40).to_be_bytes());
            g.extend_from_slice(b"xyz");
            g
          }
          "eof-mid-frame" => {
            let mut g = bytes[..hs_len].to_vec();
            g.extend_from_slice(&[0x00, 0x10, b'a', b'b']);
            g
          }
          "too-many-frames" => {
            let mut g = bytes[..hs_len].to_vec();
            for _ in 0..300 {
              g.extend_from_slice(&[0x01, 0x01, b'x']);
            }
            g
          }
          _ => bytes[..hs_len].to_vec(),
        };
        let _ = s.write_all(&to_write);
        let _ = s.flush();
        if fault_s == "eof-mid-frame" {
          std::thread::sleep(Duration::from_millis(100));
          return "closed-by-me".to_string();
        }
        // does the socket close the connection?
        let t = Instant::now();
        let mut buf = [0u8; 4096];
        loop {
          match s.read(&mut buf) {
            Ok(0) => return "closed-by-socket".to_string(),
            Ok(_) => {
              if t.elapsed() > Duration::from_millis(1200) {
                return "still-open".to_string();
              }
            }
            Err(e) if e.kind() == std::io::ErrorKind::WouldBlock || e.kind() == std::io::ErrorKind::TimedOut => return "still-open".to_string(),
            Err(_) => return "closed-by-socket".to_string(),
          }
        }
      });
      let outcome = tokio::task::spawn_blocking(move || raw.join().unwrap_or_else(|_| "raw-panicked".into())).await.unwrap();
      // monitor events of interest, as a set
      let mut evs = std::collections::BTreeSet::new();
      while let Ok(Ok(e)) = tokio::time::timeout(Duration::from_millis(50), mon.recv()).await {
        match e {
          SocketEvent::HandshakeFailed { .. } => {
            evs.insert("HandshakeFailed");
          }
          SocketEvent::HandshakeSucceeded { .. } => {
            evs.insert("HandshakeSucceeded");
          }
          SocketEvent::Disconnected { .. } => {
            evs.insert("Disconnected");
          }
          _ => {}
        }
      }
      let delivered_msgs = recv_all_msgs(&rx, 100).await;
      let delivered = delivered_msgs.len();
      let shapes: Vec<String> = delivered_msgs.iter().map(|m| format!("{} frames, first {}", m.len(), m.first().cloned().unwrap_or_default())).collect();
      // a healthy peer still gets through
      let tx = mk(&pctx, SocketType::Push, Variant { uring: false, zerocopy: false, multishot: false, cork: false }, &[]).await;
      tx.connect(&ep).await.expect("connect");
      wait_connected(&tx).await;
      let _ = tx.send(msg(b"healthy", false)).await;
      let healthy = matches!(tokio::time::timeout(Duration::from_secs(3), rx.recv()).await, Ok(Ok(ref m)) if m.data() == Some(&b"healthy"[..]));
      json!({"raw_peer_saw": outcome, "events": evs, "delivered_from_faulty": delivered, "healthy_peer_served": healthy, "_frames_per_delivered_message": shapes})
    }
    Workload::Backpressure { side, size } => {
      let rx = mk(&pctx, SocketType::Pull, v_for(*side, v, false), &[(o::RCVHWM, 4)]).await;
      let ep = bound(&rx).await;
      let tx = mk(&ctx, SocketType::Push, v_for(*side, v, true), &[(o::SNDHWM, 4), (o::SNDTIMEO, 0)]).await;
      tx.connect(&ep).await.expect("connect");
      wait_connected(&tx).await;
      let mut accepted = vec![];
      let mut refused = 0;
      for i in 0..4000u32 {
        let body = payload(i + 1, *size);
        match tx.send(msg(&body, false)).await {
          Ok(()) => accepted.push(digest(&body)),
          Err(_) => {
            refused += 1;
            if refused > 20 {
              break;
            }
            tokio::time::sleep(Duration::from_millis(2)).await;
          }
        }
      }
      let mut got = vec![];
      while got.len() < accepted.len() {
        match tokio::time::timeout(Duration::from_secs(5), rx.recv()).await {
          Ok(Ok(m)) => got.push(digest(m.data().unwrap_or(&[]))),
          _ => break,
        }
      }
      // the count accepted depends on kernel buffer sizes and is not compared; the contract is
      json!({"hit_backpressure": refused > 0, "all_accepted_delivered_in_order": got == accepted})
    }
    Workload::LargeBurst { side, size, burst, trickle } => {
      let rx = mk(&pctx, SocketType::Pull, v_for(*side, v, false), &[(o::RCVHWM, 1000)]).await;
      let ep = bound(&rx).await;
      let tx = mk(&ctx, SocketType::Push, v_for(*side, v, true), &[(o::SNDHWM, 1000), (o::SNDTIMEO, 20_000)]).await;
      tx.connect(&ep).await.expect("connect");
      wait_connected(&tx).await;
      let (size, burst, trickle) = (*size, *burst, *trickle);
      let total = burst + trickle;
      let tx2 = tx.clone();
      let sender = tokio::spawn(async move {
        let mut errs = vec![];
        for i in 0..total as u32 {
          let body = payload(i + 1, size + (i as usize % 7) * 1000);
          if let Err(e) = tx2.send(msg(&body, false)).await {
            errs.push(kind_of(&e));
          }
          if i as usize >= burst {
            tokio::time::sleep(Duration::from_millis(4)).await;
          }
        }
        errs
      });
      // the reader starts late so that the kernel buffers are full when the burst goes out
      tokio::time::sleep(Duration::from_millis(150)).await;
      let mut intact = 0usize;
      let mut first_bad: Option<String> = None;
      let mut received = 0usize;
      while received < total {
        match tokio::time::timeout(Duration::from_secs(10), rx.recv()).await {
          Ok(Ok(m)) => {
            let d = m.data().unwrap_or(&[]);
            let want = payload(received as u32 + 1, size + (received % 7) * 1000);
            if d == &want[..] {
              intact += 1;
            } else if first_bad.is_none() {
              let off = d.iter().zip(want.iter()).position(|(a, b)| a != b);
              first_bad = Some(format!("message {}: {} bytes (expected {}), first difference at {:?}", received, d.len(), want.len(), off));
            }
            received += 1;
          }
          _ => break,
        }
      }
      let errs = tokio::time::timeout(Duration::from_secs(30), sender).await.ok().and_then(|r| r.ok()).unwrap_or_else(|| vec!["sender-stuck".into()]);
      json!({"all_delivered_intact_in_order": intact == total, "send_errors": errs, "_received": received, "_first_bad": format!("{:?}", first_bad)})
    }
    Workload::SlowConsumer { n, rcvhwm } => {
      // two rounds on fresh connections: the window is timing dependent, any round may show it
      let mut all_sent = true;
      let mut in_order = true;
      let mut first_bad_any = None;
      let mut received_total = 0usize;
      for _round in 0..2 {
        let rx = mk(&ctx, SocketType::Pull, v, &[(o::RCVHWM, *rcvhwm)]).await;
        let ep = bound(&rx).await;
        let tx = mk(&pctx, SocketType::Push, Variant { uring: false, zerocopy: false, multishot: false, cork: false }, &[(o::SNDHWM, 1000), (o::SNDTIMEO, 5000)]).await;
        tx.connect(&ep).await.expect("connect");
        wait_connected(&tx).await;
        let n = *n;
        let tx2 = tx.clone();
        let sender = tokio::spawn(async move {
          let mut ok = 0usize;
          for i in 0..n as u32 {
            let mut body = vec![0u8; 16];
            body[..4].copy_from_slice(&i.to_be_bytes());
            if tx2.send(msg(&body, false)).await.is_ok() {
              ok += 1;
            }
          }
          ok
        });
        let mut got: Vec<u32> = vec![];
        while got.len() < n {
          match tokio::time::timeout(Duration::from_secs(3), rx.recv()).await {
            Ok(Ok(m)) => {
              let d = m.data().unwrap_or(&[]);
              if d.len() >= 4 {
                got.push(u32::from_be_bytes(d[..4].try_into().unwrap()));
              }
              if got.len() % 16 == 0 {
                tokio::time::sleep(Duration::from_micros(200)).await;
              }
            }
            _ => break,
          }
        }
        let sent_ok = sender.await.unwrap_or(0);
        all_sent &= sent_ok == n;
        received_total += got.len();
        let first_bad = got.iter().enumerate().find(|(i, s)| **s != *i as u32).map(|(i, s)| (i, *s));
        if got.len() != n || first_bad.is_some() {
          in_order = false;
          first_bad_any = first_bad_any.or(first_bad);
        }
        let _ = tx.close().await;
        let _ = rx.close().await;
      }
      json!({"all_sent": all_sent, "received_all_in_order": in_order, "_first_out_of_order": format!("{:?}", first_bad_any), "_received": received_total})
    }
    Workload::Churn { cycles } => {
      let fds = || std::fs::read_dir("/proc/self/fd").map(|d| d.count()).unwrap_or(0);
      let rx = mk(&pctx, SocketType::Pull, v, &[(o::RCVHWM, 5000)]).await;
      let ep = bound(&rx).await;
      tokio::time::sleep(Duration::from_millis(100)).await;
      let before = fds();
      let mut delivered = 0usize;
      let mut sent = 0usize;
      for c in 0..*cycles {
        let cctx = Context::new().expect("cctx");
        let tx = mk(&cctx, SocketType::Push, v, &[]).await;
        tx.connect(&ep).await.expect("connect");
        wait_connected(&tx).await;
        for i in 0..5u32 {
          if tx.send(msg(&payload(c as u32 * 10 + i, 5000), false)).await.is_ok() {
            sent += 1;
          }
        }
        tokio::time::sleep(Duration::from_millis(30)).await;
        let _ = tx.close().await;
        let _ = tokio::time::timeout(Duration::from_secs(12), cctx.term()).await;
      }
      while delivered < sent {
        match tokio::time::timeout(Duration::from_millis(1500), rx.recv()).await {
          Ok(Ok(_)) => delivered += 1,
          _ => break,
        }
      }
      tokio::time::sleep(Duration::from_millis(1500)).await;
      let after = fds();
      // after the churn a burst of large messages still goes through (pools were given back)
      let tx = mk(&ctx, SocketType::Push, v, &[(o::SNDHWM, 1000)]).await;
      tx.connect(&ep).await.expect("connect");
      wait_connected(&tx).await;
      let mut burst_ok = 0;
      for i in 0..60u32 {
        if tx.send(msg(&payload(i, 70_000), false)).await.is_ok() {
          burst_ok += 1;
        }
      }
      let mut burst_got = 0;
      while burst_got < burst_ok {
        match tokio::time::timeout(Duration::from_millis(1500), rx.recv()).await {
          Ok(Ok(_)) => burst_got += 1,
          _ => break,
        }
      }
      json!({"all_sent_delivered": delivered == sent, "fd_leak": after > before + 3, "burst_delivered": burst_got == 60, "_fds": [before, after], "_counts": [sent, delivered, burst_ok, burst_got]})
    }
    Workload::HeartbeatSilentPeer => {
      let rx = mk(&ctx, SocketType::Pull, v, &[(o::HEARTBEAT_IVL, 100), (o::HEARTBEAT_TIMEOUT, 200)]).await;
      let ep = bound(&rx).await;
      let addr = ep.trim_start_matches("tcp://").to_string();
      let (bytes, _) = transcript();
      let raw = std::thread::spawn(move || {
        let mut s = std::net::TcpStream::connect(&addr).expect("raw connect");
        s.set_nodelay(true).ok();
        let _ = s.write_all(&bytes[..64 + 28]);
        s.set_read_timeout(Some(Duration::from_millis(200))).ok();
        let t = Instant::now();
        let mut buf = [0u8; 4096];
        let mut saw_ping = false;
        while t.elapsed() < Duration::from_millis(1600) {
          match s.read(&mut buf) {
            Ok(0) => return (saw_ping, "closed-by-socket".to_string()),
            Ok(n) => {
              if buf[..n].windows(4).any(|w| w == b"PING") {
                saw_ping = true;
              }
            }
            Err(e) if e.kind() == std::io::ErrorKind::WouldBlock || e.kind() == std::io::ErrorKind::TimedOut => {}
            Err(_) => return (saw_ping, "closed-by-socket".to_string()),
          }
        }
        (saw_ping, "still-open-after-1.6s".to_string())
      });
      let (saw_ping, outcome) = tokio::task::spawn_blocking(move || raw.join().unwrap()).await.unwrap();
      json!({"ping_sent": saw_ping, "silent_peer": outcome})
    }
    Workload::HandshakeSilentPeer => {
      let rx = mk(&ctx, SocketType::Pull, v, &[(o::HANDSHAKE_IVL, 400)]).await;
      let ep = bound(&rx).await;
      let addr = ep.trim_start_matches("tcp://").to_string();
      let raw = std::thread::spawn(move || {
        let mut s = std::net::TcpStream::connect(&addr).expect("raw connect");
        s.set_read_timeout(Some(Duration::from_millis(200))).ok();
        let t = Instant::now();
        let mut buf = [0u8; 4096];
        while t.elapsed() < Duration::from_millis(1600) {
          match s.read(&mut buf) {
            Ok(0) => return "closed-by-socket".to_string(),
            Ok(_) => {}
            Err(e) if e.kind() == std::io::ErrorKind::WouldBlock || e.kind() == std::io::ErrorKind::TimedOut => {}
            Err(_) => return "closed-by-socket".to_string(),
          }
        }
        "still-open-after-1.6s".to_string()
      });
      let outcome = tokio::task::spawn_blocking(move || raw.join().unwrap()).await.unwrap();
      json!({"silent_peer": outcome})
    }
  };
  let _ = tokio::time::timeout(Duration::from_secs(12), ctx.term()).await;
  let _ = tokio::time::timeout(Duration::from_secs(12), pctx.term()).await;
  obs
}

fn strip_private(v: &Value) -> Value {
  match v {
    Value::Object(m) => Value::Object(m.iter().filter(|(k, _)| !k.starts_with('_')).map(|(k, v)| (k.clone(), strip_private(v))).collect()),
    other => other.clone(),
  }
}

fn workloads(thorough: bool, recv_size: usize, send_size: usize) -> Vec<Workload> {
  let zc = 16384usize;
  let around = |x: usize| vec![x.saturating_sub(1), x, x + 1];
  let mut sizes: Vec<usize> = vec![0, 1, 100];
  sizes.extend(around(recv_size));
  sizes.extend(around(send_size));
  sizes.extend(around(zc));
  sizes.extend([70_000, 200_000]);
  sizes.sort();
  sizes.dedup();
  let mut w = vec![];
  // first, while the backend has seen nothing else: ordering under back-pressure is timing sensitive
  w.push(Workload::SlowConsumer { n: if thorough { 10_000 } else { 4000 }, rcvhwm: 4 });
  if thorough {
    // RCVHWM=1 stalls the io_uring receiver for good (open finding): one small cell in the first pool
    // configuration records it; every variant spends its 60 s limit twice on it
    if recv_size == 65536 && send_size == 65536 {
      w.push(Workload::SlowConsumer { n: 300, rcvhwm: 1 });
    }
    w.push(Workload::SlowConsumer { n: 5000, rcvhwm: 64 });
  }
  let sides: Vec<u8> = if thorough { vec![0, 1, 2] } else { vec![2] };
  for side in sides {
    w.push(Workload::Stream { side, sizes: sizes.clone(), repeat: 1, multipart: false });
    w.push(Workload::Stream { side, sizes: vec![10, 3000], repeat: if thorough { 400 } else { 100 }, multipart: false });
    w.push(Workload::Stream { side, sizes: vec![0, 300, recv_size + 1], repeat: if thorough { 5 } else { 2 }, multipart: true });
    w.push(Workload::Echo { side, sizes: vec![1, recv_size, send_size + 1, 100_000] });
    w.push(Workload::ReqRep { side, rounds: if thorough { 4 } else { 2 } });
    w.push(Workload::PubSub { side });
    w.push(Workload::Backpressure { side, size: 20_000 });
    w.push(Workload::LargeBurst { side, size: 3 << 20, burst: 5, trickle: if thorough { 40 } else { 20 } });
    if thorough {
      w.push(Workload::LargeBurst { side, size: 600_000, burst: 30, trickle: 60 });
    }
  }
  let (bytes, _) = transcript();
  let n = bytes.len();
  let mut cutsets: Vec<Vec<usize>> = vec![vec![], vec![64], vec![64 + 28 + 1], vec![n - 35_000], (1..40).collect()];
  if thorough {
    for c in [1usize, 10, 11, 63, 65, 66, 94, 101, n - 1] {
      cutsets.push(vec![c]);
    }
    cutsets.push((1..120).collect());
    cutsets.push(vec![64, 94, 99, 106]);
    cutsets.push(vec![10, 64, 70, 94, n - 60_000, n - 30_000]);
  }
  for c in cutsets {
    w.push(Workload::RawCuts { cuts: c });
  }
  let faults: Vec<&'static str> = if thorough { vec!["bad-signature", "unknown-mechanism", "wrong-socket-type", "oversize-frame", "eof-mid-frame", "too-many-frames"] } else { vec!["bad-signature", "wrong-socket-type", "oversize-frame", "eof-mid-frame"] };
  for f in faults {
    w.push(Workload::RawFault { fault: f });
  }
  w.push(Workload::HeartbeatSilentPeer);
  w.push(Workload::HandshakeSilentPeer);
  // last: it is the one workload after which the backend may be in a degraded state
  w.push(Workload::Churn { cycles: if thorough { 40 } else { 6 } });
  w
}

fn variants(thorough: bool) -> Vec<Variant> {
  if !thorough {
    return vec![Variant { uring: true, zerocopy: true, multishot: true, cork: false }];
  }
  let mut v = vec![];
  for zerocopy in [false, true] {
    for multishot in [false, true] {
      for cork in [false, true] {
        v.push(Variant { uring: true, zerocopy, multishot, cork });
      }
    }
  }
  v
}

fn main() {
  let a: Vec<String> = std::env::args().collect();
  if a.len() < 6 {
    eprintln!("usage: mc-uring <recv_count> <recv_size> <send_count> <send_size> <quick|thorough> [workload-filter]");
    std::process::exit(2);
  }
  let (rc, rs, sc, ss): (usize, usize, usize, usize) = (a[1].parse().unwrap(), a[2].parse().unwrap(), a[3].parse().unwrap(), a[4].parse().unwrap());
  let thorough = a[5] == "thorough";
  let filter = a.get(6).cloned();
  let init = rzmq::uring::initialize_uring_backend(rzmq::uring::UringConfig {
    ring_entries: 256,
    default_send_zerocopy: false,
    default_recv_multishot: true,
    default_recv_buffer_count: rc,
    default_recv_buffer_size: rs,
    default_send_buffer_count: sc,
    default_send_buffer_size: ss,
    ..Default::default()
  });
  if let Err(e) = init {
    println!("{}", json!({"unavailable": format!("io_uring backend cannot be initialised: {}", e)}));
    return;
  }
  let rt = tokio::runtime::Builder::new_multi_thread().worker_threads(4).enable_all().build().expect("runtime");
  let ws = workloads(thorough, rs, ss);
  let vs = variants(thorough);
  let pool = format!("recv {}x{} send {}x{}", rc, rs, sc, ss);
  let mut violations = vec![];
  let mut samples = vec![];
  let mut cells = 0u64;
  let mut unstable: Vec<String> = vec![];
  let reference_variant = Variant { uring: false, zerocopy: false, multishot: false, cork: false };
  // cells run one after another: the io_uring worker and its buffer pools are shared by the whole
  // process, so concurrent cells would interfere with each other's observations
  let selected: Vec<(usize, Workload)> = ws.iter().cloned().enumerate().filter(|(_, w)| filter.as_ref().map(|f| format!("{:?}", w).contains(f.as_str())).unwrap_or(true)).collect();
  let run = |w: &Workload, v: Variant| -> Result<Value, String> {
    // announced before it runs: if the process dies inside this cell the parent knows where
    println!("{}", json!({"event": "begin", "workload": format!("{:?}", w).chars().take(90).collect::<String>(), "variant": v.name()}));
    let _ = std::io::Write::flush(&mut std::io::stdout());
    let w2 = w.clone();
    // (the RCVHWM=1 cell is known to stall: 20 s are plenty for 600 tiny messages, the default backend needs under 2 s)
    let limit = if matches!(w, Workload::SlowConsumer { rcvhwm: 1, .. }) { 20 } else { 60 };
    let r = rt.block_on(async { tokio::spawn(async move { tokio::time::timeout(Duration::from_secs(limit), run_workload(&w2, v)).await }).await });
    match r {
      Ok(Ok(v)) => Ok(v),
      Ok(Err(_)) => Err(format!("workload did not finish within {} s", limit)),
      Err(_) => Err("workload panicked".to_string()),
    }
  };
  let debug = std::env::var("MC_URING_DEBUG").is_ok();
  for (wi, w) in &selected {
    let wname = format!("{:?}", w);
    let short: String = wname.chars().take(90).collect();
    cells += 1;
    let t_w = Instant::now();
    let mut reference = match run(w, reference_variant) {
      Ok(v) => v,
      Err(e) => {
        violations.push(json!({"clause": "reference-backend-failed", "class": short, "detail": e, "witness": {"workload": wname, "pool": pool}}));
        continue;
      }
    };
    if debug {
      eprintln!("OBS w{} tokio -> {}", wi, reference);
    }
    if wi % 5 == 0 {
      samples.push(json!({"workload": short, "tokio_observation": strip_private(&reference)}));
    }
    for v in &vs {
      cells += 1;
      let kind = wname.split(|c: char| !c.is_alphanumeric()).next().unwrap_or("").to_string();
      let detail_of = |w: &Workload| match w {
        Workload::RawFault { fault } => format!("{}:{}", kind, fault),
        Workload::SlowConsumer { rcvhwm, .. } if *rcvhwm != 4 => format!("{}:rcvhwm{}", kind, rcvhwm),
        Workload::Stream { side, multipart, .. } => format!("{}:side{}{}", kind, side, if *multipart { ":multipart" } else { "" }),
        Workload::Echo { side, .. } | Workload::ReqRep { side, .. } | Workload::PubSub { side } | Workload::Backpressure { side, .. } | Workload::LargeBurst { side, .. } => format!("{}:side{}", kind, side),
        _ => kind.clone(),
      };
      let class = format!("{}:{}", detail_of(w), v.name());
      let mut o = run(w, *v);
      if debug {
        eprintln!("OBS w{} {} -> {:?}", wi, v.name(), o);
      }
      // re-ordering within one tcp connection cannot be produced by machine load or by the harness:
      // a single observation of it is conclusive and needs no second run
      if let (Workload::SlowConsumer { .. }, Ok(ov)) = (w, &o) {
        if ov["_first_out_of_order"] != "None" && ov["_first_out_of_order"].is_string() {
          violations.push(json!({"clause": "messages-delivered-out-of-order", "class": class, "detail": format!("pool [{}] workload {}: {} delivered sequence-numbered messages of one connection out of order, first at (position, sequence) {} ({} received)", pool, short, v.name(), ov["_first_out_of_order"], ov["_received"]), "witness": {"workload": wname, "variant": v.name(), "pool": pool}}));
          continue;
        }
      }
      // a difference only counts if it is reproducible: run the reference and the variant once more
      let differs = |o: &Result<Value, String>, r: &Value| match o {
        Ok(o) => strip_private(o) != strip_private(r),
        Err(_) => true,
      };
      if differs(&o, &reference) {
        if let Ok(r2) = run(w, reference_variant) {
          if strip_private(&r2) != strip_private(&reference) {
            // the reference itself is not stable for this workload on this machine right now: no verdict
            unstable.push(short.clone());
            reference = r2;
            continue;
          }
        }
        let o2 = run(w, *v);
        if !differs(&o2, &reference) {
          unstable.push(format!("{} [{}]", short, v.name()));
          continue;
        }
        o = o2;
      }
      match o {
        Ok(o) => {
          if strip_private(&o) != strip_private(&reference) {
            violations.push(json!({"clause": "observation-differs-from-tokio-backend", "class": class, "detail": format!("pool [{}] workload {}: tokio backend observed {}, {} observed {} (both runs)", pool, short, strip_private(&reference), v.name(), strip_private(&o)), "witness": {"workload": wname, "variant": v.name(), "pool": pool}}));
          }
        }
        Err(e) => violations.push(json!({"clause": "uring-workload-failed", "class": class, "detail": format!("pool [{}] workload {}: {} (both runs)", pool, short, e), "witness": {"workload": wname, "variant": v.name(), "pool": pool}})),
      }
    }
    if debug {
      eprintln!("TIME w{} {:?} {}", wi, t_w.elapsed(), short);
    }
    // incremental result: survives a later abort of the process
    println!("{}", json!({"event": "workload_done", "workload": short, "cells": 1 + vs.len(), "violations": violations.drain(..).collect::<Vec<_>>(), "samples": samples.drain(..).collect::<Vec<_>>()}));
    let _ = std::io::Write::flush(&mut std::io::stdout());
  }
  println!("{}", json!({"event": "summary", "pool": pool, "cells": cells, "workloads": ws.len(), "variants": vs.iter().map(|v| v.name()).collect::<Vec<_>>(), "violations": violations, "samples": samples, "unstable_cells_without_verdict": unstable}));
  std::process::exit(0);
}
